//! Type-level witnesses for the schedule-independence clauses of C10 / C12 / C14.
//!
//! `trait Kinematics: Send + Sync` is what makes the closures handed to rayon data-race free: a robot model that
//! carries thread-unsafe interior mutability cannot implement the trait at all.
//!
//! The violating program must fail to build with E0277 (`Rc<Cell<_>>` is neither `Send` nor `Sync`):
//!
//! ```compile_fail,E0277
//! use std::cell::Cell;
//! use std::rc::Rc;
//! use rs_opw_kinematics::constraints::Constraints;
//! use rs_opw_kinematics::kinematic_traits::{Joints, Kinematics, Pose, Singularity, Solutions};
//! struct Counting { calls: Rc<Cell<usize>>, none: Option<Constraints> }
//! impl Kinematics for Counting {
//!     fn inverse(&self, _p: &Pose) -> Solutions { self.calls.set(self.calls.get() + 1); vec![] }
//!     fn inverse_continuing(&self, _p: &Pose, _q: &Joints) -> Solutions { vec![] }
//!     fn forward(&self, _q: &Joints) -> Pose { Pose::identity() }
//!     fn inverse_5dof(&self, _p: &Pose, _j6: f64) -> Solutions { vec![] }
//!     fn inverse_continuing_5dof(&self, _p: &Pose, _q: &Joints) -> Solutions { vec![] }
//!     fn constraints(&self) -> &Option<Constraints> { &self.none }
//!     fn kinematic_singularity(&self, _q: &Joints) -> Option<Singularity> { None }
//!     fn forward_with_joint_poses(&self, _q: &Joints) -> [Pose; 6] { [Pose::identity(); 6] }
//! }
//! ```
//!
//! Its twin differs only in the counter type (`Arc<AtomicUsize>`) and must compile - so the witness above fails for the
//! stated reason and not because of a wrong path or signature:
//!
//! ```
//! use std::sync::atomic::{AtomicUsize, Ordering};
//! use std::sync::Arc;
//! use rs_opw_kinematics::constraints::Constraints;
//! use rs_opw_kinematics::kinematic_traits::{Joints, Kinematics, Pose, Singularity, Solutions};
//! struct Counting { calls: Arc<AtomicUsize>, none: Option<Constraints> }
//! impl Kinematics for Counting {
//!     fn inverse(&self, _p: &Pose) -> Solutions { self.calls.fetch_add(1, Ordering::Relaxed); vec![] }
//!     fn inverse_continuing(&self, _p: &Pose, _q: &Joints) -> Solutions { vec![] }
//!     fn forward(&self, _q: &Joints) -> Pose { Pose::identity() }
//!     fn inverse_5dof(&self, _p: &Pose, _j6: f64) -> Solutions { vec![] }
//!     fn inverse_continuing_5dof(&self, _p: &Pose, _q: &Joints) -> Solutions { vec![] }
//!     fn constraints(&self) -> &Option<Constraints> { &self.none }
//!     fn kinematic_singularity(&self, _q: &Joints) -> Option<Singularity> { None }
//!     fn forward_with_joint_poses(&self, _q: &Joints) -> [Pose; 6] { [Pose::identity(); 6] }
//! }
//! let _c = Counting { calls: Arc::new(AtomicUsize::new(0)), none: None };
//! ```
