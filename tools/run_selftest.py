#!/usr/bin/env python3
"""Self-test of the checks: every catalogued mutant must be reported by the named check/rule, every behaviour-preserving
variant must leave the listed checks silent.  Scratch copies live under /var/tmp and are removed.  Exit 0 iff all as expected.
usage: selftest.py [--only M01,K03] [--jobs N] [--json out.json]"""
import argparse, json, os, shutil, subprocess, sys, tempfile
from concurrent.futures import ThreadPoolExecutor
sys.path.insert(0, os.path.join(os.path.dirname(__file__), '..'))
from selftest.mutants import MUTANTS, KEEP
try:
    from selftest.mutants import OPEN_REWRITES
except ImportError:
    OPEN_REWRITES = {}
VERIF = os.path.abspath(os.path.join(os.path.dirname(__file__), '..'))
REPO = os.environ.get('OPW_REPO', '/repo')


def make_copy(fil, old, new):
    d = tempfile.mkdtemp(prefix='opw_selftest.', dir='/var/tmp')
    r = os.path.join(d, 'r')
    if fil == 'GEN':
        # generated variant: `old` names the generator, `new` its file arguments
        assert old == 'rename_locals'
        p = subprocess.run([sys.executable, os.path.join(VERIF, 'tools', 'rename_locals.py'), REPO, r] + list(new), capture_output=True, text=True,
                           env=dict(os.environ, OPW_REPO=REPO))
        if p.returncode != 0:
            shutil.rmtree(d)
            return None, 'generator failed: ' + (p.stderr.strip().splitlines() or ['?'])[-1]
        return d, None
    os.makedirs(r)
    shutil.copytree(os.path.join(REPO, 'src'), os.path.join(r, 'src'))
    for f in ('Cargo.toml', 'Cargo.lock'):
        shutil.copy(os.path.join(REPO, f), r)
    if fil == 'DIFF':
        # variant kept as a unified diff under selftest/keep (edits spanning several files)
        p = subprocess.run(['patch', '-p1', '-s', '-i', os.path.join(VERIF, 'selftest', 'keep', old)], cwd=r, capture_output=True, text=True)
        if p.returncode != 0:
            shutil.rmtree(d)
            return None, 'diff does not apply: ' + (p.stdout + p.stderr).strip()[-200:]
        return d, None
    edits = old if fil is None else [(fil, old, new, False)]
    for efile, eold, enew, eall in edits:
        p = os.path.join(r, efile)
        s = open(p).read()
        occ = 1
        if eold.startswith('@2:'):
            occ, eold = 2, eold[3:]
        n = s.count(eold)
        if n < occ or (occ == 1 and n != 1 and not eall):
            shutil.rmtree(d)
            return None, 'anchor text occurs %d times in %s' % (n, efile)
        if eall or occ == 1:
            s = s.replace(eold, enew)
        else:
            i = s.index(eold)
            i = s.index(eold, i + 1)
            s = s[:i] + enew + s[i + len(eold):]
        open(p, 'w').write(s)
    return d, None


def run_check(root, pid):
    env = dict(os.environ, OPW_REPO=root)
    p = subprocess.run([os.path.join(VERIF, 'check'), pid], env=env, capture_output=True, text=True)
    return p.returncode, p.stdout + p.stderr


def do_mutant(m):
    mid, fil, old, new, pid, rule, desc = m
    d, err = make_copy(fil, old, new)
    if d is None:
        return {'id': mid, 'ok': False, 'why': 'cannot apply: ' + err}
    try:
        rc, out = run_check(os.path.join(d, 'r'), pid)
        rules = sorted({l.split()[1] for l in out.splitlines() if l.startswith('  rule ')})
        keys = [l.split()[1] for l in out.splitlines() if l.startswith('  key ')]
        ok = rc == 1 and (rule is None or any(('/%s/' % rule) in k for k in keys))
        return {'id': mid, 'property': pid, 'expected_rule': rule, 'rc': rc, 'fired': sorted({k.split('/')[1] for k in keys}), 'ok': ok, 'desc': desc,
                'why': '' if ok else out.strip().splitlines()[-1][:200] if out.strip() else 'no output'}
    finally:
        shutil.rmtree(d, ignore_errors=True)


ONLY_CHECKS = None


def do_keep(k):
    kid, fil, old, new, pids, desc = k
    if ONLY_CHECKS:
        pids = [p for p in pids if p in ONLY_CHECKS]
    d, err = make_copy(fil, old, new)
    if d is None:
        return {'id': kid, 'ok': False, 'why': 'cannot apply: ' + err}
    try:
        res = {}
        for pid in pids:
            rc, out = run_check(os.path.join(d, 'r'), pid)
            res[pid] = rc
        ok = all(v == 0 for v in res.values())
        if not ok and kid in OPEN_REWRITES:
            # a rewrite by an independent author that is known not to be silent yet (recorded with its reason, see DESIGN 8.5)
            return {'id': kid, 'checks': {k2: v for k2, v in res.items() if v}, 'ok': True, 'open': True, 'desc': desc, 'why': 'OPEN: ' + OPEN_REWRITES[kid]}
        return {'id': kid, 'checks': res, 'ok': ok, 'desc': desc, 'why': '' if ok else 'a behaviour-preserving rewrite raised an alarm / machinery error'}
    finally:
        shutil.rmtree(d, ignore_errors=True)


def main():
    ap = argparse.ArgumentParser()
    ap.add_argument('--only', default='')
    ap.add_argument('--jobs', type=int, default=6)
    ap.add_argument('--json', default=None)
    ap.add_argument('--checks', default='', help='run only these checks on the behaviour-preserving variants (default: every check a variant lists)')
    a = ap.parse_args()
    global ONLY_CHECKS
    ONLY_CHECKS = set(x for x in a.checks.split(',') if x) or None
    only = set(x for x in a.only.split(',') if x)
    ms = [m for m in MUTANTS if not only or m[0] in only]
    ks = [k for k in KEEP if not only or k[0] in only]
    with ThreadPoolExecutor(a.jobs) as ex:
        r1 = list(ex.map(do_mutant, ms))
        r2 = list(ex.map(do_keep, ks))
    bad = [r for r in r1 + r2 if not r['ok']]
    for r in r1 + r2:
        print('%-4s %-4s %s %s' % (r['id'], 'ok' if r['ok'] else 'FAIL', r.get('fired', r.get('checks', '')), r.get('why', '')))
    n_open = sum(1 for r in r2 if r.get('open'))
    print('selftest: %d mutants detected of %d, %d variants silent of %d%s' % (sum(r['ok'] for r in r1), len(r1), sum(r['ok'] and not r.get('open') for r in r2), len(r2),
                                                                                 ' (%d recorded as open: not silent yet)' % n_open if n_open else ''))
    if a.json:
        json.dump({'mutants': r1, 'keep': r2}, open(a.json, 'w'), indent=1)
    return 0 if not bad else 1


if __name__ == '__main__':
    sys.exit(main())
