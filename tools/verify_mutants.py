#!/usr/bin/env python3
"""Once-only verification that every catalogued mutant / variant compiles and passes the repository's 66 lib tests
(so that they are 'realistic changes that the existing tests do not expose').  Writes selftest/verified.json."""
import json, os, shutil, subprocess, sys
sys.path.insert(0, os.path.join(os.path.dirname(__file__), '..'))
from selftest.mutants import MUTANTS, KEEP
WT = '/tmp/mutwt'
subprocess.run(['git', '-C', '/repo', 'worktree', 'remove', '--force', WT], capture_output=True)
subprocess.run(['git', '-C', '/repo', 'worktree', 'add', '-q', '--detach', WT, 'HEAD'], check=True)
env = dict(os.environ, CARGO_NET_OFFLINE='true', CARGO_TARGET_DIR='/tmp/seed/vtarget')
out = {}
if os.path.exists('/verif/selftest/verified.json'):
    out = json.load(open('/verif/selftest/verified.json')).get('results', {})
head = subprocess.run(['git', '-C', '/repo', 'rev-parse', '--short', 'HEAD'], capture_output=True, text=True).stdout.strip()
items = [(m[0], m[1], m[2], m[3]) for m in MUTANTS] + [(k[0], k[1], k[2], k[3]) for k in KEEP]
only = set(sys.argv[1].split(',')) if len(sys.argv) > 1 else None
for mid, fil, old, new in items:
    if only and mid not in only:
        continue
    subprocess.run(['git', '-C', WT, 'checkout', '-q', '--', '.'], check=True)
    if fil == 'GEN':
        import tempfile
        g = tempfile.mkdtemp(prefix='opw_gen.', dir='/var/tmp')
        subprocess.run([sys.executable, '/verif/tools/rename_locals.py', '/repo', g + '/r'] + list(new), check=True, capture_output=True, env=dict(os.environ, OPW_REPO='/repo'))
        subprocess.run('cp -r %s/r/src/. %s/src/' % (g, WT), shell=True, check=True)
        shutil.rmtree(g)
    if fil == 'DIFF':
        subprocess.run(['patch', '-p1', '-s', '-i', os.path.join('/verif/selftest/keep', old)], cwd=WT, check=True)
    for efile, eold, enew, eall in ([] if fil in ('GEN', 'DIFF') else old if fil is None else [(fil, old, new, False)]):
        p = os.path.join(WT, efile)
        s = open(p).read()
        occ = 1
        if eold.startswith('@2:'):
            occ, eold = 2, eold[3:]
        if eall or occ == 1:
            assert eall or s.count(eold) == 1, mid
            s = s.replace(eold, enew)
        else:
            i = s.index(eold); i = s.index(eold, i + 1)
            s = s[:i] + enew + s[i + len(eold):]
        open(p, 'w').write(s)
    subprocess.run('find src -name "*.rs" -exec touch {} +', shell=True, cwd=WT)
    r = subprocess.run(['cargo', 'test', '--lib', '--offline'], cwd=WT, env=env, capture_output=True, text=True)
    line = [l for l in r.stdout.splitlines() if l.startswith('test result')]
    failed = [l for l in r.stdout.splitlines() if l.endswith('FAILED') and l.startswith('test ')]
    errs = [l for l in r.stderr.splitlines() if l.startswith('error')]
    out[mid] = {'rc': r.returncode, 'result': line[-1] if line else None, 'failed_tests': failed[:5], 'compile_errors': errs[:3]}
    print(mid, r.returncode, line[-1] if line else errs[:1], flush=True)
    json.dump({'base': head, 'results': out}, open('/verif/selftest/verified.json', 'w'), indent=1)
subprocess.run(['git', '-C', '/repo', 'worktree', 'remove', '--force', WT])
