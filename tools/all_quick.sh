#!/bin/bash
# run all twenty quick checks, print one line each
cd /verif
for i in $(seq -w 1 20); do ./check C$i 2>&1 | grep -E "^(OK|VIOLATION|ERROR|KNOWN)" | tr '\n' ' '; echo; done
