"""Interactive helper: `from tools.explore import *; P = load()` loads the facts of $OPW_REPO (default /repo)."""
import os, sys
sys.path.insert(0, os.path.join(os.path.dirname(__file__), '..'))
from sa import facts, mir, util, opw, absint
from sa.mir import strip, show, cname, callee_name


def load(config='full'):
    f, _ = facts.extract(config)
    return mir.Program(f)
