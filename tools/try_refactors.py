#!/usr/bin/env python3
"""Run all twenty quick checks against each behaviour-preserving rewrite delivered by a refactoring sub-agent
(/tmp/seed/<id>/out/refactorN.diff).  usage: try_refactors.py C01 [C02 ...]   prints what is not silent."""
import glob, os, shutil, subprocess, sys, tempfile
from concurrent.futures import ThreadPoolExecutor
VERIF = os.path.dirname(os.path.dirname(os.path.abspath(__file__)))
REPO = '/repo'
ALL = ['C%02d' % i for i in range(1, 21)]


def one(diff):
    d = tempfile.mkdtemp(prefix='opw_refac.', dir='/var/tmp')
    r = os.path.join(d, 'r')
    os.makedirs(r)
    shutil.copytree(os.path.join(REPO, 'src'), os.path.join(r, 'src'))
    for f in ('Cargo.toml', 'Cargo.lock'):
        shutil.copy(os.path.join(REPO, f), r)
    p = subprocess.run(['patch', '-p1', '-s', '-i', diff], cwd=r, capture_output=True, text=True)
    if p.returncode != 0:
        shutil.rmtree(d)
        return diff, {'apply': (p.stdout + p.stderr)[-200:]}
    bad = {}

    def chk(pid):
        q = subprocess.run([os.path.join(VERIF, 'check'), pid], env=dict(os.environ, OPW_REPO=r), capture_output=True, text=True)
        if q.returncode != 0:
            keys = [l.strip() for l in q.stdout.splitlines() if l.strip().startswith('key ') or l.startswith('ERROR')]
            bad[pid] = (q.returncode, keys[:4])
    # the first check extracts the facts, the others reuse the cache
    chk(ALL[0])
    with ThreadPoolExecutor(6) as ex:
        list(ex.map(chk, ALL[1:]))
    shutil.rmtree(d)
    return diff, bad


for pid in sys.argv[1:]:
    for diff in sorted(glob.glob('/tmp/seed/%s/out/refactor*.diff' % pid)):
        diff, bad = one(diff)
        print(pid, os.path.basename(diff), 'SILENT' if not bad else bad, flush=True)
