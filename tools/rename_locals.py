#!/usr/bin/env python3
"""Blanket rename of parameters and local variables (a behaviour-preserving rewrite used to test that no rule depends on
the name of a local).  For every non-closure function body of the given source files, every named local of the body and of
its closures is renamed to <name>_r inside the function's source text (brace-matched from its `fn`).  Field accesses,
method names and struct-literal field names are left alone; shorthand field initialisers `S { x }` become `S { x: x_r }`.
usage: rename_locals.py <src-root> <out-root> file.rs [file.rs ...]   (reads facts of $OPW_REPO / <src-root>)"""
import os, re, shutil, sys
sys.path.insert(0, os.path.join(os.path.dirname(__file__), '..'))
os.environ.setdefault('OPW_REPO', sys.argv[1])
from sa import facts, mir

KEYWORDS = {'self', 'Self', 'iter', '_', 'e', 'super', 'crate'}


def enclosing_open(text, pos):
    """offset of the innermost unmatched opening bracket before pos, or -1"""
    depth = 0
    k = pos - 1
    while k >= 0:
        c = text[k]
        if c in ')]}':
            depth += 1
        elif c in '([{':
            if depth == 0:
                return k
            depth -= 1
        k -= 1
    return -1


def shorthand(text, n, new):
    """`Type { n, .. }` (shorthand field initialiser) -> `Type { n: new, .. }`; call arguments and array elements are left alone"""
    out = []
    last = 0
    for m in re.finditer(r'(?<![\w\.:])%s(?=\s*[,}])' % re.escape(n), text):
        before = text[:m.start()].rstrip()
        if not before or before[-1] not in '{,':
            continue
        o = enclosing_open(text, m.start())
        if o < 0 or text[o] != '{':
            continue
        head = text[:o].rstrip()
        mm = re.search(r'([A-Za-z_][A-Za-z0-9_:]*)$', head)
        if not mm or not mm.group(1).split('::')[-1][:1].isupper():
            continue
        out.append(text[last:m.start()] + '%s: %s' % (n, new))
        last = m.end()
    out.append(text[last:])
    return ''.join(out)


def code_mask(src):
    """same-length string where string/char literals and comments are blanked (so brackets inside them do not count)"""
    out = list(src)
    i, n = 0, len(src)
    while i < n:
        c = src[i]
        if src.startswith('//', i):
            j = src.find('\n', i)
            j = n if j < 0 else j
            for k in range(i, j):
                out[k] = ' '
            i = j
        elif src.startswith('/*', i):
            j = src.find('*/', i + 2)
            j = n if j < 0 else j + 2
            for k in range(i, j):
                if out[k] != '\n':
                    out[k] = ' '
            i = j
        elif c == 'r' and re.match(r'r#*"', src[i:i + 6]) and (i == 0 or not (src[i - 1].isalnum() or src[i - 1] == '_')):
            m = re.match(r'r(#*)"', src[i:])
            close = '"' + m.group(1)
            j = src.find(close, i + len(m.group(0)))
            j = n if j < 0 else j + len(close)
            for k in range(i, j):
                if out[k] != '\n':
                    out[k] = ' '
            i = j
        elif c == '"':
            j = i + 1
            while j < n and src[j] != '"':
                j += 2 if src[j] == '\\' else 1
            for k in range(i, min(j + 1, n)):
                if out[k] != '\n':
                    out[k] = ' '
            i = j + 1
        elif c == "'" and re.match(r"'(\\.|[^\\'])'", src[i:i + 4]):
            m = re.match(r"'(\\.|[^\\'])'", src[i:i + 4])
            for k in range(i, i + len(m.group(0))):
                out[k] = ' '
            i += len(m.group(0))
        else:
            i += 1
    return ''.join(out)


def fn_extent(src, mask, line):
    """(start, end) offsets of the function whose `fn` is on/after 1-based line"""
    lines = src.split('\n')
    off = sum(len(l) + 1 for l in lines[:line - 1])
    i = mask.index('fn ', off)
    j = mask.index('{', i)
    depth = 0
    k = j
    while True:
        c = mask[k]
        if c == '{':
            depth += 1
        elif c == '}':
            depth -= 1
            if depth == 0:
                return i, k + 1
        k += 1


def main():
    root, out = sys.argv[1], sys.argv[2]
    files = sys.argv[3:]
    f, _ = facts.extract('full', root)
    prog = mir.Program(f)
    if os.path.exists(out):
        shutil.rmtree(out)
    os.makedirs(out)
    shutil.copytree(os.path.join(root, 'src'), os.path.join(out, 'src'))
    for x in ('Cargo.toml', 'Cargo.lock'):
        shutil.copy(os.path.join(root, x), out)
    for rel in files:
        p = os.path.join(out, rel)
        src = open(p).read()
        fn_names = set(re.findall(r'\bfn\s+([a-z_][a-z0-9_]*)', src))
        bodies = [b for b in prog.bodies.values() if b.raw['span']['file'] == rel and b.kind != 'Closure' and not b.raw['span'].get('exp')]
        # process from the bottom so offsets stay valid
        mask = code_mask(src)
        todo = []
        for b in bodies:
            names = set(b.names.values())
            for c in prog.bodies.values():
                if c.path.startswith(b.path + '::'):
                    names |= set(c.names.values())
            names = {n for n in names if n and re.match(r'^[a-z_][a-z0-9_]*$', n) and n not in KEYWORDS and not n.startswith('_') and n not in fn_names}
            try:
                s0, s1 = fn_extent(src, mask, b.raw['span']['line'])
            except ValueError:
                continue
            if '#[test]' in src[max(0, s0 - 200):s0] or '\nmod tests' in src[:s0]:
                continue
            todo.append((s0, s1, names, b.path))
        # outermost functions only (a nested fn is renamed together with its parent)
        todo = [t for t in todo if not any(o is not t and o[0] <= t[0] and t[1] <= o[1] and (o[0], o[1]) != (t[0], t[1]) for o in todo)]
        todo.sort(reverse=True)
        for s0, s1, names, path in todo:
            text = src[s0:s1]
            for n in sorted(names, key=len, reverse=True):
                new = n + '_r'
                text = shorthand(text, n, new)
                # ordinary occurrences: not a field/method access (.n), not a path segment (::n / n::), not a named field `n:` in a literal
                tmask = code_mask(text)

                def repl(m, tmask=tmask, text=text, new=new):
                    if tmask[m.start()] != ' ' or text[m.start()] == ' ':
                        return new                      # code position
                    # inside a string literal: only inline format captures `{name}` / `{name:?}`
                    if m.start() > 0 and text[m.start() - 1] == '{' and text[m.end():m.end() + 1] in ('}', ':'):
                        return new
                    return m.group(0)
                text = re.sub(r'(?<![\w:])(?<!(?<!\.)\.)%s(?![\w])(?!\s*::)(?!\s*:\s[^:=])' % re.escape(n), repl, text)
                # parameter / let declarations `n: Type` were protected by the last lookahead; rename them explicitly
                # (parameters only in the signature, i.e. before the body's opening brace)
                cut = code_mask(text).index('{')
                sig, body_t = text[:cut], text[cut:]
                sig = re.sub(r'(?<=[(,]\s)((?:mut\s+)?)%s(?=:\s)' % re.escape(n), r'\1' + new, sig)
                sig = re.sub(r'(?<=\n)(\s*(?:mut\s+)?)%s(?=:\s)' % re.escape(n), r'\1' + new, sig)
                sig = re.sub(r'(?<=\()((?:mut\s+)?)%s(?=:\s)' % re.escape(n), r'\1' + new, sig)
                body_t = re.sub(r'(let\s+(?:mut\s+)?)%s(?=:\s)' % re.escape(n), r'\1' + new, body_t)
                body_t = re.sub(r'(\|\s*(?:mut\s+)?)%s(?=:\s)' % re.escape(n), r'\1' + new, body_t)
                body_t = re.sub(r'(\bfn\s+\w+\s*\((?:[^)]*?[,(]\s*)?(?:mut\s+)?)%s(?=:\s)' % re.escape(n), r'\1' + new, body_t)
                text = sig + body_t
            src = src[:s0] + text + src[s1:]
        open(p, 'w').write(src)
        print('renamed in', rel, len(todo), 'functions')


if __name__ == '__main__':
    main()
