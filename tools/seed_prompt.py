#!/usr/bin/env python3
"""Print the prompt handed to a seeding sub-agent for one property (only the property text + its scratch worktree)."""
import json, sys
pid = sys.argv[1]
clause = sys.argv[2] if len(sys.argv) > 2 else None
rec = None
for l in open('/verif/properties.jsonl'):
    p = json.loads(l)
    if p['id'] == pid:
        rec = p
text = json.dumps({k: rec[k] for k in ('id', 'title', 'statement', 'quantifier', 'why_tests_cant', 'anchors')}, indent=1)
clause_text = ("\nTarget in particular this part of the property: " + clause) if clause else ""
print(f"""You are helping to evaluate a verification tool for the Rust crate rs-opw-kinematics (analytical inverse/forward kinematics for 6-axis OPW robots, with constraints, tool/base frames, Jacobian, collisions and path planning).

Your own scratch git worktree of the crate is at /tmp/seed/{pid}/wt (work ONLY there and in /tmp/seed/{pid}/out; never touch /repo, never read or touch /verif, and do not look at other directories under /tmp/seed).

Here is one semantic property of the crate that should always hold:

{text}

TASK: craft ONE realistic change (a plausible bug a developer could introduce: a refactoring slip, wrong index, dropped check, swapped operands, off-by-one, wrong delegate, polarity flip, lost call ...) to the crate's non-test source under src/ that BREAKS this property while
  (a) the crate still compiles,
  (b) the existing test suite still passes unchanged (do not edit, delete or add to existing tests or test data), and
  (c) the breakage needs something specific to manifest - an unusual input, a particular parameter combination (e.g. non-zero offsets, b != 0, negative sign corrections, wrap-around limits, 5-DOF robot, a wrapper stack), a multi-step sequence of operations, or two cooperating sites that each look fine alone - NOT something that ordinary use or the existing tests would expose at once.
Prefer a subtle semantic change over a crude one; keep the diff small (a few lines). Do not add comments that reveal the bug.{clause_text}

Build/test recipe (offline sandbox; always use these env vars; your own warm target dir makes builds take about 1-2 minutes; after switching the source between patched/unpatched run `touch src/*.rs src/*/*.rs` so cargo rebuilds):
  cd /tmp/seed/{pid}/wt
  CARGO_NET_OFFLINE=true CARGO_TARGET_DIR=/tmp/seed/{pid}/target cargo test --lib --offline            # the existing 66 tests - must still pass with your change
Write a demonstration as an integration test file /tmp/seed/{pid}/wt/tests/seed_demo.rs (the crate is `rs_opw_kinematics`; nalgebra 0.33, parry3d, rand are available as dependencies of the crate; no new crates can be fetched) and run it with
  CARGO_NET_OFFLINE=true CARGO_TARGET_DIR=/tmp/seed/{pid}/target cargo test --test seed_demo --offline
The demonstration must FAIL with your change applied and PASS on the original source (verify both: use `git stash` / `git diff > patch; git checkout -- src` etc. to switch). If the public API cannot reach the changed code from an integration test you may instead put the demo in a NEW file src/tests/seed_demo.rs plus one `mod seed_demo;` line in src/tests/mod.rs, but then keep those additions out of patch.diff and tell me.

DELIVERABLES in /tmp/seed/{pid}/out/ :
  patch.diff     - `git diff -- src` of the breaking change only (no demo, no tests), applicable with `git apply` to the original tree
  seed_demo.rs   - the demonstration test file
  meta.json      - {{"property": "{pid}", "summary": "<what was changed, 1-2 sentences>", "needs": "<what specific input/sequence/config is needed for it to manifest>", "files": [...], "demo_fails_with_patch": true/false, "demo_passes_without_patch": true/false, "lib_tests_pass_with_patch": true/false, "commands": ["..."]}}
When finished leave the worktree with the patch REVERTED (git checkout -- src) but keep tests/seed_demo.rs in place. Final answer: a short summary of the change, what it needs to manifest, and the verified results of the three runs.""")
