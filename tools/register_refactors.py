#!/usr/bin/env python3
"""Copy the rewrites a refactoring sub-agent delivered (/tmp/seed/<id>/out) into selftest/keep and register them."""
import json, os, shutil, sys
for pid in sys.argv[1:]:
    meta = json.load(open('/tmp/seed/%s/out/meta.json' % pid))
    out = []
    for k, rw in enumerate(meta['rewrites'], 1):
        src = '/tmp/seed/%s/out/%s' % (pid, rw['file'])
        if not os.path.exists(src):
            continue
        name = 'R_%s_%d.diff' % (pid, k)
        shutil.copy(src, '/verif/selftest/keep/' + name)
        out.append(("R%s-%d" % (pid[1:], k), name, (str(rw.get('kind', '')) + ': ' + str(rw.get('summary', '')))[:200].replace("'", '').replace('\n', ' ')))
    shutil.copy('/tmp/seed/%s/out/meta.json' % pid, '/verif/selftest/keep/meta/R_%s.json' % pid)
    s = open('/verif/selftest/mutants.py').read()
    add = "".join("    (%r, 'DIFF', %r, None, ALL, %r),\n" % x for x in out if ("'%s'" % x[0]) not in s)
    s = s.replace("]\nKEEP += KEEP_AGENTS\n", add + "]\nKEEP += KEEP_AGENTS\n")
    open('/verif/selftest/mutants.py', 'w').write(s)
    print(pid, [x[0] for x in out])
