#!/bin/bash
# usage: try_patch.sh <patch.diff> <Cxx> [Cxx...]   -- run checks against a scratch copy of /repo with the patch applied
# (scratch copy lives under /var/tmp, removed afterwards; evidence goes to .cache/scratch-out, never to /verif/evidence)
patch=$(realpath "$1"); shift
base=${OPW_BASE:-/repo}
d=$(mktemp -d /var/tmp/opw_scratch.XXXXXX)
mkdir -p $d/r && cp -r $base/src $base/Cargo.toml $base/Cargo.lock $d/r/ && cd $d/r && git init -q . 2>/dev/null
if ! git apply "$patch" 2>$d/err && ! patch -p1 -s < "$patch" 2>>$d/err; then echo "PATCH DOES NOT APPLY: $(head -3 $d/err)"; rm -rf $d; exit 3; fi
rc=0
for id in "$@"; do OPW_REPO=$d/r /verif/check $id ${TIER:+--tier $TIER}; r=$?; [ $r -gt $rc ] && rc=$r; done
rm -rf $d
exit $rc
