#!/usr/bin/env python3
"""Apply one catalogue entry (Mxx / Kxx) to a scratch copy and run the given checks verbosely.
usage: try_variant.py K31 C18 [C07 ...]"""
import os, shutil, subprocess, sys
sys.path.insert(0, os.path.join(os.path.dirname(__file__), '..'))
from selftest.mutants import MUTANTS, KEEP
from tools.run_selftest import make_copy, VERIF
vid = sys.argv[1]
e = [x for x in MUTANTS + KEEP if x[0] == vid][0]
d, err = make_copy(e[1], e[2], e[3])
if d is None:
    sys.exit(err)
try:
    for pid in sys.argv[2:]:
        p = subprocess.run([os.path.join(VERIF, 'check'), pid], env=dict(os.environ, OPW_REPO=os.path.join(d, 'r')), capture_output=True, text=True)
        print(p.stdout[-6000:], p.stderr[-6000:], 'rc', p.returncode)
finally:
    if os.environ.get('KEEPDIR'):
        print('kept', os.path.join(d, 'r'))
    else:
        shutil.rmtree(d, ignore_errors=True)
