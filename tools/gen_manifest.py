#!/usr/bin/env python3
"""Regenerate MANIFEST.json from the rule modules present in sa/rules (claimed) and NA.json-style reasons for the rest."""
import importlib, json, os, sys
sys.path.insert(0, os.path.join(os.path.dirname(__file__), '..'))
VERIF = os.path.join(os.path.dirname(__file__), '..')
props = [json.loads(l) for l in open(os.path.join(VERIF, 'properties.jsonl'))]
TECH = {
 'C01': 'MIR dominance + value-flow: FK-gate / finiteness must-pass-through on every push; const-eval of tolerances; panic-site census',
 'C02': 'MIR term value numbering with ring normal form (sign/offset symmetry), branch-table closure and template agreement',
 'C03': 'MIR may-provenance of link poses + chain-shape table + sibling term equality (ring normal form)',
 'C04': 'return-path pipeline dominance (normalise, sort, filter) + abstract interpretation of the near-normaliser + comparator term template',
 'C05': 'abstract interpretation (intervals, SCCP) of kinematic_singularity over J5 cells + ring normal form of the discriminator + recovery structure',
 'C06': 'sibling term equality of the 5-/6-DOF solvers, J6 pass-through provenance, dispatch and gate rules over MIR',
 'C07': 'partitioned interval abstract interpretation of the centre/tolerance and circular-distance helpers + structural glue rules',
 'C08': 'return-path must-pass-through (limits filter) over MIR, who-may-remove census, wrapper delegation',
 'C09': 'exhaustive delegation matrix over resolved virtual calls + free-group normal form of transform words',
 'C10': 'abstract interpretation (constant propagation, unrolled constant loops, symbolic tags) of the pair enumeration over model configurations vs. a specification table; structural decision/dispatch/effect rules',
 'C11': 'MIR delegation + guard-edge polarity of the collision filter + constructor provenance',
 'C12': 'collision-taint analysis over MIR (trusted/untrusted IK sources vs. collides()==false edges), provenance of start, field-read census, guard dominance',
 'C13': 'who-may-call + guard-edge dominance over MIR of the RRT, closure term matching, path-assembly rule',
 'C14': 'pair-table extraction by abstract interpretation under skip sets vs. moved-member specification; structural candidate/gate rules',
 'C15': 'MIR term matching of Jacobian column construction (group word, index agreement) and sibling agreement of velocity/torque maps',
 'C16': 'ring normal form identity P(Q(x)) = x between forward pre-map and inverse post-map extracted from MIR; sibling agreement',
 'C17': 'anti-unification of source/target basis terms (handedness), assembly word, guard structure over MIR',
 'C18': 'partitioned interval abstract interpretation of the per-joint sampler with the RNG contract; glue rule',
 'C19': 'writer/reader key-table extraction (decoded fmt::Arguments template vs. Index<&str> chains), lexical-class compatibility, panic census',
 'C20': 'panic-site census with dominating-guard discharge, insertion/duplicate guard polarity, index/arm agreement over MIR, regex-constant table',
}
checks = []
na = []
for p in props:
    pid = p['id']
    path = os.path.join(VERIF, 'sa', 'rules', pid + '.py')
    if os.path.exists(path):
        mod = importlib.import_module('sa.rules.' + pid)
        checks.append({
            'property_id': pid,
            'quick_cmd': './check %s --tier quick' % pid,
            'thorough_cmd': './check %s --tier thorough' % pid,
            'evidence_file': 'evidence/%s.json' % pid,
            'replay_cmd_template': './check %s --explain {path}' % pid,
            'engine': 'opw-static',
            'level_claimed': {'category': 'other',
                              'text': 'Static analysis of the type-checked program (rustc MIR, resolved callees, evaluated constants) of /repo\'s current tree. '
                                      + mod.EXPLANATION + ' It decides these structural clauses for all inputs/paths, not the behaviour as a whole.',
                              'design_ref': 'DESIGN.md section 3 (%s)' % pid},
            'level_note': 'Trusted base: rustc MIR construction and const-eval, the opw-facts driver, the Python engines in /verif/sa, the specification tables. '
                          'Not decided: ' + mod.NOT_DECIDED + '. Assumptions: ' + '; '.join(getattr(mod, 'ASSUMPTIONS', [])),
            'technique': TECH[pid],
        })
    else:
        na.append({'property_id': pid, 'reason': 'check not built yet (rules designed in DESIGN.md section 3); not claimed until its rule module exists'})
m = {
 'version': 1,
 'setup_cmd': './setup.sh',
 'hooks': {'guard': 'rs_opw_kinematics_verif', 'enable': 'none needed: static analysis reads the unmodified sources; no source file uses the guard',
           'baseline_off_cmd': 'cd /repo && cargo test --workspace --no-fail-fast --offline', 'source_commits': [], 'add_only': True},
 'engines': [{'name': 'opw-static', 'path': 'sa/ (Python engines) + driver/ (rustc_private fact extractor)', 'serves_properties': [c['property_id'] for c in checks],
              'kind_free_text': 'custom static analysis over rustc MIR facts: CFG/dominators/guards, value-flow terms, ring and free-group normal forms, '
                                'interval abstract interpretation with SCCP, panic-site census, table extraction'}],
 'checks': checks,
 'notes': 'Exit codes: 0 holds (KNOWN-FINDING lines allowed), 1 VIOLATION, 2 machinery error (never a silent pass). Genuine defects repaired in /repo as fix: commits are '
          'listed in known_findings.json (fixed); the open finding O1 (C08) is reported as KNOWN-FINDING. See DESIGN.md.',
 'not_applicable': na,
}
json.dump(m, open(os.path.join(VERIF, 'MANIFEST.json'), 'w'), indent=1)
print(len(checks), 'claimed;', len(na), 'not yet claimed')
