#!/bin/bash
# usage: verify_seed.sh <id> [outdir-name]   -- confirms a sub-agent's seeded change in its scratch worktree:
#   demo passes on original, lib tests pass with patch, demo fails with patch.  Writes /tmp/seed/<id>/verify.json
id=$1
wt=/tmp/seed/$id/wt; out=/tmp/seed/$id/out; log=/tmp/seed/$id/verify.log
export CARGO_NET_OFFLINE=true CARGO_TARGET_DIR=/tmp/seed/vtarget; [ -d /tmp/seed/$id/target ] && export CARGO_TARGET_DIR=/tmp/seed/$id/target
: > $log
cd $wt || exit 2
git checkout -q -- src
cp $out/seed_demo.rs tests/seed_demo.rs 2>/dev/null
t() { find src tests -name '*.rs' -exec touch {} +; }
t; cargo test --test seed_demo --offline >>$log 2>&1; orig=$?
echo "== orig demo rc=$orig" >>$log
git apply $out/patch.diff >>$log 2>&1; ap=$?
t; cargo test --lib --offline >>$log 2>&1; lib=$?
echo "== patched lib rc=$lib" >>$log
t; cargo test --test seed_demo --offline >>$log 2>&1; pat=$?
echo "== patched demo rc=$pat" >>$log
git checkout -q -- src
ok=false; [ $orig = 0 ] && [ $ap = 0 ] && [ $lib = 0 ] && [ $pat != 0 ] && ok=true
echo "{\"id\":\"$id\",\"demo_on_original_rc\":$orig,\"patch_applies_rc\":$ap,\"lib_tests_with_patch_rc\":$lib,\"demo_with_patch_rc\":$pat,\"confirmed\":$ok}" > /tmp/seed/$id/verify.json
cat /tmp/seed/$id/verify.json
