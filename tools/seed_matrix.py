#!/usr/bin/env python3
"""For every seeded change: apply it to a scratch copy of /repo, run the property's check (and any extra checks given in
EXTRA), record which rules fired in seeded/<name>/meta.json (detected_by) and print the matrix."""
import json, os, re, shutil, subprocess, sys, tempfile
VERIF = os.path.abspath(os.path.join(os.path.dirname(__file__), '..'))
EXTRA = {'C08': ['C07']}
rows = []
for name in sorted(os.listdir(os.path.join(VERIF, 'seeded'))):
    d = os.path.join(VERIF, 'seeded', name)
    meta = json.load(open(os.path.join(d, 'meta.json')))
    pid = meta['property']
    tmp = tempfile.mkdtemp(prefix='opw_seedmx.', dir='/var/tmp')
    r = os.path.join(tmp, 'r')
    os.makedirs(r)
    shutil.copytree('/repo/src', os.path.join(r, 'src'))
    for f in ('Cargo.toml', 'Cargo.lock'):
        shutil.copy(os.path.join('/repo', f), r)
    subprocess.run(['git', 'init', '-q', '.'], cwd=r)
    ap = subprocess.run(['git', 'apply', os.path.join(d, 'patch.diff')], cwd=r, capture_output=True, text=True)
    det = {}
    if ap.returncode != 0:
        det = {'error': 'patch does not apply to the current tree: ' + ap.stderr.strip()[:200]}
    else:
        for c in [pid] + EXTRA.get(pid, []):
            p = subprocess.run([os.path.join(VERIF, 'check'), c], env=dict(os.environ, OPW_REPO=r), capture_output=True, text=True)
            keys = [l.split()[1] for l in p.stdout.splitlines() if l.startswith('  key ')]
            det[c] = {'exit': p.returncode, 'rules': sorted({k.split('/')[1] for k in keys}), 'first_keys': keys[:3]}
    shutil.rmtree(tmp, ignore_errors=True)
    meta['detected_by'] = det
    json.dump(meta, open(os.path.join(d, 'meta.json'), 'w'), indent=1)
    rows.append((name, det))
    print(name, {k: (v['exit'], v['rules']) if isinstance(v, dict) else v for k, v in det.items()}, flush=True)
missed = [n for n, det in rows if not any(isinstance(v, dict) and v.get('exit') == 1 for v in det.values())]
print('missed:', missed)
