#!/usr/bin/env python3
"""Pretty-print the MIR facts of bodies whose path contains the given substring (development aid)."""
import sys, json, glob, os
sys.path.insert(0, os.path.join(os.path.dirname(__file__), '..'))
from sa import facts, mir
f, i = facts.extract('full')
P = mir.Program(f)
def pl(p):
    s = '_%d' % p['local']
    for e in p['proj']:
        k = e['k']
        if k == 'deref': s = '(*%s)' % s
        elif k == 'field': s += '.%s' % e['name']
        elif k == 'index': s += '[_%d]' % e['local']
        elif k == 'cindex': s += '[#%d]' % e['off']
        elif k == 'downcast': s = '(%s as %s)' % (s, e['name'])
        else: s += '?%s' % k
    return s
def op(o):
    if o['k'] in ('copy', 'move'): return pl(o['place'])
    return mir.show(mir.const_term(o))
def rv(r):
    k = r['k']
    if k == 'use': return op(r['op'])
    if k == 'bin': return '%s(%s, %s)' % (r['op'], op(r['a']), op(r['b']))
    if k == 'un': return '%s(%s)' % (r['op'], op(r['a']))
    if k == 'ref': return '&%s%s' % ('mut ' if r['mut'] else '', pl(r['place']))
    if k == 'cast': return '%s as %s' % (op(r['op']), r['ty'])
    if k == 'agg': return '%s{%s}' % (r['kind'].get('adt') or r['kind'].get('closure') or r['kind'].get('other'), ', '.join(op(o) for o in r['ops']))
    if k == 'discr': return 'discr(%s)' % pl(r['place'])
    if k == 'repeat': return '[%s; %s]' % (op(r['op']), r['n'])
    return str(r)[:80]
for p, b in P.bodies.items():
    if sys.argv[1] in p:
        print('====', p, 'args', b.arg_count)
        print('   names', {l: n for l, n in sorted(b.names.items())})
        for i, blk in enumerate(b.blocks):
            if blk['cleanup'] or i not in b.reachable(): continue
            print(' bb%d:' % i)
            for st in blk['stmts']:
                print('    %s = %s   // L%s' % (pl(st['lhs']), rv(st['rv']), st['span']['line']))
            t = blk['term']
            k = t['k']
            if k == 'call':
                print('    %s = %s(%s) -> bb%s   // L%s [%s]' % (pl(t['dest']), mir.cname(mir.callee_name(t)), ', '.join(op(a) for a in t['args']), t['target'], t['span']['line'], t['callee'].get('kind')))
            elif k == 'switch':
                print('    switch %s %s else bb%s' % (op(t['discr']), t['targets'], t['otherwise']))
            elif k == 'assert':
                print('    assert %s==%s (%s) -> bb%s' % (op(t['cond']), t['expected'], t['msg'], t['target']))
            elif k in ('goto', 'drop'):
                print('    %s -> bb%s' % (k, t['target']))
            else:
                print('    ' + k)
