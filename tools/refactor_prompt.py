#!/usr/bin/env python3
"""Print the prompt handed to a sub-agent that writes behaviour-PRESERVING rewrites of the code one property is anchored in
(only the property text + its scratch worktree; the counterpart of tools/seed_prompt.py)."""
import json, sys
pid = sys.argv[1]
rec = None
for l in open('/verif/properties.jsonl'):
    p = json.loads(l)
    if p['id'] == pid:
        rec = p
text = json.dumps({k: rec[k] for k in ('id', 'title', 'statement', 'anchors')}, indent=1)
print(f"""You are helping to evaluate a verification tool for the Rust crate rs-opw-kinematics (analytical inverse/forward kinematics for 6-axis OPW robots, with constraints, tool/base frames, Jacobian, collisions and path planning). The tool must stay SILENT on changes that do not alter behaviour, so we need realistic behaviour-preserving rewrites.

Your own scratch git worktree of the crate is at /tmp/seed/{pid}/wt (work ONLY there and in /tmp/seed/{pid}/out; never touch /repo, never read or touch /verif, and do not look at other directories under /tmp/seed).

Here is one semantic property of the crate; the `anchors` name the code it is about:

{text}

TASK: write FOUR different behaviour-preserving rewrites of the non-test source under src/ that the property is anchored in (and of the helpers that code calls) - the kind of clean-up, modernisation or restructuring a maintainer or a contributor would really make in a pull request. Each rewrite is a separate patch against the ORIGINAL tree (not stacked). Vary the kind of rewrite across the four, e.g.
  - extract a helper function or method / inline a helper / move a computation into a closure or out of one,
  - loops <-> iterator chains (map/filter/fold/any/all/find/zip/enumerate), index loops <-> iterators, while <-> for,
  - if/else <-> match, if-let <-> let-else <-> match, early returns and guard clauses, inverted conditions with swapped branches,
  - temporaries introduced or removed, statements re-ordered where independent, expressions re-associated ONLY where exact in floating point (commuting a + b or a * b is exact; re-associating sums is not),
  - a different but equivalent library call (e.g. sin_cos, hypot is NOT exact; iter().copied(), slices vs Vec refs, map_or, then/then_some, std constants such as TAU for 2.0 * PI),
  - data carried differently (tuple vs small struct, array vs Vec where the length is fixed, Option combinators).
Each rewrite should change 8-60 lines and should touch the logic the property talks about, not just comments or names. The behaviour - every returned value, every error, every panic condition, the order of results - must be EXACTLY the same for all inputs (bit-identical floating point). Do not change public signatures.

For each rewrite k = 1..4:
  (a) the crate compiles without new warnings that indicate a mistake,
  (b) the existing test suite passes unchanged:   cd /tmp/seed/{pid}/wt && CARGO_NET_OFFLINE=true CARGO_TARGET_DIR=/tmp/seed/{pid}/target cargo test --lib --offline     (66 tests; builds take 1-2 minutes; after switching sources run `touch src/*.rs src/*/*.rs`),
  (c) you have re-read the diff and can argue in two or three sentences why behaviour is identical (edge cases: NaN, empty vectors, zero, negative zero, wrap-around, 5-DOF).
If you have time, also write a small differential test (tests/equiv_k.rs is fine, not part of the deliverable) to convince yourself.

DELIVERABLES in /tmp/seed/{pid}/out/ :
  refactor1.diff .. refactor4.diff   - `git diff -- src` of each rewrite alone, applicable with `git apply` to the original tree
  meta.json   - {{"property": "{pid}", "rewrites": [{{"file": "refactor1.diff", "kind": "<kind of rewrite>", "summary": "<what was rewritten>", "why_equivalent": "<argument>", "lib_tests_pass": true/false}}, ...]}}
When finished leave the worktree with src REVERTED (git checkout -- src). Final answer: a short list of the four rewrites.""")
