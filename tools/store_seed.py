#!/usr/bin/env python3
"""store_seed.py <id> <name> : copy a confirmed sub-agent seed from /tmp/seed/<id> into /verif/seeded/<name>/"""
import json, os, shutil, subprocess, sys
sid, name = sys.argv[1], sys.argv[2]
src = '/tmp/seed/%s' % sid
dst = '/verif/seeded/%s' % name
os.makedirs(dst, exist_ok=True)
shutil.copy(src + '/out/patch.diff', dst + '/patch.diff')
shutil.copy(src + '/out/seed_demo.rs', dst + '/seed_demo.rs')
m = json.load(open(src + '/out/meta.json'))
v = json.load(open(src + '/verify.json'))
base = subprocess.run(['git', '-C', src + '/wt', 'rev-parse', '--short', 'HEAD'], capture_output=True, text=True).stdout.strip()
out = {'property': sid, 'breaks': m.get('summary'), 'needs_to_manifest': m.get('needs'), 'files': m.get('files'),
       'origin': 'independent sub-agent given only the property text and a scratch worktree (base %s)' % base,
       'confirmed_by_me': {'how': 'tools/verify_seed.sh in the scratch worktree with a private target dir: demo passes on original, 66 lib tests pass with patch, demo fails with patch', 'result': v},
       'detected_by': None}
json.dump(out, open(dst + '/meta.json', 'w'), indent=1)
print('stored', dst, v['confirmed'])
