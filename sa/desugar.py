"""Compound assignment on library types.  `a *= b` on an f64 is a MIR BinaryOp, but on a nalgebra value it is a call
`MulAssign::mul_assign(&mut a, b)`, which hides the store from every rule that follows values (`poses[5] *= frame` is what
clippy's assign_op_pattern makes of `poses[5] = poses[5] * frame`).  For the operator-assignment traits of foreign types
(std/nalgebra: `a op= b` is `a = a op b` by definition of those impls) the call is rewritten, in the loaded facts, into
the call of the binary operator with the place itself as destination:
        tmp = &mut PLACE; _ = OpAssign::op_assign(move tmp, rhs)      ==>      PLACE = Op::op(copy PLACE, rhs)
Likewise `f64::from(x)` / `x.into()` between primitive numbers (clippy's cast_lossless makes it of `x as f64`) becomes the
cast statement it stands for.  Only the exact temp pattern is rewritten (the reference is created in the same block, used once); anything else is left
as it is and stays opaque."""

OPS = {'MulAssign': ('Mul', 'mul'), 'AddAssign': ('Add', 'add'), 'SubAssign': ('Sub', 'sub'), 'DivAssign': ('Div', 'div')}


def _uses_local(x, loc):
    if isinstance(x, dict):
        if x.get('local') == loc and 'proj' in x:
            return True
        return any(_uses_local(v, loc) for v in x.values() if isinstance(v, (dict, list)))
    if isinstance(x, list):
        return any(_uses_local(v, loc) for v in x)
    return False


INTS = {'i8', 'i16', 'i32', 'i64', 'i128', 'isize', 'u8', 'u16', 'u32', 'u64', 'u128', 'usize'}
FLOATS = {'f32', 'f64'}


def _numeric_conversion(c):
    """(kind, target type) when the callee is the std lossless conversion between two primitive numbers
    (`f64::from(i8)`, `x.into()`): the same value as the `as` cast, which is how the rules and the interpreter know it."""
    path = c.get('path') or ''
    args = (c.get('args') or '').strip('[]').split(', ')
    if c.get('local') or len(args) != 2:
        return None
    if path.endswith('convert::From::from'):
        dst, src = args
    elif path.endswith('convert::Into::into'):
        src, dst = args
    else:
        return None
    if src in INTS and dst in FLOATS:
        return 'IntToFloat', dst
    if src in INTS and dst in INTS:
        return 'IntToInt', dst
    if src in FLOATS and dst in FLOATS:
        return 'FloatToFloat', dst
    return None


def apply(facts):
    n = 0
    for b in facts.get('bodies', []):
        for blk in b.get('blocks', []):
            t = blk.get('term') or {}
            if t.get('k') == 'call' and len(t.get('args', [])) == 1 and t.get('target') is not None:
                nc = _numeric_conversion(t.get('callee') or {})
                if nc:
                    blk['stmts'].append({'lhs': t['dest'], 'rv': {'k': 'cast', 'kind': nc[0], 'op': t['args'][0], 'ty': nc[1]}, 'span': t.get('span')})
                    blk['term'] = {'k': 'goto', 'target': t['target']}
                    n += 1
    for b in facts.get('bodies', []):
        for blk in b.get('blocks', []):
            t = blk.get('term') or {}
            if t.get('k') != 'call':
                continue
            c = t.get('callee') or {}
            tr = (c.get('trait') or '').split('::')[-1]
            if tr not in OPS or c.get('local') or len(t.get('args', [])) != 2:
                continue
            a0 = t['args'][0]
            if a0.get('k') not in ('move', 'copy') or a0['place']['proj']:
                continue
            tmp = a0['place']['local']
            defs = [(i, s) for i, s in enumerate(blk['stmts']) if s['lhs']['local'] == tmp and not s['lhs']['proj']]
            if len(defs) != 1 or defs[0][1]['rv'].get('k') != 'ref' or not defs[0][1]['rv'].get('mut'):
                continue
            di, ds = defs[0]
            place = ds['rv']['place']
            # the temp is used nowhere else in the body, and nothing after its creation redefines a local the place depends on
            others = sum(1 for blk2 in b['blocks'] for s in blk2['stmts'] if s is not ds and _uses_local(s, tmp)) + \
                sum(1 for blk2 in b['blocks'] if blk2 is not blk and _uses_local(blk2.get('term') or {}, tmp))
            if others or _uses_local(t['args'][1], tmp) or _uses_local(t.get('dest') or {}, tmp):
                continue
            deps = {place['local']} | {e['local'] for e in place['proj'] if e.get('k') == 'index'}
            if any(s['lhs']['local'] in deps for s in blk['stmts'][di + 1:]):
                continue
            binop, meth = OPS[tr]
            path = 'std::ops::%s::%s' % (binop, meth)
            t['callee'] = {'path': path, 'args': c.get('args'), 'kind': 'item', 'resolved': (c.get('resolved') or path).replace(tr, binop).replace(meth + '_assign', meth),
                           'local': False, 'trait': 'std::ops::' + binop, 'desugared_from': c.get('resolved') or c.get('path')}
            t['args'] = [{'k': 'copy', 'place': place}, t['args'][1]]
            t['dest'] = place
            del blk['stmts'][di]
            n += 1
    return n
