"""E6: extraction of the collision pair table by abstract interpretation of the pair enumeration over small model
configurations (loop bounds are constants, unknowns are model parameters: presence of tool/base, number of environment
objects, skip set, exemption table).  Meshes and poses are opaque symbolic tags."""
import itertools

from . import absint
from .absint import Iv, Sym, SOME, NONE, Interp, TOP
from .mir import cname

J_TOOL, J_BASE, ENV0 = 100, 101, 1000
NEVER = -1.0


def spec_pairs(tool, base, n_env):
    """The relevant pairs of property C10 as {frozenset-free ordered key (min,max): (operand tags)}"""
    out = {}
    for i in range(6):
        for j in range(i + 2, 6):
            out[(i, j)] = True
    for i in range(6):
        for k in range(n_env):
            out[(i, ENV0 + k)] = True
    if tool:
        for k in range(n_env):
            out[(J_TOOL, ENV0 + k)] = True
        for i in range(4):
            out[(i, J_TOOL)] = True
    if base:
        for i in range(1, 6):
            out[(i, J_BASE)] = True
    if tool and base:
        out[(J_TOOL, J_BASE)] = True
    return out


def operands_of(idx):
    """(shape tag, transform tag) that must accompany reporting index idx"""
    if idx < 6:
        return Sym(('mesh', idx)), Sym(('pose', idx))
    if idx == J_TOOL:
        return Sym('tool_mesh'), Sym(('pose', 5))
    if idx == J_BASE:
        return Sym('base_mesh'), Sym('base_pose')
    return Sym(('env_mesh', idx - ENV0)), Sym(('env_pose', idx - ENV0))


def safety_model(special=None, mode=1, env=0.0, robot=0.0):
    return {'#adt': 'collisions::SafetyDistances', 'to_environment': Iv(env), 'to_robot_default': Iv(robot),
            'special_distances': ('map', tuple(sorted((special or {}).items()))), 'mode': ('enum', mode, ())}


def body_model(tool, base, n_env, own_safety):
    return {'#adt': 'collisions::RobotBody',
            'joint_meshes': tuple(Sym(('mesh', i)) for i in range(6)),
            'tool': SOME(Sym('tool_mesh')) if tool else NONE,
            'base': SOME({'#adt': 'collisions::BaseBody', 'mesh': Sym('base_mesh'), 'base_pose': Sym('base_pose')}) if base else NONE,
            'collision_environment': tuple({'#adt': 'collisions::CollisionBody', 'mesh': Sym(('env_mesh', k)), 'pose': Sym(('env_pose', k))} for k in range(n_env)),
            'safety': own_safety}


def _val(I, st, a):
    while isinstance(a, tuple) and a and a[0] in ('ref', 'refval', 'mref'):
        a = I.deref(a, st)
    return a


def h_contains(I, st, a, t, b):
    s = _val(I, st, a[0])
    x = _val(I, st, a[1])
    if not isinstance(s, frozenset) or not isinstance(x, int):
        raise absint.Unsupported('HashSet::contains on %r, %r' % (s, x))
    return x in s


def h_map_get(I, st, a, t, b):
    m = _val(I, st, a[0])
    k = _val(I, st, a[1])
    if not (isinstance(m, tuple) and m and m[0] == 'map'):
        raise absint.Unsupported('HashMap::get on %r' % (m,))
    k = tuple(_val(I, st, x) for x in k)
    for kk, v in m[1]:
        if kk == k:
            return SOME(('refval', Iv(v), ()))
    return NONE


def h_cmp(op):
    def h(I, st, a, t, b):
        x = _val(I, st, a[0])
        y = _val(I, st, a[1])
        if isinstance(x, Iv) and isinstance(y, Iv):
            r = absint.iv_cmp(op, x, y)
            if r is None:
                raise absint.Undecided('indefinite comparison in pair enumeration')
            return r
        if isinstance(x, int) and isinstance(y, int):
            return {'Lt': x < y, 'Le': x <= y, 'Gt': x > y, 'Ge': x >= y, 'Eq': x == y, 'Ne': x != y}[op]
        if op in ('Eq', 'Ne') and isinstance(x, tuple) and isinstance(y, tuple):
            return (x == y) if op == 'Eq' else (x != y)
        raise absint.Unsupported('compare %r %r' % (x, y))
    return h


def h_vec_new(I, st, a, t, b):
    return ()


def h_push(I, st, a, t, b):
    v = _val(I, st, a[0])
    I._write_ref(st, a[0], tuple(v) + (a[1],))
    return ()


def h_count_tasks(I, st, a, t, b):
    return TOP


def h_process(I, st, a, t, b):
    return ('tasks', a[0])


def h_is_some(I, st, a, t, b):
    v = _val(I, st, a[0])
    return v[1] == 1


def h_collect_set(I, st, a, t, b):
    it = a[0]
    return frozenset(absint._iter_items(it))


HANDLERS = {
    'HashSet::contains': h_contains, 'HashMap::get': h_map_get,
    'PartialOrd::gt': h_cmp('Gt'), 'PartialOrd::lt': h_cmp('Lt'), 'PartialOrd::ge': h_cmp('Ge'), 'PartialOrd::le': h_cmp('Le'),
    'PartialEq::eq': h_cmp('Eq'), 'PartialEq::ne': h_cmp('Ne'),
    'Vec::with_capacity': h_vec_new, 'Vec::new': h_vec_new, 'Vec::push': h_push,
    'RobotBody::count_tasks': h_count_tasks, 'RobotBody::process_collision_tasks': h_process,
    'Option::is_some': h_is_some,
}


_ROLE_CACHE = {}


def role_handlers(prog):
    """The two helpers of the enumeration are modelled, not interpreted; they are found by signature, whatever their names:
    the capacity estimate fn(&RobotBody, &HashSet<usize>) -> usize and the task evaluation fn(Vec<CollisionTask>, ..) -> Vec<(u16, u16)>."""
    key = id(prog)
    if key in _ROLE_CACHE:
        return _ROLE_CACHE[key]
    out = {}
    for p, b in prog.bodies.items():
        if not p.startswith('collisions::') or b.kind == 'Closure':
            continue
        tys = [b.local_ty(i) for i in range(1, b.arg_count + 1)]
        ret = b.local_ty(0)
        if len(tys) == 2 and 'RobotBody' in tys[0] and 'HashSet<usize>' in tys[1] and ret == 'usize':
            out[cname(p)] = h_count_tasks
        if tys and 'Vec<' in tys[0] and 'CollisionTask' in tys[0] and '(u16, u16)' in ret:
            out[cname(p)] = h_process
    _ROLE_CACHE.clear()
    _ROLE_CACHE[key] = out
    return out


class Extraction:
    def __init__(self, tasks):
        self.tasks = tasks      # list of dict(i, j, shape_i, shape_j, transform_i, transform_j)

    def pairs(self):
        return [(min(t['i'], t['j']), max(t['i'], t['j'])) for t in self.tasks]


def extract_table(prog, enum_body, tool, base, n_env, skip=frozenset(), own_safety=None, passed_safety=None, n_params=None):
    """Interpret the enumeration function on a model; returns Extraction."""
    own = own_safety or safety_model()
    passed = passed_safety or own
    body = body_model(tool, base, n_env, own)
    poses = tuple(Sym(('pose', i)) for i in range(6))
    I = Interp(prog, dict(HANDLERS, **role_handlers(prog)), fuel=400000)
    b = prog.bodies[enum_body]
    # bind parameters by type
    args = []
    for p in range(1, b.arg_count + 1):
        ty = b.local_ty(p)
        if 'RobotBody' in ty:
            args.append(('refval', body, ()))
        elif 'Isometry' in ty:
            args.append(('refval', poses, ()))
        elif 'SafetyDistances' in ty:
            args.append(('refval', passed, ()))
        elif 'CheckMode' in ty:
            args.append(('refval', SOME(('enum', 1, ())), ()))
        elif 'HashSet' in ty:
            args.append(('refval', frozenset(skip), ()))
        else:
            raise absint.Unsupported('parameter %d of %s has unexpected type %s' % (p, enum_body, ty))
    outs = I.run(enum_body, args)
    if len(outs) != 1:
        raise absint.Undecided('pair enumeration forked into %d abstract paths' % len(outs))
    r = outs[0].ret
    if not (isinstance(r, tuple) and r and r[0] == 'tasks'):
        raise absint.Unsupported('enumeration does not end in the task evaluation call: %r' % (r,))
    st = {}
    tasks = []
    for tk in r[1]:
        d = {}
        for k in ('i', 'j'):
            d[k] = tk[k]
        for k in ('shape_i', 'shape_j', 'transform_i', 'transform_j'):
            d[k] = _val(I, st, tk[k])
        tasks.append(d)
    return Extraction(tasks)
