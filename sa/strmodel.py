"""A small evaluator of string-valued MIR terms: enough of str / String / regex::Regex to execute the crate's joint-name
simplifier *as written in the analysed tree* on a table of specification tokens (the same idea as the regex token table of
R20.6, one level up: the pipeline of library calls is read from the MIR terms, the library calls themselves are modelled).
Unknown operations raise Unsupported, which the caller turns into a machinery error - never into a pass."""
import re

from .mir import cname, strip


class Unsupported(Exception):
    pass


IDENT = {'Deref::deref', 'ToString::to_string', 'String::as_str', 'Borrow::borrow', 'AsRef::as_ref', 'Cow::into_owned', 'ToOwned::to_owned',
         'String::from', 'From::from', 'Into::into', 'Clone::clone', 'str::to_string', 'str::to_owned', 'String::clone', 'Cow::to_string', 'String::to_string'}


class Eval:
    def __init__(self, prog, fuel=2000):
        self.prog = prog
        self.fuel = fuel

    def call_fn(self, path, args):
        b = self.prog.bodies[path]
        self.fuel -= 1
        if self.fuel < 0:
            raise Unsupported('evaluation does not terminate')
        rvs = b.return_values()
        cands = []
        for t, d, rb in rvs:
            guards = list(b.guard_terms(d[1])) if d else []
            cands.append((len(guards), t, guards))
        cands.sort(key=lambda c: -c[0])
        for n, t, guards in cands:
            ok = True
            for g, k, sw in guards:
                if not self.guard_holds(b, g, k, args):
                    ok = False
                    break
            if ok:
                return self.ev(b, t, args)
        raise Unsupported('no return path of %s applies' % path)

    def guard_holds(self, b, g, k, args):
        g = strip(g)
        if isinstance(g, tuple) and g[0] == 'discr':
            v = self.ev(b, g[1], args)
            variant = 0 if v is None else 1
            return variant == (k if isinstance(k, int) else (0 if k == 'otherwise' else k))
        v = self.ev(b, g, args)
        if isinstance(v, bool):
            return v == (k != 0)
        raise Unsupported('guard %r' % (g[:2],))

    def ev(self, b, t, args):
        t = strip(t)
        if not isinstance(t, tuple):
            raise Unsupported('term %r' % (t,))
        k = t[0]
        if k in ('param', 'mparam'):
            return args[t[1] - 1]
        if k == 'const':
            if t[1] == 'str':
                return t[2]
            if isinstance(t[2], (int, float, bool)):
                return t[2]
            raise Unsupported('constant %r' % (t[1],))
        if k == 'cast':
            return self.ev(b, t[1], args)
        if k == 'as':               # (x as Some) : the payload is read with .0 below
            return self.ev(b, t[1], args)
        if k == 'fld' and t[2] == '0':
            return self.ev(b, t[1], args)
        if k == 'var' and t[1] == b.path:
            whole = [d for d in b.defs().get(t[2], []) if d[4]]
            if len(whole) == 1:
                return self.ev(b, b._def_term(whole[0]), args)
            raise Unsupported('variable with several definitions')
        if k == 'agg' and str(t[1]).endswith('RangeFrom'):
            return ('from', self.ev(b, t[2], args))
        if k == 'agg' and 'Some' in str(t[1]):
            return self.ev(b, t[2], args)
        if k == 'call':
            n = cname(t[1])
            if t[1] in self.prog.bodies and self.prog.bodies[t[1]].kind != 'Closure':
                return self.call_fn(t[1], [self.ev(b, a, args) for a in t[2:]])
            a = [self.ev(b, x, args) for x in t[2:]]
            if n in IDENT or n.split('::')[-1] in ('deref', 'to_string', 'as_str', 'into_owned', 'to_owned', 'clone', 'borrow', 'as_ref'):
                return a[0]
            if n in ('Result::unwrap', 'Result::expect', 'Option::unwrap', 'Option::expect'):
                if a[0] is None:
                    raise Unsupported('unwrap of None')
                return a[0]
            if n == 'Regex::new':
                try:
                    return re.compile(a[0])
                except re.error as e:
                    raise Unsupported('regex %r: %s' % (a[0], e))
            if n == 'Regex::replace_all':
                return a[0].sub(a[2].replace('\\\\', '\\\\\\\\'), a[1])
            if n == 'Regex::replace':
                return a[0].sub(a[2], a[1], count=1)
            if n == 'Regex::captures':
                return a[0].search(a[1])
            if n == 'Regex::is_match':
                return a[0].search(a[1]) is not None
            if n == 'Captures::get':
                try:
                    s = a[0].group(a[1])
                except IndexError:
                    return None
                return s
            if n == 'Match::as_str':
                return a[0]
            if n == 'str::replace':
                return a[0].replace(a[1], a[2])
            if n == 'str::replacen':
                return a[0].replace(a[1], a[2], a[3])
            if n == 'str::to_lowercase':
                return a[0].lower()
            if n == 'str::to_uppercase':
                return a[0].upper()
            if n == 'str::trim':
                return a[0].strip()
            if n == 'str::find':
                i = a[0].find(a[1])
                return None if i < 0 else i
            if n == 'str::rfind':
                i = a[0].rfind(a[1])
                return None if i < 0 else i
            if n in ('str::starts_with', 'str::ends_with', 'str::contains'):
                return {'str::starts_with': a[0].startswith, 'str::ends_with': a[0].endswith, 'str::contains': a[0].__contains__}[n](a[1])
            if n in ('str::strip_prefix', 'str::strip_suffix'):
                if n.endswith('prefix'):
                    return a[0][len(a[1]):] if a[0].startswith(a[1]) else None
                return a[0][:-len(a[1])] if a[1] and a[0].endswith(a[1]) else (a[0] if not a[1] else None)
            if n == 'Index::index' and isinstance(a[1], tuple) and a[1][0] == 'from':
                return a[0][a[1][1]:]
            raise Unsupported('call %s' % n)
        raise Unsupported('term kind %s' % k)
