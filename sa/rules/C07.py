"""C07 - joint limits mean arc membership modulo 2*pi."""
import math

from .. import absint, mir, util, opw
from ..absint import Iv, Interp, Cmp
from ..facts import MachineryError
from ..mir import cname, strip, callee_name, show

EXPLANATION = ('Decided compositionally.  (R07.E) the two numeric helpers of Constraints (centre/tolerance computation and the circular-distance '
               'test, found by role) are abstractly interpreted over a partition of (from, to, angle) into interval cells: a cell that lies wholly '
               'on the arc from `from` in positive direction to `to` (modulo 2*pi) must be accepted, a cell wholly off the arc must be rejected - '
               'each verdict is a for-all statement over the cell; cells within a margin of an arc end or of from == to (mod 2*pi) are excluded '
               'and counted.  (R07.2a) from == to (infinite tolerance) accepts every angle.  (R07.2c) the final comparison includes the '
               'boundary (<=).  (R07.3) glue: compliant() is the conjunction over all six joints of the test with centers[i]/tolerances[i] of '
               'the same i, filter() keeps exactly the compliant elements in order, all three constructors store the computed centres/tolerances '
               'for the same from/to, from_degrees maps ranges[i].start()/end() through to_radians into slot i.')
NOT_DECIDED = 'behaviour inside the excluded margin around the arc ends (floating-point rounding at the exact boundary); limits beyond +-4*pi'
ASSUMPTIONS = ['IEEE-754 semantics of + - * / % abs on f64 (outward-rounded interval transfer functions)']
TWO_PI = 2 * math.pi
MARGIN = 1e-6


def roles(ctx):
    prog = ctx.prog
    cc = ib = None
    for b in prog.bodies.values():
        if b.raw.get('impl_self') != 'constraints::Constraints' or b.raw.get('impl_trait'):
            continue
        tys = [b.local_ty(i) for i in range(0, b.arg_count + 1)]
        if tys == ['([f64; 6], [f64; 6])', '[f64; 6]', '[f64; 6]']:
            cc = b
        if tys == ['bool', 'f64', 'f64', 'f64']:
            ib = b
    ctx.require(cc is not None, 'centre/tolerance helper of Constraints: fn([f64;6],[f64;6]) -> ([f64;6],[f64;6])')
    ctx.require(ib is not None, 'circular-distance test of Constraints: fn(f64,f64,f64) -> bool')
    ctx.fn(cc)
    ctx.fn(ib)
    return cc, ib


def mod_range(lo, hi):
    """range of x mod 2pi for x in [lo,hi] if it does not wrap, else None"""
    k = math.floor(lo / TWO_PI)
    if hi < (k + 1) * TWO_PI:
        return lo - k * TWO_PI, hi - k * TWO_PI
    return None


def classify(F, T, A):
    """-> 'in' | 'out' | None (excluded) for cells F, T, A given as (lo, hi)"""
    f0, f1 = F
    t0, t1 = T
    a0, a1 = A
    if f1 < t0:                       # definitely from < to
        s0, s1 = t0 - f1, t1 - f0
    elif f0 > t1:                     # definitely from > to: wrapped span
        r = mod_range(t0 - f1, t1 - f0)
        if r is None or r[0] < MARGIN:
            return None
        s0, s1 = r
    else:
        return None
    if s0 >= TWO_PI + MARGIN:
        return 'in'
    if s1 >= TWO_PI - MARGIN and s0 < TWO_PI + MARGIN:
        return None
    d = mod_range(a0 - f1, a1 - f0)
    if d is None:
        return None
    d0, d1 = d
    if d0 < MARGIN:
        return None
    if d1 <= s0 - MARGIN:
        return 'in'
    if d0 >= s1 + MARGIN:
        return 'out'
    return None


def interp_centers(prog, cc, Fs, Ts):
    I = Interp(prog, {}, fuel=400000, max_paths=20000)
    outs = I.run(cc.path, [tuple(Iv(*f) for f in Fs), tuple(Iv(*t) for t in Ts)])
    return outs


def interp_inside(prog, ib, a, c, t):
    I = Interp(prog, {}, fuel=20000)
    outs = I.run(ib.path, [a, c, t])
    res = set()
    for o in outs:
        r = o.ret
        if isinstance(r, Cmp):
            r = r.res
        res.add(r)
    return res


def grid(lo, hi, step):
    n = int(round((hi - lo) / step))
    return [(lo + i * step, lo + (i + 1) * step) for i in range(n)]


def run(ctx, thorough=False):
    prog = ctx.prog
    ctx.rule('R07.E', 'cells wholly on the arc [from, to] (mod 2*pi, positive direction) are accepted, cells wholly off it are rejected (abstract interpretation of the centre/tolerance and circular-distance helpers)')
    ctx.rule('R07.2a', 'from == to (tolerance +inf) accepts every angle')
    ctx.rule('R07.2c', 'the final comparison of the circular distance with the tolerance includes the boundary (<=)')
    ctx.rule('R07.3', 'glue: compliant = all_i inside(angle_i, centers[i], tolerances[i]); filter keeps compliant elements in order; constructors store compute_centers(from,to)')
    cc, ib = roles(ctx)
    ctx.rule('R07.4', 'constants of the centre computation and of the membership test that stand for pi or 2*pi are exact')
    util.pi_constants(ctx, 'R07.4', [cc, ib])
    deg = math.pi / 180
    if ctx.tier == 'thorough':
        ft = grid(-4 * math.pi, 4 * math.pi, 15 * deg)
        an = grid(-4 * math.pi, 4 * math.pi, 7.5 * deg)
    else:
        ft = grid(-2 * math.pi, 2 * math.pi, 30 * deg) + [(-4 * math.pi + 0.01, -4 * math.pi + 0.3), (3.6 * math.pi, 3.7 * math.pi)]
        an = grid(-4 * math.pi, 4 * math.pi, 20 * deg)
    # shrink cells a little so that neighbouring cells do not share end points exactly
    cells = [(F, T) for F in ft for T in ft]
    n_in = n_out = n_excl = n_und = 0
    viol = 0
    # pack six (from,to) cells per interpretation of the centre helper
    for base in range(0, len(cells), 6):
        pack = cells[base:base + 6]
        while len(pack) < 6:
            pack.append(((0.0, 0.1), (1.0, 1.1)))
        try:
            outs = interp_centers(prog, cc, [p[0] for p in pack], [p[1] for p in pack])
        except absint.Unsupported as e:
            raise MachineryError('centre helper could not be interpreted: %s' % e)
        except absint.Undecided as e:
            n_und += len(pack) * len(an)
            continue
        for slot, (F, T) in enumerate(pack[:min(6, len(cells) - base)]):
            variants = {(o.ret[0][slot], o.ret[1][slot]) for o in outs}
            for A in an:
                want = classify(F, T, A)
                if want is None:
                    n_excl += 1
                    continue
                res = set()
                try:
                    for (c, t) in variants:
                        res |= interp_inside(prog, ib, Iv(*A), c, t)
                except absint.Undecided:
                    res = {None}
                except absint.Unsupported as e:
                    raise MachineryError('circular-distance test could not be interpreted: %s' % e)
                key = 'from[%.4f,%.4f]/to[%.4f,%.4f]/angle[%.4f,%.4f]' % (F + T + A)
                if None in res or len(res) > 1:
                    n_und += 1
                    continue
                got = res.pop()
                if got == (want == 'in'):
                    if want == 'in':
                        n_in += 1
                    else:
                        n_out += 1
                    if (n_in + n_out) % 997 == 1:
                        ctx.ok('R07.E', key, ib.where(0), '%s -> %s' % (want, got))
                else:
                    viol += 1
                    if viol <= 20:
                        ctx.violation('R07.E', key, ib.where(0), ib.path,
                                      'every angle of the cell is %s the arc, yet the membership test answers %s' % ('on' if want == 'in' else 'off', got),
                                      found=str(got), expected=str(want == 'in'))
    ctx.evaluations += n_in + n_out
    ctx.extra['cells'] = {'accepted_as_required': n_in, 'rejected_as_required': n_out, 'excluded_margin_or_ambiguous': n_excl, 'undecided': n_und, 'violating': viol}
    total = n_in + n_out + n_und
    ctx.require(viol > 0 or (total > 0 and (n_in + n_out) >= 0.7 * total), 'E4 precision: %d of %d classified cells decided (floor 70%%)' % (n_in + n_out, total))
    if viol == 0:
        ctx.floor('R07.E decided cells', n_in + n_out, 3000)
    for i in range(0, 40):
        ctx.nontrivial.add(('R07.E', 'cellgroup%d' % i))

    # ---- R07.2a unconstrained joints: from == to
    for x in (0.0, 1.0, -3.0, 7.0):
        try:
            outs = interp_centers(prog, cc, [(x, x)] * 6, [(x, x)] * 6)
            tol = {o.ret[1][0] for o in outs}
            cen = {o.ret[0][0] for o in outs}
        except (absint.Undecided, absint.Unsupported) as e:
            raise MachineryError('centre helper on from == to: %s' % e)
        res = set()
        for t in tol:
            for c in cen:
                try:
                    res |= interp_inside(prog, ib, Iv(-13.0, 13.0), c, t)
                except absint.Undecided:
                    res.add(None)
        ctx.check(res == {True}, 'R07.2a', 'from==to==%g' % x, ib.where(0), ib.path,
                  'from == to means the joint is unconstrained, but the membership test answers %s for every angle in [-13, 13] (tolerance %s)' % (sorted(map(str, res)), sorted(map(str, tol))),
                  found=sorted(map(str, res)), expected='[True]', detail='tolerance %s -> accepted' % sorted(map(str, tol)))

    # ---- R07.2b only from == to is unconstrained: a narrow window (limits a hair apart) still rejects the opposite angle
    ctx.rule('R07.2b', 'limits that differ, however little, bound the joint: a window of width 1e-9 .. 1e-2 rad rejects the angle opposite to it')
    for x in (0.0, 0.5235987755982988, -2.0):
        for dlt in (1e-9, 1e-6, 1e-4, 1e-3, 1e-2):
            f, t_ = x, x + dlt
            try:
                outs = interp_centers(prog, cc, [(f, f)] * 6, [(t_, t_)] * 6)
                variants = {(o.ret[0][0], o.ret[1][0]) for o in outs}
                res = set()
                for c, tl in variants:
                    res |= interp_inside(prog, ib, Iv(x + 2.0, x + 2.0), c, tl)
            except absint.Undecided:
                res = {None}
            except absint.Unsupported as e:
                raise MachineryError('centre helper on a narrow window: %s' % e)
            ctx.check(res == {False}, 'R07.2b', 'window(%g,+%g)' % (x, dlt), cc.where(0), cc.path,
                      'limits %r .. %r differ, so the joint is bounded to that window, but an angle 2 rad away is answered %s (only from == to means unconstrained)' % (
                          f, t_, sorted(map(str, res))), found=sorted(map(str, res)), expected='[False]', detail='rejected')

    # ---- R07.2c boundary inclusion
    rets = [(t, d) for t, d, rb in ib.return_values()]
    les = [strip(t) for t, d in rets if isinstance(strip(t), tuple) and strip(t)[0] == 'bin']
    ok = len(les) == 1 and les[0][1] == 'Le' and util.is_param(les[0][3], 3)
    ctx.check(ok, 'R07.2c', 'boundary', ib.where(0), ib.path, 'the circular distance must be compared `<= tolerance` (boundaries included)',
              found=[show(x, maxdepth=3) for x in les])

    _glue(ctx, prog, cc, ib)
    if ctx.pid == 'C07':
        # where limits come from: the URDF loader's "no limit" encoding (from = to = 0) and its angle syntax feed Constraints::new;
        # those two clauses of C20 are part of what C07's anchors name (src/urdf.rs)
        from . import C20
        fu = util.find_one(ctx, suffix='urdf::from_urdf')
        ctx.rule('R20.2', 'no <limit> -> from = to = 0 untouched; to_robot/constraints pass from/to unchanged to Constraints::new')
        ctx.rule('R20.6', 'the capture group parsed as the xacro angle spans the whole decimal number')
        C20.limits_defaults(ctx, fu)
        C20.angle_syntax(ctx, fu)


def _triple_ok(a, ce, to, idx_t, angles_ok):
    ce, to = strip(ce), strip(to)
    return (isinstance(ce, tuple) and ce[0] == 'idx' and strip(ce[2]) == idx_t and isinstance(strip(ce[1]), tuple) and strip(ce[1])[0] == 'fld' and strip(ce[1])[2] == 'centers' and
            isinstance(to, tuple) and to[0] == 'idx' and strip(to[2]) == idx_t and isinstance(strip(to[1]), tuple) and strip(to[1])[2] == 'tolerances' and angles_ok(strip(a)))


def _zip_leaves(t, prefix=()):
    """{tuple path: source} of a tree of Iterator::zip over plain iter() of the angles parameter / self.centers / self.tolerances,
    or None when the term is anything else (an adaptor that skips, reverses or filters breaks the joint-by-joint pairing)"""
    t = strip(t)
    while isinstance(t, tuple) and t[0] == 'call' and cname(t[1]).split('::')[-1] == 'into_iter' and len(t) == 3:
        t = strip(t[2])
    if isinstance(t, tuple) and t[0] == 'call' and cname(t[1]) == 'Iterator::zip' and len(t) == 4:
        l = _zip_leaves(t[2], prefix + ('0',))
        r = _zip_leaves(t[3], prefix + ('1',))
        if l is None or r is None:
            return None
        l.update(r)
        return l
    base, ad = util.iter_chain(t)
    if any(a not in ('iter', 'into_iter', 'copied', 'cloned') for a in ad) or not ad:
        return None
    b0 = strip(base)
    if util.is_param(b0, 2):
        return {prefix: 'angles'}
    if isinstance(b0, tuple) and b0[0] == 'fld' and b0[2] in ('centers', 'tolerances') and util.is_param(b0[1], 1):
        return {prefix: b0[2]}
    return None


def _all_joints_inside(ctx, prog, comp, ib):
    """two idioms: iter().enumerate().all(closure) or a loop over 0..6 with `return false` on the failing edge"""
    alls = [(bi, t) for bi, t in comp.calls() if cname(callee_name(t)) == 'Iterator::all']
    cls = util.closure_bodies(prog, comp.path)
    if len(alls) == 1 and len(cls) == 1:
        bi, t = alls[0]
        base, ad = util.iter_chain(comp.op_term(t['args'][0], (bi, None)))
        rv = [strip(x[0]) for x in comp.return_values()]
        zipped = _zip_leaves(strip(comp.op_term(t['args'][0], (bi, None))))
        if zipped is not None and len(zipped) == 3 and len(rv) == 1 and rv[0] == strip(comp.call_term(t, (bi, None))):
            # angles.iter().zip(centers.iter().zip(tolerances.iter())).all(|(a, (c, t))| inside(a, c, t)): joint k with centre k and tolerance k
            c = cls[0]
            ctx.fn(c)
            crv = [strip(x[0]) for x in c.return_values()]
            if len(crv) == 1 and isinstance(crv[0], tuple) and crv[0][0] == 'call' and crv[0][1] == ib.path and len(crv[0]) == 5:
                def path_of(x):
                    x = strip(x)
                    p_ = []
                    while isinstance(x, tuple) and x[0] == 'fld' and str(x[2]) in ('0', '1'):
                        p_.insert(0, str(x[2]))
                        x = strip(x[1])
                    return tuple(p_) if util.is_param(x, 2) else None
                srcs = [zipped.get(path_of(a)) for a in crv[0][2:5]]
                ok = srcs == ['angles', 'centers', 'tolerances']
                return ok, 'all over zip(angles, centers, tolerances) of inside(a, c, t)' if ok else 'closure pairs %s' % srcs
            return False, 'closure does not return the membership test'
        if not (util.is_param(base, 2) and ad == ['iter', 'enumerate'] and len(rv) == 1 and rv[0] == strip(comp.call_term(t, (bi, None)))):
            return False, 'all() does not run over every (index, angle) of the argument'
        c = cls[0]
        ctx.fn(c)
        rv = [strip(x[0]) for x in c.return_values()]
        if len(rv) == 1 and isinstance(rv[0], tuple) and rv[0][0] == 'call' and rv[0][1] == ib.path:
            i_t = ('fld', ('param', 2, c.name_of(2)), '0')
            ok = _triple_ok(rv[0][2], rv[0][3], rv[0][4], i_t, lambda a: isinstance(a, tuple) and a[0] == 'fld' and a[2] == '1')
            return ok, 'all(|(i, angle)| inside(angle, centers[i], tolerances[i]))' if ok else 'closure tests %s' % show(rv[0], maxdepth=5)
        return False, 'closure does not return the membership test'
    calls = [(bi, t) for bi, t in comp.calls() if t['callee'].get('resolved') == ib.path]
    if len(calls) == 1:
        bi, t = calls[0]
        a, ce, to = [comp.op_term(x, (bi, None)) for x in t['args']]
        a = strip(a)
        idx_t = strip(a[2]) if isinstance(a, tuple) and a[0] == 'idx' else None
        src = util.loop_source(idx_t) if idx_t is not None else None
        r = util.range_of(src) if src is not None else None
        dom = r is not None and util.const_val(r[0]) == 0 and util.len_const(comp, r[1]) == 6 and not [x for x in r[2] if x != 'into_iter']
        trip = idx_t is not None and _triple_ok(a, ce, to, idx_t, lambda x: isinstance(x, tuple) and x[0] == 'idx' and util.is_param(x[1], 2))
        ct = strip(comp.call_term(t, (bi, None)))
        falses = trues = 0
        for tt, d, rb in comp.return_values():
            v = util.const_val(strip(tt))
            gs = [(strip(g), opw.truth(k)) for g, k, sw in comp.guard_terms(d[1])]
            if v in (0, False) and any(g == ct and tv is False for g, tv in gs):
                falses += 1
            elif v in (1, True) and not any(g == ct for g, tv in gs):
                trues += 1
            else:
                return False, 'unexpected return value %s' % show(tt, maxdepth=3)
        ok = dom and trip and falses == 1 and trues == 1
        return ok, 'for i in 0..6 { if !inside(angles[i], centers[i], tolerances[i]) { return false } } true' if ok else 'loop domain=%s index agreement=%s returns false/true=%d/%d' % (dom, trip, falses, trues)
    return False, 'neither Iterator::all nor a single membership test in a loop'


def _glue(ctx, prog, cc, ib):
    comp = util.find_one(ctx, suffix='constraints::Constraints::compliant')
    okc, descc = _all_joints_inside(ctx, prog, comp, ib)
    ctx.check(okc, 'R07.3', 'compliant', comp.where(0), comp.path,
              'compliant must be the conjunction over all six joints of inside(angle_i, centers[i], tolerances[i]) with one index i: ' + descc, detail=descc)
    fl = util.find_one(ctx, suffix='constraints::Constraints::filter')

    def pred(body, g, elem):
        if g[1] != comp.path:
            return None
        from .C11 import _unenv
        recv = strip(_unenv(g[2]))
        e = g[3]
        while isinstance(e, tuple) and e[0] in ('ref', 'deref'):
            e = e[1]
        el = elem
        while isinstance(el, tuple) and el[0] in ('ref', 'deref'):
            el = el[1]
        return True if (util.is_param(recv, 1) and e == el) else None
    okf, desc = util.subsequence_filter(prog, fl, 2, pred)
    ctx.check(okf, 'R07.3', 'filter', fl.where(0), fl.path, 'filter must keep exactly the elements for which compliant() is true, in order: ' + desc, detail=desc)
    # constructors
    for name in ('new', 'from_degrees', 'update_range'):
        b = util.find_one(ctx, suffix='constraints::Constraints::' + name)
        calls = [(bi, t) for bi, t in b.calls() if t['callee'].get('resolved') == cc.path]
        delegated = None
        if not calls and name != 'new':
            # a constructor may hand its (from, to) to `new`, which is checked above
            ret = strip(b.return_term())
            newb = util.find_one(ctx, suffix='constraints::Constraints::new')
            if isinstance(ret, tuple) and ret[0] == 'call' and ret[1] == newb.path:
                delegated = ret
            if delegated is None and name == 'update_range':
                # `*self = Self::new(from, to, ..)`: the whole value replaced by what the constructor builds from the new range
                for nbi, nt in b.calls():
                    if nt['callee'].get('resolved') != newb.path:
                        continue
                    d = nt.get('dest') or {}
                    whole = d.get('local') == 1 and [e['k'] for e in d.get('proj', [])] == ['deref']
                    if not whole:
                        for i2, j2, st2 in b.stmts():
                            l2, rv2 = st2['lhs'], st2['rv']
                            if l2['local'] == 1 and [e['k'] for e in l2['proj']] == ['deref'] and rv2['k'] == 'use' and rv2['op'].get('k') in ('move', 'copy') and \
                                    rv2['op']['place']['local'] == d.get('local') and not rv2['op']['place']['proj']:
                                whole = True
                    nct = strip(b.call_term(nt, (nbi, None)))
                    if whole and util.is_param(nct[2], 2) and util.is_param(nct[3], 3):
                        delegated = nct
        if delegated is not None:
            ctx.ok('R07.3', name + '/centres', b.where(0), 'delegates to Constraints::new')
            ctx.ok('R07.3', name + '/stores', b.where(0), 'delegates to Constraints::new')
            fa, ta = strip(delegated[2]), strip(delegated[3])
            bi = 0
        elif not ctx.check(len(calls) == 1, 'R07.3', name + '/centres', b.where(0), b.path, 'must compute centres/tolerances exactly once'):
            continue
        else:
            bi, t = calls[0]
            ct = strip(b.call_term(t, (bi, None)))
            fa, ta = strip(ct[2]), strip(ct[3])
        if delegated is not None:
            pass
        elif name == 'update_range':
            stores = {}
            for i, j, st in b.stmts():
                lhs = st['lhs']
                if lhs['local'] == 1 and len(lhs['proj']) == 2 and lhs['proj'][1]['k'] == 'field':
                    stores[lhs['proj'][1]['name']] = strip(b.rv_term(st['rv'], (i, j)))
            fields = stores
        else:
            ret = strip(b.return_term())
            fields = dict(zip([f['name'] for f in prog.adts['constraints::Constraints']['variants'][0]['fields']], [strip(x) for x in ret[2:]])) if isinstance(ret, tuple) and ret[0] == 'agg' else {}
        if delegated is None:
            ok = fields.get('from') == fa and fields.get('to') == ta and fields.get('centers') == ('fld', ct, '0') and fields.get('tolerances') == ('fld', ct, '1')
            ctx.check(ok, 'R07.3', name + '/stores', b.where(bi), b.path, 'from/to/centers/tolerances must be the arguments and results of one centre computation',
                      found={k: show(v, maxdepth=3) for k, v in fields.items()})
        if name == 'from_degrees':
            ok = True
            for arr, which in ((fa, 'start'), (ta, 'end')):
                if not (isinstance(arr, tuple) and arr[0] == 'agg' and arr[1] == 'array' and len(arr) == 8):
                    ok = False
                    continue
                for i, e in enumerate(arr[2:]):
                    e = strip(e)
                    good = isinstance(e, tuple) and e[0] == 'call' and cname(e[1]) == 'f64::to_radians'
                    if good:
                        inner = strip(e[2])
                        good = isinstance(inner, tuple) and inner[0] == 'call' and cname(inner[1]) == 'RangeInclusive::' + which
                        if good:
                            src = strip(inner[2])
                            good = isinstance(src, tuple) and src[0] == 'idx' and util.const_val(src[2]) == i and util.is_param(src[1], 1)
                    ctx.check(good, 'R07.3', 'from_degrees/%s[%d]' % (which, i), b.where(0), b.path,
                              '%s[%d] must be ranges[%d].%s().to_radians()' % ('from' if which == 'start' else 'to', i, i, which), found=show(e, maxdepth=5))
