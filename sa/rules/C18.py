"""C18 - random joint vectors drawn from constraints always satisfy them."""
import math

from .. import absint, mir, util, opw
from ..absint import Iv, Interp, Fork
from ..facts import MachineryError
from ..mir import cname, strip, callee_name, show
from .C07 import mod_range, grid, TWO_PI

EXPLANATION = ('(R18.1) the per-joint sampler (found by role inside Constraints::random_angles) is abstractly interpreted over a partition of '
               '(from, to) into interval cells, the random draw gen_range(lo..hi) being modelled by its contract [lo, hi) split into sub-intervals: '
               'an abstract path all of whose branch decisions are definite for the whole cell and whose result lies, modulo 2*pi, wholly off '
               'the arc [from, to] is a region of definite counterexamples (VIOLATION with the cell as witness); a cell all of whose paths lie '
               'on the arc widened by the cell width holds.  (R18.2) in the same cells the gen_range bounds satisfy lo < hi (no panic) when the arc '
               'has positive width.  (R18.3) slot i is sampled from (from[i], to[i]).  The acceptance side (the constraints accept exactly the arc) is C07, whose clauses are re-checked here.  Distribution quality and rand itself are not decided.')
NOT_DECIDED = 'distribution quality; behaviour of rand itself (assumed to return a value in [lo, hi)); exactness within one cell width of the arc ends'
ASSUMPTIONS = ['rand::Rng::gen_range(lo..hi) returns a value in [lo, hi) and panics iff lo >= hi', 'rand::Rng::random::<f64>() returns a value in [0, 1)']
SPLITS = 8
FILL = (0.25, 1.0)        # (from, to) of the slots that are not under test when random_angles is interpreted as a whole


class EmptyRange(Exception):
    pass


def h_thread_rng(I, st, a, t, b):
    return absint.Sym('rng')


def h_gen_range(I, st, a, t, b):
    r = a[1]
    lo, hi = r['start'], r['end']
    if not (isinstance(lo, Iv) and isinstance(hi, Iv)):
        raise absint.Unsupported('gen_range bounds')
    if lo.is_point() and hi.is_point() and lo.lo == 0.0 and hi.lo == FILL[1] - FILL[0]:
        return Iv(0.0, hi.lo)            # a filler slot of the whole-function mode: one abstract value, no fork
    c = absint.iv_cmp('Lt', lo, hi)
    if hasattr(I, 'gen_checks'):
        I.gen_checks.append(c)
    if c is False:
        raise EmptyRange('gen_range(%r..%r) is empty for the whole cell' % (lo, hi))
    L, H = lo.lo, hi.hi
    w = (H - L) / SPLITS
    return Fork([Iv(L + i * w, L + (i + 1) * w) for i in range(SPLITS)])


def h_random_unit(I, st, a, t, b):
    """rng.random::<f64>() / rng.gen::<f64>(): a value in [0, 1) (the Standard distribution of floats), split like a range draw"""
    if 'f64' not in (t['callee'].get('args') or '') and 'f32' not in (t['callee'].get('args') or ''):
        raise absint.Unsupported('random() of a non-float type')
    w = 1.0 / SPLITS
    return Fork([Iv(i * w, (i + 1) * w) for i in range(SPLITS)])


HANDLERS = {'rand::thread_rng': h_thread_rng, 'rngs::thread::thread_rng': h_thread_rng, 'thread::thread_rng': h_thread_rng,
            'Rng::gen_range': h_gen_range, 'Rng::random_range': h_gen_range, 'Rng::random': h_random_unit, 'Rng::gen': h_random_unit}


def find_sampler(ctx):
    prog = ctx.prog
    ra = util.find_one(ctx, suffix='constraints::Constraints::random_angles')
    cands = []
    for bi, t in ra.calls():
        c = t['callee']
        if c.get('local') and c.get('resolved') in prog.bodies:
            cb = prog.bodies[c['resolved']]
            if [cb.local_ty(i) for i in range(0, cb.arg_count + 1)] == ['f64', 'f64', 'f64']:
                cands.append((bi, t, cb))
    return ra, cands


def arc_hull(F, T):
    """(start_lo, start_hi, span_lo, span_hi) of the arc for cells F, T or None when from/to order or wrap is ambiguous over the cell"""
    f0, f1 = F
    t0, t1 = T
    if f1 < t0:
        return f0, f1, t0 - f1, t1 - f0
    if f0 > t1:
        r = mod_range(t0 - f1, t1 - f0)
        if r is None or r[0] <= 0:
            return None
        return f0, f1, r[0], r[1]
    return None


def run(ctx):
    prog = ctx.prog
    ctx.rule('R18.1', 'every value the sampler can return for a (from,to) cell lies on the arc [from, to] modulo 2*pi (abstract interpretation; draw = [lo,hi) split)')
    ctx.rule('R18.2', 'gen_range is never called with an empty range when the arc has positive width')
    ctx.rule('R18.3', 'slot i of the returned vector is sampled from (from[i], to[i])')
    ra, cands = find_sampler(ctx)
    loop_form = len(cands) == 1
    whole = not ((len(cands) >= 6 or loop_form) and len({c[2].path for c in cands}) == 1)
    ctx.rule('R18.4', 'constants of the sampler that stand for pi or 2*pi are exact')
    if whole:
        # no separate fn(f64, f64) -> f64 called once per joint (the draw may sit in a closure, a generic helper, an
        # array::from_fn generator): random_angles is interpreted as a whole, one slot under test at a time
        _whole_function(ctx, prog, ra)
        return
    sampler = cands[0][2]
    ctx.fn(sampler)
    util.pi_constants(ctx, 'R18.4', [sampler])
    # ---- R18.3 glue
    ret = strip(ra.return_term())

    def slot_args(e, want):
        """e == sampler(self.from[k], self.to[k]) with k == want (a constant or a term)"""
        e = strip(e)
        if not (isinstance(e, tuple) and e[0] == 'call' and e[1] == sampler.path):
            return False
        a, b = strip(e[2]), strip(e[3])

        def side(x, name):
            if not (isinstance(x, tuple) and x[0] == 'idx' and util.is_self_field(x[1], name)):
                return False
            return util.const_val(x[2]) == want if isinstance(want, int) else strip(x[2]) == want
        return side(a, 'from') and side(b, 'to')

    if loop_form:
        # out[k] = sampler(self.from[k], self.to[k]) for k in 0..6, `out` returned
        from .C16 import partial_writes
        ws = partial_writes(ra, lambda lhs, i, j: len(lhs['proj']) == 1 and ra.local_ty(lhs['local']) == '[f64; 6]')
        ok = False
        found = None
        if len(ws) == 1:
            i, j, it, v = ws[0]
            k_t = strip(it)
            src = util.loop_source(it)
            r = util.range_of(src) if src is not None else None
            full = r is not None and util.const_val(r[0]) == 0 and util.const_val(r[1]) == 6 and r[2] in ([], ['into_iter'])
            lhs_local = [st['lhs']['local'] for bi, sj, st in ra.stmts() if (bi, sj) == (i, j)][0]
            returned = isinstance(ret, tuple) and ret[0] in ('var', 'mutb') and ra.name_of(lhs_local) is not None and ra.name_of(lhs_local) in show(ret)
            ok = full and returned and slot_args(v, k_t)
            found = 'slot %s := %s, k from %s' % (show(it, maxdepth=4), show(v, maxdepth=5), show(src, maxdepth=4) if src else None)
        ctx.check(ok, 'R18.3', 'slots(loop)', ra.where(0), ra.path, 'slot k must be sampled from (self.from[k], self.to[k]) for every k in 0..6', found=found)
    else:
        ok = isinstance(ret, tuple) and ret[0] == 'agg' and ret[1] == 'array' and len(ret) == 8
        if ctx.check(ok, 'R18.3', 'shape', ra.where(0), ra.path, 'random_angles must return an array of six sampled values'):
            for i, e in enumerate(ret[2:]):
                ctx.check(slot_args(e, i), 'R18.3', 'slot%d' % i, ra.where(0), ra.path, 'slot %d must be sampled from (self.from[%d], self.to[%d])' % (i, i, i), found=show(strip(e), maxdepth=5))

    # ---- R18.1 / R18.2
    deg = math.pi / 180
    w = (1.25 if ctx.tier == 'thorough' else 5.0) * deg
    cells = grid(-2 * math.pi, 2 * math.pi, w)
    holds = fails = und = excl = empties = 0
    nviol = 0
    for F in cells:
        for T in cells:
            hull = arc_hull(F, T)
            if hull is None:
                excl += 1
                continue
            s_lo0, s_hi0, span_lo, span_hi = hull
            if span_lo < w:        # within a cell width of to == from (mod 2 pi): excluded band
                excl += 1
                continue
            I = Interp(prog, HANDLERS, fuel=100000, max_paths=4096)
            I.gen_checks = []
            key = 'from[%.4f,%.4f]/to[%.4f,%.4f]' % (F + T)
            try:
                outs = I.run(sampler.path, [Iv(*F), Iv(*T)])
            except EmptyRange as e:
                empties += 1
                nviol += 1
                if nviol <= 15:
                    ctx.violation('R18.2', key, sampler.where(0), sampler.path, 'the arc has positive width for every (from,to) of the cell, yet %s: the call panics' % e)
                continue
            except absint.Undecided:
                und += 1
                continue
            except absint.Unsupported as e:
                raise MachineryError('sampler could not be interpreted: %s' % e)
            # classify
            all_ok = True
            definite_bad = None
            for o in outs:
                r = o.ret
                if not isinstance(r, Iv):
                    all_ok = False
                    continue
                inside = False
                disjoint = True
                for n in range(-4, 5):
                    lo, hi = r.lo + n * TWO_PI, r.hi + n * TWO_PI
                    if lo >= F[0] - 1e-9 and hi <= F[1] + span_hi + 1e-9:
                        inside = True
                    if not (hi < F[0] - 1e-9 or lo > F[1] + span_hi + 1e-9):
                        disjoint = False
                if span_hi >= TWO_PI:
                    inside, disjoint = True, False
                if not inside:
                    all_ok = False
                if disjoint and _definite_path(I, o):
                    definite_bad = r
            if definite_bad is not None:
                fails += 1
                nviol += 1
                if nviol <= 15:
                    ctx.violation('R18.1', key, sampler.where(0), sampler.path,
                                  'for every (from,to) in the cell the sampler can return a value in %r, which is off the arc [from, from+span], span in [%.4f, %.4f] (mod 2*pi)' % (definite_bad, span_lo, span_hi),
                                  found=repr(definite_bad), expected='from + [0, span) (mod 2*pi)')
            elif all_ok:
                holds += 1
                if holds % 499 == 1:
                    ctx.ok('R18.1', key, sampler.where(0), '%d abstract paths on the arc' % len(outs))
            else:
                und += 1
    # limits at exact multiples of a quarter turn (0, +-90, +-180, ... degrees are what people write): the cells above have
    # positive width and leave a test like `span == 0.0` undecided, so these pairs are evaluated as points, every path definite
    npts = 0
    for kf in range(-4, 5):
        for kt in range(-4, 5):
            f, t_ = kf * math.pi / 2, kt * math.pi / 2
            if kf == kt:
                continue
            # the arc as the constraints understand it: from < to is the plain interval (a full circle once it is 2*pi wide),
            # from > to runs forward from `from` to `to` plus whole turns
            span = (t_ - f) if f < t_ else (t_ - f) % TWO_PI
            if span >= TWO_PI - 1e-9:
                span = 0.0
            I = Interp(prog, HANDLERS, fuel=100000, max_paths=4096)
            I.gen_checks = []
            key = 'point(from=%d*pi/2,to=%d*pi/2)' % (kf, kt)
            try:
                outs = I.run(sampler.path, [Iv(f), Iv(t_)])
            except EmptyRange as e:
                if span > 1e-9:
                    ctx.violation('R18.2', key, sampler.where(0), sampler.path, 'the arc from %g to %g has positive width, yet %s: the call panics' % (f, t_, e))
                continue
            except absint.Undecided:
                continue
            except absint.Unsupported as e:
                raise MachineryError('sampler could not be interpreted: %s' % e)
            npts += 1
            bad = None
            for o in outs:
                r = o.ret
                if not isinstance(r, Iv):
                    continue
                if span < 1e-9:
                    continue                      # a whole number of turns apart: from == to (mod 2*pi), the full circle
                inside = any(r.lo + n * TWO_PI >= f - 1e-9 and r.hi + n * TWO_PI <= f + span + 1e-9 for n in range(-4, 5))
                if not inside:
                    bad = r
            ctx.check(bad is None, 'R18.1', key, sampler.where(0), sampler.path,
                      'for limits %g .. %g the sampler can return a value in %r, off the arc of width %g' % (f, t_, bad, span), found=repr(bad), detail='on the arc')
    ctx.floor('R18.1 quarter-turn points', npts, 40)
    # from == to: the joint is unconstrained (e.g. the suppressed J6 of a 5-DOF robot, a URDF joint without limits);
    # sampling must still work (no empty range)
    for x in (0.0, 1.0, -2.5, 6.0):
        I = Interp(prog, HANDLERS, fuel=100000, max_paths=4096)
        I.gen_checks = []
        try:
            outs = I.run(sampler.path, [Iv(x), Iv(x)])
            ok = len(outs) >= 1 and all(isinstance(o.ret, Iv) and not o.ret.nan for o in outs)
            msg = '%d abstract results' % len(outs)
        except EmptyRange as e:
            ok, msg = False, str(e)
        except absint.Undecided as e:
            ok, msg = True, 'undecided: %s' % e
        except absint.Unsupported as e:
            raise MachineryError('sampler could not be interpreted: %s' % e)
        ctx.check(ok, 'R18.2', 'from==to==%g' % x, sampler.where(0), sampler.path,
                  'from == to means unconstrained, yet sampling fails: ' + msg, detail=msg)

    # "accepted by the same constraints": the sampler is judged against the arc [from, to]; that the constraints accept
    # exactly that arc is C07's statement, whose clauses are re-checked here (a change of the centre/tolerance computation
    # or of the membership test breaks C18 as much as C07)
    from . import C07
    C07.run(ctx)
    ctx.evaluations += holds + fails + und
    ctx.extra['cells'] = {'width_deg': w / deg, 'holds': holds, 'definite_failures': fails, 'empty_range_panics': empties, 'undecided': und, 'excluded_band_or_ambiguous': excl}
    total = holds + fails + und + empties
    ctx.require(nviol > 0 or (total > 0 and holds + fails + empties >= 0.6 * total), 'E4 precision: %d of %d cells decided (floor 60%%)' % (holds + fails + empties, total))
    ctx.floor('R18.1 decided cells', holds + fails + empties, 1500)
    for i in range(0, 30):
        ctx.nontrivial.add(('R18.1', 'cellgroup%d' % i))
    if nviol > 15:
        ctx.note('%d violating cells in total; first 15 reported' % nviol)


class _Slot:
    def __init__(self, ret, o):
        self.ret = ret
        self.cmp_forked = getattr(o, 'cmp_forked', False)


def _whole_function(ctx, prog, ra):
    """R18.1 / R18.2 / R18.3 by interpreting Constraints::random_angles itself: slot k gets the (from, to) cell under test, the
    other slots a fixed plain range, and slot k of every abstract result must lie on the arc of that cell."""
    ctx.fn(ra)
    bodies = [prog.bodies[p] for p in prog.reachable_bodies([ra.path]) if p.startswith('constraints::')]
    for bb in bodies:
        ctx.fn(bb)
    util.pi_constants(ctx, 'R18.4', bodies)
    fields = [f['name'] for f in prog.adts['constraints::Constraints']['variants'][0]['fields']]

    def run_slot(k, F, T):
        frm = [Iv(FILL[0])] * 6
        to = [Iv(FILL[1])] * 6
        frm[k], to[k] = Iv(*F), Iv(*T)
        me = {'#adt': 'constraints::Constraints'}
        for f in fields:
            me[f] = tuple(frm) if f == 'from' else tuple(to) if f == 'to' else (Iv(0.0) if f == 'sorting_weight' else tuple([absint.TOP] * 6))
        I = Interp(prog, HANDLERS, fuel=200000, max_paths=4096)
        I.gen_checks = []
        outs = I.run(ra.path, [('refval', me, ())])
        res = []
        for o in outs:
            r = o.ret
            if not (isinstance(r, (tuple, list)) and len(r) == 6):
                raise absint.Unsupported('random_angles returned %r' % (r,))
            res.append(_Slot(r[k], o))
        return I, res

    def on_arc(r, F, span_hi):
        inside = False
        disjoint = True
        for n in range(-4, 5):
            lo, hi = r.lo + n * TWO_PI, r.hi + n * TWO_PI
            if lo >= F[0] - 1e-9 and hi <= F[1] + span_hi + 1e-9:
                inside = True
            if not (hi < F[0] - 1e-9 or lo > F[1] + span_hi + 1e-9):
                disjoint = False
        if span_hi >= TWO_PI:
            inside, disjoint = True, False
        return inside, disjoint
    deg = math.pi / 180
    w = (5.0 if ctx.tier == 'thorough' else 15.0) * deg
    cells = grid(-2 * math.pi, 2 * math.pi, w)
    holds = fails = und = empties = 0
    nviol = 0
    for k in range(6):
        # slot 0 sees the whole grid, the other slots a diagonal sample of it (a slot fed from another joint's limits fails on any cell)
        pairs = [(F, T) for F in cells for T in cells] if k == 0 else [(cells[(7 * i + k) % len(cells)], cells[(11 * i + 3 * k + 5) % len(cells)]) for i in range(40)]
        for F, T in pairs:
            hull = arc_hull(F, T)
            if hull is None or hull[2] < w:
                continue
            key = 'slot%d/from[%.4f,%.4f]/to[%.4f,%.4f]' % ((k,) + F + T)
            try:
                I, outs = run_slot(k, F, T)
            except EmptyRange as e:
                empties += 1
                nviol += 1
                if nviol <= 15:
                    ctx.violation('R18.2', key, ra.where(0), ra.path, 'the arc has positive width for every (from,to) of the cell, yet %s: the call panics' % e)
                continue
            except absint.Undecided:
                und += 1
                continue
            except absint.Unsupported as e:
                raise MachineryError('random_angles could not be interpreted: %s' % e)
            all_ok = True
            bad = None
            for o in outs:
                if not isinstance(o.ret, Iv):
                    all_ok = False
                    continue
                inside, disjoint = on_arc(o.ret, F, hull[3])
                if not inside:
                    all_ok = False
                if disjoint and _definite_path(I, o):
                    bad = o.ret
            if bad is not None:
                fails += 1
                nviol += 1
                if nviol <= 15:
                    ctx.violation('R18.1' if k == 0 else 'R18.3', key, ra.where(0), ra.path,
                                  'slot %d can receive a value in %r, off the arc of its own limits [from, from+span], span in [%.4f, %.4f] (mod 2*pi)' % (k, bad, hull[2], hull[3]),
                                  found=repr(bad), expected='from[%d] + [0, span) (mod 2*pi)' % k)
            elif all_ok:
                holds += 1
                if holds % 199 == 1:
                    ctx.ok('R18.1' if k == 0 else 'R18.3', key, ra.where(0), '%d abstract results on the arc' % len(outs))
            else:
                und += 1
    # quarter-turn points and from == to, slot 0
    npts = 0
    for kf in range(-4, 5):
        for kt in range(-4, 5):
            f, t_ = kf * math.pi / 2, kt * math.pi / 2
            key = 'point(from=%d*pi/2,to=%d*pi/2)' % (kf, kt)
            span = (t_ - f) if f < t_ else (t_ - f) % TWO_PI
            if span >= TWO_PI - 1e-9:
                span = 0.0
            try:
                I, outs = run_slot(0, (f, f), (t_, t_))
            except EmptyRange as e:
                if kf == kt or span > 1e-9:
                    ctx.violation('R18.2', key, ra.where(0), ra.path, 'limits %g .. %g: %s: the call panics' % (f, t_, e))
                continue
            except absint.Undecided:
                continue
            except absint.Unsupported as e:
                raise MachineryError('random_angles could not be interpreted: %s' % e)
            npts += 1
            bad = None
            for o in outs:
                if isinstance(o.ret, Iv) and kf != kt and span > 1e-9 and not on_arc(o.ret, (f, f), span)[0]:
                    bad = o.ret
            ctx.check(bad is None, 'R18.1', key, ra.where(0), ra.path, 'for limits %g .. %g slot 0 can receive a value in %r, off the arc of width %g' % (f, t_, bad, span), found=repr(bad), detail='on the arc')
    ctx.floor('R18.1 quarter-turn points', npts, 40)
    from . import C07
    C07.run(ctx)
    ctx.evaluations += holds + fails + und
    ctx.extra['cells'] = {'mode': 'whole function', 'width_deg': w / deg, 'holds': holds, 'definite_failures': fails, 'empty_range_panics': empties, 'undecided': und}
    total = holds + fails + und + empties
    ctx.require(nviol > 0 or (total > 0 and holds + fails + empties >= 0.6 * total), 'E4 precision: %d of %d cells decided (floor 60%%)' % (holds + fails + empties, total))
    ctx.floor('R18.1 decided cells (whole function)', holds + fails + empties, 300)


def _definite_path(I, outcome):
    # the interpreter forks on indefinite comparisons and on the draw; a path is a definite counterexample region only
    # when no comparison fork happened.  Draw forks are feasible by the RNG contract.
    return not getattr(outcome, 'cmp_forked', False)
