"""C01 - every inverse-kinematics solution returned reproduces the requested pose."""
import math

from .. import algebra, census, mir, util, opw
from ..mir import cname, strip, callee_name, show

EXPLANATION = ('The solver\'s design makes the property structural: a candidate reaches a result only through a finiteness filter and a forward-'
               'kinematics cross-check (gate).  Decided from MIR: (R01.1) every push into a returned vector is dominated by the true edge of the '
               'gate applied to forward(self, &that candidate) and the requested pose (the only other producer is extend() from the gated '
               'internal solver on a pose shifted by at most DISTANCE_TOLERANCE/8); (R01.2) tolerance constants evaluate to 0 < tol <= 1e-6; '
               '(R01.3) the gate returns true only on the false edges of |translation distance| > tol and |angle_to| > tol between its two '
               'arguments; (R01.4) every angle slot passes is_finite on the true edge before the push, the 5-DOF J6 slot receives no NaN '
               'constant; (R01.5) after the gate solution elements are written only by the 2*pi near-normaliser; (R01.6) plain inverse stores '
               'each angle after the two reduction loops (exit edges !(x > PI), !(x < -PI), updates -/+ 2*PI); (R01.7) panic-site census of '
               'the four entry points; the clauses of C03 (forward() is the OPW chain, one joint convention) are re-checked because the gate is only as good as forward().  The position gate of the 5-DOF path must hold positively (`distance <= tolerance` evaluated true, so that a NaN distance fails: the J6 of a 5-DOF candidate passes no finiteness test).  Where the tail of an internal solver is not in the shape these rules read, R01.1 / R01.4 / R01.6 are decided by symbolic interpretation of the solver over scripted scenarios (sa/solvertail.py).  Whether a closed-form candidate is accurate enough to pass the gate is numerical and not decided.')
NOT_DECIDED = 'that closed-form candidates pass the gate (C02); IEEE behaviour inside nalgebra; poses with infinite components'
ASSUMPTIONS = ['nalgebra norm()/angle_to() compute the Euclidean norm / rotation angle', 'forward() is the FK model of C03']


def gate_roles(ctx):
    """(full_gate_bodies, xyz_gate_bodies) found by role in kinematics_impl."""
    prog = ctx.prog
    full, xyz = [], []
    for b in opw.solver_helpers(prog):
        if b.local_ty(0) != 'bool':
            continue
        tys = [b.local_ty(i) for i in range(1, b.arg_count + 1)]
        names = [cname(callee_name(t)) for _, t in b.calls()]
        if len(tys) == 4 and 'Isometry' in tys[0] and 'Isometry' in tys[1] and tys[2] == 'f64' and tys[3] == 'f64':
            full.append(b)
        elif len(tys) == 3 and 'Translation' in tys[0] and 'Translation' in tys[1] and tys[2] == 'f64':
            xyz.append(b)
    return full, xyz


def check_gate_body(ctx, b, kind):
    """R01.3"""
    rv = b.return_values()
    key = b.path.split('::')[-1]
    if kind == 'xyz':
        paths = util.true_conditions(b)
        ok = len(paths) >= 1 and None not in paths
        for conds in paths if ok else []:
            ok = ok and any(kd == 'le' and util.is_param(rhs, 3) and _is_norm_of_diff(strip(lhs), 1, 2, ('vector',)) for kd, lhs, rhs in conds)
        ctx.check(ok, 'R01.3', key, b.where(0), b.path, 'the position gate must be norm(a - b) <= tolerance on its two arguments',
                  found=[show(x[0], maxdepth=5) for x in rv], detail='norm(a - b) <= tol')
        # .. and it must say so positively: J6 of a 5-DOF candidate is the caller's value and passes no finiteness test, so a
        # NaN distance has to fail the gate. `d <= tol` is false for NaN; `!(d > tol)` is true for NaN.
        positive = True
        for t, d, rb in rv:
            t = strip(t)
            if util.const_val(t) in (0, False):
                continue
            ev = [(strip(g), opw.truth(k)) for g, k, sw in b.guard_terms(d[1])] + ([(t, True)] if util.const_val(t) is None else [])
            held = False
            for g, v in ev:
                if isinstance(g, tuple) and g[0] == 'bin' and v is True:
                    if g[1] in ('Le', 'Lt') and _is_norm_of_diff(strip(g[2]), 1, 2, ('vector',)) and util.is_param(g[3], 3):
                        held = True
                    if g[1] in ('Ge', 'Gt') and _is_norm_of_diff(strip(g[3]), 1, 2, ('vector',)) and util.is_param(g[2], 3):
                        held = True
            positive = positive and held
        ctx.check(positive, 'R01.3', key + '/nan-safe', b.where(0), b.path,
                  'the position gate must hold positively (`distance <= tolerance` evaluated true): written as the failure of `distance > tolerance` it lets a NaN '
                  'distance pass, and the J6 of a 5-DOF candidate is not checked for finiteness anywhere else', found=[show(x[0], maxdepth=5) for x in rv], detail='positive comparison')
        return
    paths = util.true_conditions(b)
    ok = len(paths) >= 1 and None not in paths
    msg = 'no analysable path returns true'
    if ok:
        msg = ''
        for conds in paths:
            dist = ang = False
            for kind, lhs, rhs in conds:
                if kind != 'le':
                    continue
                lhs = strip(lhs)
                while isinstance(lhs, tuple) and lhs[0] == 'call' and cname(lhs[1]) == 'f64::abs':
                    lhs = strip(lhs[2])
                if util.is_param(rhs, 3) and _is_norm_of_diff(lhs, 1, 2, ('translation', 'vector')):
                    dist = True
                if util.is_param(rhs, 4) and isinstance(lhs, tuple) and lhs[0] == 'call' and cname(lhs[1]).endswith('::angle_to'):
                    a, c = strip(lhs[2]), strip(lhs[3])
                    if _is_fld_of_param(a, 'rotation') and _is_fld_of_param(c, 'rotation') and {_param_root(a), _param_root(c)} == {1, 2}:
                        ang = True
            ok = ok and dist and ang
            msg = 'distance clause=%s angular clause=%s' % (dist, ang)
    ctx.check(ok, 'R01.3', key, b.where(0), b.path,
              'the pose gate must return true only when |translation distance| <= tol_d and |angle_to| <= tol_a hold for its two arguments: ' + msg, detail=msg)


def _param_root(t):
    t = strip(t)
    while isinstance(t, tuple) and t[0] in ('fld', 'idx'):
        t = strip(t[1])
    return util.param_index(t)


def _is_fld_of_param(t, name):
    t = strip(t)
    return isinstance(t, tuple) and t[0] == 'fld' and t[2] == name and util.param_index(t[1]) is not None


def _is_norm_of_diff(d, p1, p2, path):
    d = strip(d)
    if not (isinstance(d, tuple) and d[0] == 'call' and cname(d[1]).endswith('::norm')):
        return False
    s = strip(d[2])
    if not (isinstance(s, tuple) and s[0] == 'call' and cname(s[1]).endswith('::sub')):
        return False
    roots = set()
    for a in (s[2], s[3]):
        a = strip(a)
        names = []
        while isinstance(a, tuple) and a[0] == 'fld':
            names.append(a[2])
            a = strip(a[1])
        if tuple(reversed(names)) != tuple(path):
            return False
        roots.add(util.param_index(a))
    return roots == {p1, p2}


def tol_ok(v):
    return isinstance(v, float) and 0.0 < v <= 1e-6 * (1 + 1e-12)


def run(ctx):
    prog = ctx.prog
    ctx.rule('R01.1', 'every push/extend into a returned solution vector is dominated by the true edge of the FK gate for that candidate and the requested pose')
    ctx.rule('R01.2', 'gate tolerances evaluate to 0 < tol <= 1e-6 (1 micrometre / 1 microradian)')
    ctx.rule('R01.3', 'gate body: true only on the false edges of |dist| > tol_d and |angle| > tol_a, comparing its two arguments')
    ctx.rule('R01.4', 'each angle slot passes f64::is_finite (true edge) before the push; the 5-DOF J6 slot receives no NaN constant')
    ctx.rule('R01.5', 'after the gate, solution elements are written only by the near-normaliser (adds multiples of 2*pi)')
    ctx.rule('R01.6', 'plain inverse stores each angle after the reduction loops to [-pi, pi]')
    ctx.rule('R01.7', 'panic-site census of the four inverse entry points (bounds, overflow, unwrap, index, sort)')
    methods = opw.opw_methods(prog)
    six, five = opw.intern_solvers(prog)
    ctx.require(six is not None and five is not None, 'internal 6-DOF / 5-DOF solvers')
    ctx.fn(six)
    ctx.fn(five)
    ctx.rule('R01.8', 'constants of the solvers that stand for pi or 2*pi are exact (the reduction to [-pi, pi] and the wrist flips rely on them)')
    util.pi_constants(ctx, 'R01.8', [six, five])
    full, xyz = gate_roles(ctx)
    xyz_inlined = False
    if len(full) >= 1 and not xyz:
        # the position-only gate written out inside the 5-DOF solver: its clauses as the symbolic run of the solver sees them
        f5, tail5 = opw.solver_tail(ctx, five, True)
        if f5 is not None:
            cl = tail5.gate_clauses()
            shape = bool(cl) and all(k == 'position' and op in ('Le', 'Lt') for k, op, tol in cl)
            tols = sorted({(tol.lo if hasattr(tol, 'lo') and tol.is_point() else None) for k, op, tol in cl}, key=lambda x: (x is None, x))
            ctx.check(shape, 'R01.3', 'inverse_intern_5_dof/position-gate', five.where(0), five.path,
                      'the position gate of the 5-DOF solver must be norm(requested translation - forward(candidate) translation) <= tolerance',
                      found=str(sorted({(k, op) for k, op, tol in cl})), detail='inlined: norm(a - b) <= tol')
            ctx.check(bool(tols) and all(t is not None and tol_ok(t) for t in tols), 'R01.2', 'inverse_intern_5_dof/position-gate', five.where(0), five.path,
                      'gate tolerances must be within the stated accuracy (0 < tol <= 1e-6)', found=tols, expected='<= 1e-6', detail=str(tols))
            gv = opw.tail_verdict(ctx, five, True, ('gate', 'gate-fresh'))
            ctx.check(gv[0], 'R01.1', 'inverse_intern_5_dof/returned', five.where(0), five.path,
                      'a candidate is returned without passing the FK cross-check against the requested pose: ' + gv[1], detail=gv[1])
            xyz_inlined = True
    ctx.require(len(full) >= 1 and (len(xyz) >= 1 or xyz_inlined), 'FK gate helpers (pose gate and position-only gate)')
    for b in full:
        ctx.fn(b)
        check_gate_body(ctx, b, 'full')
    for b in xyz:
        ctx.fn(b)
        check_gate_body(ctx, b, 'xyz')
    fullp = {b.path for b in full}
    xyzp = {b.path for b in xyz}
    fwd = methods['forward'].path

    n_push = 0
    for b, want_gate in ((six, 'full'), (five, 'xyz'), (methods['inverse_continuing'], 'full')):
        pushes = [(bi, t) for bi, t in b.calls() if cname(callee_name(t)) == 'Vec::push' and 'f64; 6]' in b.local_ty(_arg_local(t, 1) or 0)]
        for bi, t in pushes:
            n_push += 1
            elem = strip(b.op_term(t['args'][1], (bi, None)))
            key = '%s/push(%s)' % (b.path.split('::')[-1], show(elem, maxdepth=2))
            gated = False
            tols = None
            why = 'no dominating gate'
            for g, k, sw in b.guard_terms(bi):
                g = strip(g)
                if not (isinstance(g, tuple) and g[0] == 'call'):
                    continue
                if g[1] in fullp and want_gate == 'full':
                    a, c = strip(g[2]), strip(g[3])
                    pose_ok = util.is_param(a, 2)
                    fk_ok = isinstance(c, tuple) and c[0] == 'call' and c[1] == fwd and util.is_param(c[2], 1) and strip(c[3]) == elem
                    if opw.truth(k) is True and pose_ok and fk_ok:
                        gated = True
                        tols = (util.const_val(g[4]), util.const_val(g[5]))
                    else:
                        why = 'gate polarity=%s requested-pose=%s forward(candidate)=%s' % (opw.truth(k), pose_ok, fk_ok)
                if g[1] in xyzp and want_gate == 'xyz':
                    a, c = strip(g[2]), strip(g[3])
                    pose_ok = isinstance(a, tuple) and a[0] == 'fld' and a[2] == 'translation' and util.is_param(a[1], 2)
                    fk = strip(c[1]) if isinstance(c, tuple) and c[0] == 'fld' and c[2] == 'translation' else None
                    fk_ok = isinstance(fk, tuple) and fk[0] == 'call' and fk[1] == fwd and util.is_param(fk[2], 1) and strip(fk[3]) == elem
                    if opw.truth(k) is True and pose_ok and fk_ok:
                        gated = True
                        tols = (util.const_val(g[4]),)
                    else:
                        why = 'gate polarity=%s requested-position=%s forward(candidate)=%s' % (opw.truth(k), pose_ok, fk_ok)
                if g[1] in fullp and want_gate == 'xyz':
                    why = 'the 5-DOF solver gates with the full-pose check (it would reject every tool-axis-only solution)'
            if b is five and xyz_inlined and not gated and why == 'no dominating gate':
                continue          # the comparison is written out at the push: decided above from the symbolic run (R01.1 .../returned)
            ctx.check(gated, 'R01.1', key, b.where(bi), b.path, 'a candidate is pushed into the result without passing the FK cross-check against the requested pose: ' + why,
                      found=show(elem, maxdepth=3), detail='gated, tolerances %s' % (tols,))
            if gated:
                _no_write_after_gate_read(ctx, b, fwd, elem, bi, key)
                ctx.check(all(tol_ok(x) for x in tols), 'R01.2', key, b.where(bi), b.path,
                          'gate tolerances must be within the stated accuracy (0 < tol <= 1e-6)', found=tols, expected='<= 1e-6', detail=str(tols))
    ctx.floor('R01.1 push sites', n_push + (1 if xyz_inlined else 0), 3)

    # extend() in inverse_continuing: from the gated 6-DOF solver on a pose shifted by <= DISTANCE_TOLERANCE/8
    ic = methods['inverse_continuing']
    ctx.fn(ic)
    exts = [(bi, t) for bi, t in ic.calls() if cname(callee_name(t)).endswith('::extend')]
    for bi, t in exts:
        src = strip(ic.op_term(t['args'][1], (bi, None)))
        ok = isinstance(src, tuple) and src[0] == 'call' and src[1] == six.path
        detail = ''
        if ok:
            pose = strip(src[3])
            # pose built from the requested pose's translation + d[k], same rotation
            ps = mir.subterms(pose, lambda x: x[0] == 'param' and x[1] == 2)
            shifts = _shift_table(ic)
            ok = bool(ps) and shifts is not None and max(abs(x) for x in shifts) <= 1e-6 / 8 * (1 + 1e-9)
            detail = 'shifts %s' % (sorted(set(shifts)) if shifts else None)
            # component by component: (x + d[0], y + d[1], z + d[2]) of the requested translation, with the requested rotation
            comp_ok = None
            if isinstance(pose, tuple) and pose[0] == 'call' and cname(pose[1]).endswith('::from_parts') and len(pose) == 4:
                tr, rot = strip(pose[2]), strip(pose[3])
                comp_ok = isinstance(rot, tuple) and rot[0] == 'fld' and rot[2] == 'rotation' and util.is_param(rot[1], 2)
                if isinstance(tr, tuple) and tr[0] == 'call' and cname(tr[1]).endswith('Translation::new') and len(tr) == 5:
                    for k, (cmp_, want) in enumerate(zip(tr[2:], 'xyz')):
                        cmp_ = strip(cmp_)
                        good = isinstance(cmp_, tuple) and cmp_[0] == 'bin' and cmp_[1] == 'Add'
                        if good:
                            a, d_ = strip(cmp_[2]), strip(cmp_[3])
                            if not (isinstance(a, tuple) and a[0] == 'fld'):
                                a, d_ = d_, a
                            good = isinstance(a, tuple) and a[0] == 'fld' and a[2] == want and \
                                mir.contains(a[1], lambda y: y[0] == 'fld' and y[2] == 'translation' and util.is_param(strip(y[1]), 2)) and \
                                isinstance(d_, tuple) and d_[0] == 'idx' and util.const_val(d_[2]) == k
                        comp_ok = comp_ok and good
                else:
                    comp_ok = None
            if comp_ok is not None:
                ok = ok and comp_ok
                detail += '; components (x+d0, y+d1, z+d2), same rotation: %s' % comp_ok
        ctx.check(ok, 'R01.1', 'inverse_continuing/extend', ic.where(bi), ic.path,
                  'solutions may be taken over wholesale only from the gated 6-DOF solver on the requested pose shifted by at most DISTANCE_TOLERANCE/8', found=show(src, maxdepth=3), detail=detail)

    _finiteness(ctx, prog, six, 6)
    _finiteness(ctx, prog, five, 5)
    # J6 sources of the 5-DOF solver (direct call sites, and call sites of the entry points that forward their j6 parameter)
    j6_sinks = {five.path: 2}
    for m in ('inverse_5dof',):
        eb = methods[m]
        for bi, t in eb.calls():
            if t['callee'].get('resolved') == five.path and util.is_param(eb.op_term(t['args'][2], (bi, None)), 3):
                j6_sinks[eb.path] = 2
    for b in prog.bodies.values():
        for bi, t in b.calls():
            if t['callee'].get('resolved') in j6_sinks and t['callee'].get('resolved') != five.path:
                ctx.fn(b)
                a = b.op_term(t['args'][2], (bi, None))
                nan = mir.contains(a, lambda x: x[0] == 'const' and isinstance(x[2], float) and x[2] != x[2])
                ctx.check(not nan, 'R01.4', 'j6@%s->%s' % (b.path.split('::')[-1], t['callee']['resolved'].split('::')[-1]), b.where(bi), b.path,
                          'a NaN constant is passed as J6 of the 5-DOF solver: every candidate then carries a non-finite joint value', found=show(a, maxdepth=3), detail=show(a, maxdepth=3))
            if t['callee'].get('resolved') == five.path:
                ctx.fn(b)
                a = b.op_term(t['args'][2], (bi, None))
                nan = mir.contains(a, lambda x: x[0] == 'const' and isinstance(x[2], float) and x[2] != x[2])
                ctx.check(not nan, 'R01.4', 'j6@%s' % b.path.split('::')[-1], b.where(bi), b.path,
                          'a NaN constant is passed as J6 of the 5-DOF solver: every candidate then carries a non-finite joint value', found=show(a, maxdepth=3), detail=show(a, maxdepth=3))

    _post_gate_writes(ctx, prog, methods)
    # R01.5 relies on the near-normaliser changing an angle only by whole turns: re-check R04.3 here
    from . import C04
    ctx.rule('R04.3', 'near-normaliser: result == x (mod 2*pi) and |result - p| <= pi (abstract interpretation over cells, incl. narrow cells next to +-pi)')
    C04._near_normaliser(ctx, prog, C04._norm_role(ctx, prog))
    _normalisation(ctx, six, 6)
    _normalisation(ctx, five, 5)
    # The gate compares against forward(): an answer "reproduces the requested pose" only if forward() is the robot's
    # forward kinematics.  A change that re-defines forward() and the solver's joint conversion consistently passes every
    # gate rule above and still returns wrong joint values, so the clauses of C03 are re-checked here.
    from . import C03
    C03.run(ctx)
    entries = [methods[m].path for m in util.INVERSE_METHODS]
    n, nd, na = census.census(ctx, 'R01.7', entries)
    ctx.extra['census'] = {'sites': n, 'discharged_by_bounds_or_guards': nd, 'allow_listed': na}
    ctx.floor('R01.7 census sites', n, 120)      # 276 on the confirmed tree; rewrites that index less (iterators, helpers) legitimately lower it


def _arg_local(t, i):
    a = t['args'][i]
    if a['k'] in ('copy', 'move'):
        return a['place']['local']
    return None


def _shift_table(ic):
    import struct
    for i, j, st in ic.stmts():
        txt = st['rv']
        if txt['k'] == 'use' and txt['op'].get('k') == 'const' and 'raw' in txt['op'] and txt['op'].get('raw_ty', '').startswith('[[f64; 3]'):
            raw = bytes.fromhex(txt['op']['raw'])
            return list(struct.unpack('<%dd' % (len(raw) // 8), raw))
    # named const used in an into_iter call
    for bi, t in ic.calls():
        for a in t['args']:
            if a.get('k') == 'const' and 'raw' in a and a.get('raw_ty', '').startswith('[[f64; 3]'):
                raw = bytes.fromhex(a['raw'])
                return list(struct.unpack('<%dd' % (len(raw) // 8), raw))
    return None


def _finiteness(ctx, prog, b, nslots):
    """R01.4(a): the validity flag guarding the push is cleared on the false edge of is_finite(sols[si][ji]), ji in 0..nslots."""
    name = b.path.split('::')[-1]
    pushes = [(bi, t) for bi, t in b.calls() if cname(callee_name(t)) == 'Vec::push']
    if not pushes:
        # no push site to start from (the candidates are filtered by an iterator chain): the returned vectors, scenario by scenario
        tv = opw.tail_verdict(ctx, b, nslots == 5, ('finite-slots',))
        ctx.require(tv is not None, 'the finiteness check of %s (no push site and not interpretable)' % name)
        ctx.check(tv[0], 'R01.4', name + '/finite-slots', b.where(0), b.path, 'not every angle slot is checked for finiteness before the candidate is accepted: ' + tv[1], detail=tv[1])
        return
    bi, t = pushes[0]
    elem = strip(b.op_term(t['args'][1], (bi, None)))
    flag = None
    for g, k, sw in b.guard_terms(bi):
        g = strip(g)
        if isinstance(g, tuple) and g[0] == 'var' and b.local_ty(g[2]) == 'bool' and opw.truth(k) is True:
            flag = g[2]
    direct = [strip(g) for g, k, sw in b.guard_terms(bi) if isinstance(strip(g), tuple) and strip(g)[0] == 'call' and cname(strip(g)[1]) == 'f64::is_finite' and opw.truth(k) is True]
    ok = False
    msg = 'push is not guarded by a validity flag'
    if flag is not None:
        defs = b.defs().get(flag, [])
        trues = [d for d in defs if d[0] == 'st' and util.const_val(b.rv_term(d[3]['rv'], (d[1], d[2]))) in (1, True)]
        falses = [d for d in defs if d[0] == 'st' and util.const_val(b.rv_term(d[3]['rv'], (d[1], d[2]))) in (0, False)]
        others = [d for d in defs if d not in trues and d not in falses]
        covered = None
        good = len(trues) == 1 and len(falses) >= 1 and not others
        for d in falses:
            gs = [(strip(g), opw.truth(k)) for g, k, sw in b.guard_terms(d[1])]
            fin = [g for g, v in gs if isinstance(g, tuple) and g[0] == 'call' and cname(g[1]) == 'f64::is_finite' and v is False]
            if not fin:
                good = False
                continue
            x = strip(fin[-1][2])
            # x == sols[si][ji] with sols[si] == pushed element
            if isinstance(x, tuple) and x[0] == 'idx' and strip(x[1]) == elem:
                src = util.loop_source(x[2])
                r = util.range_of(src) if src is not None else None
                if r is not None and util.const_val(r[0]) == 0 and isinstance(util.const_val(r[1]), int):
                    covered = util.const_val(r[1])
            else:
                good = False
        ok = good and covered == nslots
        msg = 'flag cleared on !is_finite(candidate[ji]) for ji in 0..%s (needs 0..%d)' % (covered, nslots)
    if not ok:
        tv = opw.tail_verdict(ctx, b, nslots == 5, ('finite-slots',))
        if tv is not None:
            ok, msg = tv
    ctx.check(ok, 'R01.4', name + '/finite-slots', b.where(bi), b.path, 'not every angle slot is checked for finiteness before the candidate is accepted: ' + msg, detail=msg)


def _no_write_after_gate_read(ctx, b, fwd, elem, push_bi, key):
    """R01.1b: the vector that is pushed is the vector forward() was evaluated on - no store into the candidate on any path
    from the forward() call to the push (a re-verification computed *before* the last adjustment verifies a stale value)."""
    root = elem
    while isinstance(root, tuple) and root[0] in ('idx', 'fld', 'ref', 'deref', 'mutb'):
        root = root[1] if root[0] != 'mutb' else root[-1]
    if not (isinstance(root, tuple) and root[0] == 'var'):
        return
    cand = root[2]
    calls = [(bi2, t2) for bi2, t2 in b.calls() if t2['callee'].get('resolved') == fwd and mir.contains(b.op_term(t2['args'][1], (bi2, None)), lambda x: x == root)]
    bad = []
    for fbi, ft in calls:
        if not b.reaches(fbi, push_bi):
            continue
        nxt = ft.get('target')
        for i, j, st in b.stmts():
            if st['lhs']['local'] != cand:
                continue
            if i == fbi:
                continue                      # statements of the call's own block run before the call
            if nxt is not None and b.reaches(nxt, i, avoid=(fbi,)) and b.reaches(i, push_bi, avoid=(fbi,)):
                bad.append(b.where(i, j))
    ctx.check(not bad, 'R01.1', key + '/fresh', b.where(push_bi), b.path,
              'the candidate is modified between the forward() evaluation that verifies it and the push (%s): the verified value is not the returned one' % ', '.join(sorted(set(bad))),
              found=', '.join(sorted(set(bad))), detail='no store into the candidate between forward() and push')


def _post_gate_writes(ctx, prog, methods):
    """R01.5: in the entry points, mutable element access to solution vectors flows only into the near-normaliser."""
    norm_role = [b for b in opw.solver_helpers(prog) if b.arg_count == 2 and b.local_ty(1) == '&mut f64' and b.local_ty(2) == 'f64']
    ctx.require(len(norm_role) >= 1, 'near-normaliser helper fn(&mut f64, f64)')
    npaths = {b.path for b in norm_role}
    for m in util.INVERSE_METHODS:
        b = methods[m]
        bad = []
        n_norm = 0
        for bi, t in b.calls():
            n = cname(callee_name(t))
            if n == 'IndexMut::index_mut' and 'Vec<[f64; 6]>' in callee_name(t) + b.local_ty(_root(b, t['args'][0]) or 0):
                # the returned &mut [f64;6] must only be used as `&mut (*r)[j]` argument of the near-normaliser
                dest = t['dest']['local']
                for i, j, st in b.stmts():
                    if st['lhs']['local'] == dest and st['lhs']['proj']:
                        bad.append('direct store through solutions[..] at %s' % b.where(i, j))
                    if st['lhs']['proj'] and st['lhs']['proj'][0]['k'] == 'deref' and _derives(b, st['lhs']['local'], dest):
                        bad.append('store into a solution element at %s' % b.where(i, j))
        for bi, t in b.calls():
            if t['callee'].get('resolved') in npaths:
                n_norm += 1
        # direct indexed writes `solutions[i][j] = ..` lower to index_mut + store through the reference: covered above
        ctx.check(not bad, 'R01.5', m, b.where(0), b.path, 'verified solutions are modified after the FK gate: ' + '; '.join(bad), detail='%d near-normaliser calls, no other element write' % n_norm)


def _root(b, op):
    if op['k'] in ('copy', 'move'):
        l = op['place']['local']
        for _ in range(5):
            ds = b.defs().get(l, [])
            if len(ds) == 1 and ds[0][0] == 'st' and ds[0][3]['rv']['k'] == 'ref':
                pl = ds[0][3]['rv']['place']
                if not pl['proj']:
                    return pl['local']
                l = pl['local']
            else:
                return l
    return None


def _derives(b, l, src):
    """local l is a reborrow of *src (possibly indexed)"""
    for _ in range(5):
        if l == src:
            return True
        ds = b.defs().get(l, [])
        if len(ds) == 1 and ds[0][0] == 'st' and ds[0][3]['rv']['k'] in ('ref', 'use'):
            rv = ds[0][3]['rv']
            pl = rv['place'] if rv['k'] == 'ref' else rv['op'].get('place')
            if pl is None:
                return False
            l = pl['local']
        else:
            return False
    return False


def _normalisation(ctx, b, nslots):
    """R01.6: the stored angle passed the exit edges of both reduction loops; updates are -/+ 2*PI."""
    name = b.path.split('::')[-1]
    sols = [util.table_locals(b)[1]]
    # the reduced angle: an f64 local with self-referential +/- updates
    ang = []
    for l in util.locals_of_type(b, lambda t: t == 'f64'):
        ds = b.defs().get(l, [])
        if sum(1 for d in ds if d[0] == 'st' and d[3]['rv']['k'] == 'bin' and d[3]['rv']['op'] in ('Add', 'Sub') and d[3]['rv']['a'].get('place', {}).get('local') == l) >= 2:
            ang.append(l)
    if not ang and sols[0] is not None:
        # the reduction may live in a helper fn(f64) -> f64: every element store into the candidate table inside the
        # normalising loop then stores helper(x), and the helper is proved from its own control flow
        helper_stores = []
        other = 0
        for i, j, st in b.stmts():
            if st['lhs']['local'] == sols[0] and len(st['lhs']['proj']) == 2:
                t = strip(b.rv_term(st['rv'], (i, j)))
                if isinstance(t, tuple) and t[0] == 'call' and util.reduction_helper(ctx.prog, t[1]) is not None:
                    helper_stores.append((i, j, t))
        if helper_stores:
            okh = all(util.reduction_helper(ctx.prog, t[1]) for i, j, t in helper_stores)
            # the helper's argument is the value of that same slot
            same_slot = True
            for i, j, t in helper_stores:
                arg = strip(t[2])
                ctx.fn(ctx.prog.bodies[t[1]])
            ctx.check(okh, 'R01.6', name + '/reduce-to-pi', b.where(helper_stores[0][0], helper_stores[0][1]), b.path,
                      'angles are stored through a helper that does not confine them to [-pi, pi] by whole turns on every path',
                      detail='stored through %s: result dominated by the exits x <= PI and x >= -PI; updates by +-2*PI only' % helper_stores[0][2][1])
            return
    if not (len(ang) == 1 and sols[0] is not None):
        # not in the read shape (iterator chains, a helper returning the reduced row ..): what the solver returns, scenario by scenario
        tv = opw.tail_verdict(ctx, b, nslots == 5, ('reduce-to-pi',))
        if tv is not None:
            ctx.check(tv[0], 'R01.6', name + '/reduce-to-pi', b.where(0), b.path,
                      'every returned angle must be the candidate moved by whole turns into (-pi, pi]: ' + tv[1], detail=tv[1])
            return
    if not ctx.check(len(ang) == 1 and sols[0] is not None, 'R01.6', name + '/locals', b.where(0), b.path, 'normalisation loop not found (an f64 reduced by +/- 2*PI and stored back into the candidate array)'):
        return
    a = ang[0]
    two_pi = 2 * math.pi
    defs = b.defs().get(a, [])
    ok_updates = True
    n_up = 0
    for d in defs:
        if d[0] != 'st':
            ok_updates = False
            continue
        rv = d[3]['rv']
        if rv['k'] == 'bin' and rv['op'] in ('Add', 'Sub'):
            t = b.rv_term(rv, (d[1], d[2]))
            c = _const_value(t[3])
            self_ref = rv['a'].get('place', {}).get('local') == a
            gs = [(strip(g), opw.truth(k)) for g, k, sw in b.guard_terms(d[1])]
            if rv['op'] == 'Sub':
                cond = any(isinstance(g, tuple) and g[0] == 'bin' and g[1] == 'Gt' and abs((_const_value(g[3]) or 0) - math.pi) < 1e-15 and v is True for g, v in gs)
            else:
                cond = any(isinstance(g, tuple) and g[0] == 'bin' and g[1] == 'Lt' and abs((_const_value(g[3]) or 0) + math.pi) < 1e-15 and v is True for g, v in gs)
            if not (self_ref and c is not None and abs(c - two_pi) < 1e-15 and cond):
                ok_updates = False
            n_up += 1
    # the store back into sols[si][ji]
    stores = [(i, j, st) for i, j, st in b.stmts() if st['lhs']['local'] == sols[0] and len(st['lhs']['proj']) == 2 and
              st['rv']['k'] == 'use' and _copy_of(b, st['rv']['op'], a)]
    ok_store = False
    for i, j, st in stores:
        gs = [(strip(g), opw.truth(k)) for g, k, sw in b.guard_terms(i)]
        gt = any(isinstance(g, tuple) and g[0] == 'bin' and g[1] == 'Gt' and abs((_const_value(g[3]) or 0) - math.pi) < 1e-15 and v is False for g, v in gs)
        lt = any(isinstance(g, tuple) and g[0] == 'bin' and g[1] == 'Lt' and abs((_const_value(g[3]) or 0) + math.pi) < 1e-15 and v is False for g, v in gs)
        ok_store = gt and lt
    ctx.check(ok_updates and n_up == 2 and ok_store, 'R01.6', name + '/reduce-to-pi', b.where(stores[0][0], stores[0][1]) if stores else b.where(0), b.path,
              'angles must be stored only after leaving both reduction loops (x > PI: x -= 2*PI; x < -PI: x += 2*PI): updates ok=%s (%d), store on exit edges=%s' % (ok_updates, n_up, ok_store),
              detail='2 updates by 2*PI, store on !(x>PI) && !(x<-PI)')


def _copy_of(b, op, l):
    if op['k'] not in ('copy', 'move'):
        return False
    x = op['place']['local']
    if x == l:
        return True
    ds = b.defs().get(x, [])
    return len(ds) == 1 and ds[0][0] == 'st' and ds[0][3]['rv']['k'] == 'use' and ds[0][3]['rv']['op'].get('place', {}).get('local') == l


def _const_value(t):
    """evaluate constant float expressions such as 2.0 * PI or -PI"""
    t = strip(t)
    v = util.const_val(t)
    if isinstance(v, (int, float)) and not isinstance(v, bool):
        return float(v)
    if isinstance(t, tuple) and t[0] == 'bin' and t[1] in ('Mul', 'Add', 'Sub', 'Div'):
        a, b = _const_value(t[2]), _const_value(t[3])
        if a is None or b is None:
            return None
        return {'Mul': a * b, 'Add': a + b, 'Sub': a - b, 'Div': a / b if b else None}[t[1]]
    if isinstance(t, tuple) and t[0] == 'un' and t[1] == 'Neg':
        a = _const_value(t[2])
        return None if a is None else -a
    return None
