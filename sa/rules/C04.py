"""C04 - continuation IK returns solutions ordered by closeness to the previous joints."""
import math

from .. import absint, algebra, mir, util, opw
from ..absint import Iv, Interp
from ..facts import MachineryError
from ..mir import cname, strip, callee_name, show
from .C07 import grid

EXPLANATION = ('Decided from MIR: (R04.1) on every return path of inverse_continuing / inverse_continuing_5dof the returned vector is '
               'filter(sort(normalise(candidates))): the near-normalising loop nest covers 0..len x 0..6, precedes the sort, the sort precedes '
               'the limits filter and nothing is added to the vector afterwards (or the path delegates to a sibling entry point with that '
               'pipeline); (R04.2) solutions[s][j] is normalised against previous[j] of the same j; (R04.3) the near-normaliser is abstractly '
               'interpreted over (x, p) cells: the result is congruent to x modulo 2*pi and within pi (+ cell width) of p; (R04.4) the sort '
               'comparators are partial_cmp(cost(a), cost(b)) with one cost template, cost = sum |a_i - ref_i|, weights (1-w) and w; (R04.5) the '
               'reference vector is the constraint centres exactly when previous[0] is NaN (sentinel), otherwise the caller\'s previous; '
               '(R04.6) the unshifted solve comes first and is always taken over.  the helper that yields the centres reads the `centers` of the limits and nothing else of them, with the all-zero vector as its default (R04.5); (R04.9) every constructor of Constraints stores (or hands on) the sorting weight it is given and update_range leaves it alone, so the weight the comparator reads is the one configured.  Branch tracking along trajectories is numerical and not decided.')
NOT_DECIDED = 'that a trajectory followed step by step never switches branch (consequence of C02 numerics)'
ASSUMPTIONS = ['slice::sort_by sorts ascending w.r.t. the comparator and is a permutation', 'previous joints are finite (or the NaN sentinel in slot 0)']
TWO_PI = 2 * math.pi


def run(ctx):
    prog = ctx.prog
    _weight_storage(ctx, prog)
    ctx.rule('R04.1', 'every return path of the continuation entry points is filter(sort(normalise(candidates)))')
    ctx.rule('R04.2', 'solutions[s][j] is normalised against previous[j] (same j), for s in 0..len, j in 0..6')
    ctx.rule('R04.3', 'near-normaliser: result == x (mod 2*pi) and |result - p| <= pi (abstract interpretation over cells)')
    ctx.rule('R04.4', 'comparators are partial_cmp(cost(a), cost(b)) (ascending) with one cost template; cost = sum |a_i - ref_i| weighted (1-w) / w')
    ctx.rule('R04.5', 'reference vector = constraint centres iff previous[0] is NaN, else the caller\'s previous')
    ctx.rule('R04.6', 'the first (unshifted) solve is taken over unconditionally; its shift is the zero vector')
    methods = opw.opw_methods(prog)
    fr = {b.path for b in opw.filter_role(prog)}
    ctx.require(fr, 'limits-filter helper')
    norm = _norm_role(ctx, prog)
    sorter = _sort_role(ctx, prog)
    ctx.rule('R04.7', 'constants of the near-normaliser and of the continuation entry points that stand for pi or 2*pi are exact')
    util.pi_constants(ctx, 'R04.7', [norm] + [methods[m] for m in ('inverse_continuing', 'inverse_continuing_5dof')])
    conts = ['inverse_continuing', 'inverse_continuing_5dof']
    entry_paths = {methods[m].path: m for m in conts}
    for m in conts:
        b = methods[m]
        ctx.fn(b)
        work = [(b, t, d, None) for t, d, rb in b.return_values()]
        while work:
            b, t, d, caller = work.pop(0)
            t = strip(t)
            key = '%s/return@%s' % (m, _gkey(b, d)) if caller is None else '%s/return@%s/%s@%s' % (m, _gkey(caller[0], caller[2]), b.path.split('::')[-1], _gkey(b, d))
            if isinstance(t, tuple) and t[0] == 'call' and t[1] in entry_paths and t[1] != b.path and util.is_param(t[2], 1):
                ok = util.is_param(t[3], 2) and util.is_param(t[4], 3)
                ctx.check(ok, 'R04.1', key, b.where(d[1], d[2]), b.path, 'delegation to the sibling continuation must pass pose and previous unchanged', detail='delegates to ' + entry_paths[t[1]])
                continue
            if not (isinstance(t, tuple) and t[0] == 'call' and t[1] in fr) and caller is None and isinstance(t, tuple) and t[0] == 'call' and \
                    t[1] in prog.bodies and prog.bodies[t[1]].raw.get('impl_self') == opw.OPW and not prog.bodies[t[1]].raw.get('impl_trait') and \
                    prog.bodies[t[1]].kind != 'Closure' and len(t) > 2 and util.is_param(t[2], 1):
                # the tail (normalise, sort, filter) may live in a helper method of the solver: its return paths are judged
                hb = prog.bodies[t[1]]
                ctx.fn(hb)
                for t2, d2, rb2 in hb.return_values():
                    work.append((hb, t2, d2, (b, t, d)))
                continue
            if not (isinstance(t, tuple) and t[0] == 'call' and t[1] in fr):
                ctx.violation('R04.1', key, b.where(d[1], d[2]), b.path,
                              'a return path skips nearest-representative normalisation, sorting and the limits filter', found=show(t, maxdepth=3),
                              expected='filter(sort(normalise(candidates)))')
                continue
            fbb = d[1]
            vec = _vec_local(b, d[3]['args'][1])
            sorts = [(bi, c) for bi, c in b.calls() if c['callee'].get('resolved') == sorter.path and _vec_local(b, c['args'][1]) == vec]
            norms = [(bi, c) for bi, c in b.calls() if c['callee'].get('resolved') == norm.path]
            ok = len(sorts) == 1 and len(norms) >= 1
            msg = 'sort calls on the returned vector: %d, normalise calls: %d' % (len(sorts), len(norms))
            helper_site = None
            if len(sorts) == 1 and not [x for x in norms if _norm_target(b, x)[0] == vec]:
                # the normalisation of the whole vector may live in a helper fn(&mut Vec<Joints>, &Joints)
                helper_site = _normalise_helper_site(prog, b, vec, norm)
            if helper_site is not None:
                hbi, ht, hb, hinfo = helper_site
                ctx.fn(hb)
                sbb = sorts[0][0]
                pref = strip(b.op_term(ht['args'][hinfo['ref_param'] - 1], (hbi, None)))
                sref = strip(b.op_term(sorts[0][1]['args'][2], (sbb, None)))
                order_ok = b.dominates(hbi, sbb) and not b.reaches(sbb, hbi) and b.dominates(sbb, fbb)
                adds = [(bi, c) for bi, c in b.calls() if cname(callee_name(c)) in ('Vec::push', 'Extend::extend', 'Vec::insert', 'Vec::append', 'Vec::extend_from_slice')
                        and _vec_local(b, c['args'][0]) == vec and (b.reaches(hbi, bi) or b.reaches(sbb, bi)) and bi != hbi]
                ok = hinfo['rows_ok'] and hinfo['cols_ok'] and order_ok and not adds
                msg = 'helper %s: every row=%s every joint=%s normalise-before-sort=%s no-later-additions=%s' % (hb.path.split('::')[-1], hinfo['rows_ok'], hinfo['cols_ok'], order_ok, not adds)
                ctx.check(hinfo['same_j'], 'R04.2', m, hb.where(hinfo['site']), hb.path, 'each joint must be normalised against the previous value of the same joint',
                          found=hinfo['found'], detail=hinfo['found'])
                ctx.check(pref == sref, 'R04.5', m + '/same-reference', b.where(sbb), b.path,
                          'normalisation and sorting must use the same reference vector', found='%s vs %s' % (show(pref, maxdepth=3), show(sref, maxdepth=3)))
                _sentinel_via(ctx, b, m, sref, caller)
                ctx.check(ok, 'R04.1', key, b.where(fbb), b.path, 'the returned vector is not normalise -> sort -> filter: ' + msg, detail=msg)
                continue
            if ok:
                sbb = sorts[0][0]
                ok = b.dominates(sbb, fbb)
                nb = [x for x in norms if _norm_target(b, x)[0] == vec]
                ok = ok and len(nb) == 1
                if ok:
                    nbb, nt = nb[0]
                    x = strip(b.op_term(nt['args'][0], (nbb, None)))
                    p = strip(b.op_term(nt['args'][1], (nbb, None)))
                    _, rows_ok, j_idx = _norm_target(b, nb[0])
                    zipped = isinstance(j_idx, tuple) and j_idx and j_idx[0] == 'zip'
                    if zipped:
                        # paired by zip: same joint by construction, all six joints; present the reference as `ref[j]`
                        p = ('idx', j_idx[1], ('const', 'marker', 'zip', None))
                        j_idx = ('const', 'marker', 'zip', None)
                    jr = util.range_of(util.loop_source(j_idx)) if j_idx is not None and util.loop_source(j_idx) is not None else None
                    dom_ok = rows_ok and (zipped or (jr is not None and util.const_val(jr[0]) == 0 and util.const_val(jr[1]) == 6))
                    # the loop precedes the sort: the sort is not inside the loop and the loop header dominates it
                    order_ok = not b.reaches(sbb, nbb) and _loop_header_dominates(b, nbb, sbb)
                    # nothing is added to the vector after normalisation started
                    adds = [(bi, c) for bi, c in b.calls() if cname(callee_name(c)) in ('Vec::push', 'Extend::extend', 'Vec::insert', 'Vec::append', 'Vec::extend_from_slice')
                            and _vec_local(b, c['args'][0]) == vec and (b.reaches(nbb, bi) or b.reaches(sbb, bi))]
                    ok = dom_ok and order_ok and not adds
                    msg = 'loop domains 0..len x 0..6=%s normalise-before-sort=%s no-later-additions=%s' % (dom_ok, order_ok, not adds)
                    # R04.2
                    pj = strip(p)
                    same_j = isinstance(pj, tuple) and pj[0] == 'idx' and j_idx is not None and strip(pj[2]) == strip(j_idx)
                    ctx.check(same_j, 'R04.2', m, b.where(nbb), b.path, 'each joint must be normalised against the previous value of the same joint',
                              found='%s vs %s' % (show(x, maxdepth=4), show(p, maxdepth=4)), detail=show(p, maxdepth=3))
                    # reference of the sort is the same vector as the reference of the normalisation
                    sref = strip(b.op_term(sorts[0][1]['args'][2], (sbb, None)))
                    ctx.check(isinstance(pj, tuple) and pj[0] == 'idx' and strip(pj[1]) == sref, 'R04.5', m + '/same-reference', b.where(sbb), b.path,
                              'normalisation and sorting must use the same reference vector', found='%s vs %s' % (show(pj, maxdepth=3), show(sref, maxdepth=3)))
                    _sentinel_via(ctx, b, m, sref, caller)
            ctx.check(ok, 'R04.1', key, b.where(fbb), b.path, 'the returned vector is not normalise -> sort -> filter: ' + msg, detail=msg)

    _near_normaliser(ctx, prog, norm)
    _comparators(ctx, prog, sorter)
    _superset(ctx, prog, methods)
    ctx.rule('R04.8', 'a sentinel previous-vector constant (NaN in entry 0) is finite in entries 1..5')
    opw.sentinel_constants(ctx, 'R04.8')


def _gkey(b, d):
    parts = []
    for g, k, sw in b.guard_terms(d[1]):
        g = strip(g)
        if isinstance(g, tuple) and g[0] == 'bin':
            parts.append('%s%s' % (show(g, maxdepth=4).replace(' ', ''), '' if opw.truth(k) is not False else '=false'))
    return '&'.join(parts) or 'always'


def _norm_role(ctx, prog):
    r = [b for b in opw.solver_helpers(prog) if b.arg_count == 2 and b.local_ty(1) == '&mut f64' and b.local_ty(2) == 'f64']
    ctx.require(len(r) == 1, 'near-normaliser fn(&mut f64, f64) called by the solver')
    ctx.fn(r[0])
    return r[0]


def _sort_role(ctx, prog):
    r = [b for b in prog.bodies.values() if b.raw.get('impl_self') == opw.OPW and not b.raw.get('impl_trait') and
         any(cname(callee_name(t)) == 'slice::sort_by' for _, t in b.calls())]
    ctx.require(len(r) == 1, 'sorting helper of OPWKinematics (calls slice::sort_by)')
    ctx.fn(r[0])
    return r[0]


def _vec_local(b, op):
    """the Vec local an operand (value, & or &mut chain) refers to"""
    if op['k'] not in ('copy', 'move'):
        return None
    l = op['place']['local']
    for _ in range(8):
        ds = b.defs().get(l, [])
        if len(ds) == 1 and ds[0][0] == 'st':
            rv = ds[0][3]['rv']
            if rv['k'] == 'ref':
                l = rv['place']['local']
                continue
            if rv['k'] == 'use' and rv['op']['k'] in ('copy', 'move') and not rv['op']['place']['proj']:
                l = rv['op']['place']['local']
                continue
        return l
    return l


def _vec_local_through_deref(b, op):
    """as _vec_local, also through `&mut *vec` written as DerefMut::deref_mut(&mut vec) / as_mut_slice (a Vec handed on as a slice)"""
    l = _vec_local(b, op)
    for _ in range(3):
        src = [blk['term'] for blk in b.blocks if (blk.get('term') or {}).get('k') == 'call' and (blk['term'].get('dest') or {}).get('local') == l and
               not (blk['term'].get('dest') or {}).get('proj')]
        if len(src) == 1 and cname(callee_name(src[0])) in ('DerefMut::deref_mut', 'Vec::as_mut_slice', 'AsMut::as_mut') and src[0]['args']:
            l = _vec_local(b, src[0]['args'][0])
        else:
            break
    return l


def _normalise_helper_site(prog, b, vec, norm):
    """(block, call, helper body, info) when b hands its solution vector `vec` by &mut to a crate-local helper that applies the
    near-normaliser to every joint of every row against the same joint of a reference parameter."""
    for bi, t in b.calls():
        hb = prog.bodies.get(t['callee'].get('resolved')) if t['callee'].get('local') else None
        if hb is None or hb.kind == 'Closure' or hb.path == norm.path:
            continue
        pos = [k for k, a in enumerate(t['args'], start=1) if a.get('k') in ('copy', 'move') and _vec_local_through_deref(b, a) == vec]
        hty = hb.local_ty(pos[0]).replace(' ', '') if len(pos) == 1 else ''
        if len(pos) != 1 or not ('Vec<[f64;6]>' in hty or hty == '&mut[[f64;6]]') or not hty.startswith('&mut'):
            continue
        sites = [(ci, ct) for ci, ct in hb.calls() if ct['callee'].get('resolved') == norm.path]
        if len(sites) != 1:
            continue
        ci, ct = sites[0]
        x = strip(hb.op_term(ct['args'][0], (ci, None)))
        p = strip(hb.op_term(ct['args'][1], (ci, None)))
        info = {'site': ci, 'rows_ok': False, 'cols_ok': False, 'same_j': False, 'ref_param': None, 'found': '%s vs %s' % (show(x, maxdepth=5), show(p, maxdepth=5))}

        def rows_of(row):
            """row is an element of the whole vector parameter: loop element of iter_mut() over it, or vec[s] for s in 0..len"""
            src = util.loop_source(row)
            if src is not None:
                base, ad = util.iter_chain(src)
                return util.is_param(base, pos[0]) and all(a in ('iter_mut', 'into_iter') for a in ad) and 'iter_mut' in ad
            r = strip(row)
            if isinstance(r, tuple) and r[0] == 'call' and cname(r[1]) == 'IndexMut::index_mut' and util.is_param(r[2], pos[0]):
                s2 = util.loop_source(r[3])
                rg = util.range_of(s2) if s2 is not None else None
                return rg is not None and util.const_val(rg[0]) == 0 and not [a for a in rg[2] if a != 'into_iter'] and \
                    isinstance(strip(rg[1]), tuple) and strip(rg[1])[0] == 'call' and cname(strip(rg[1])[1]).split('::')[-1] == 'len' and util.is_param(strip(rg[1])[2], pos[0])
            return False
        # form 1: for (angle, &near) in row.iter_mut().zip(previous.iter())
        if isinstance(x, tuple) and x[0] == 'fld' and x[2] == '0' and isinstance(p, tuple) and p[0] == 'fld' and p[2] == '1' and strip(x[1]) == strip(p[1]):
            zsrc = util.loop_source(x[1])
            z = strip(zsrc) if zsrc is not None else None
            while isinstance(z, tuple) and z[0] == 'call' and cname(z[1]).split('::')[-1] == 'into_iter':
                z = strip(z[2])
            if isinstance(z, tuple) and z[0] == 'call' and cname(z[1]) == 'Iterator::zip' and len(z) == 4:
                lb, lad = util.iter_chain(z[2])
                rb, rad = util.iter_chain(z[3])
                rp = util.param_index(rb)
                if all(a in ('iter_mut', 'into_iter') for a in lad) and all(a in ('iter', 'into_iter', 'copied', 'cloned') for a in rad) and rp is not None and rp != pos[0]:
                    info.update(rows_ok=rows_of(lb), cols_ok=True, same_j=True, ref_param=rp)
        # form 2: row[j] against previous[j], j in 0..6
        elif isinstance(x, tuple) and x[0] == 'idx' and isinstance(p, tuple) and p[0] == 'idx':
            jr = util.range_of(util.loop_source(x[2])) if util.loop_source(x[2]) is not None else None
            rp = util.param_index(p[1])
            row = strip(x[1])
            while isinstance(row, tuple) and row[0] == 'mutb':
                row = strip(row[2])
            if rp is not None and rp != pos[0]:
                info.update(rows_ok=rows_of(row), cols_ok=jr is not None and util.const_val(jr[0]) == 0 and util.const_val(jr[1]) == 6 and not [a for a in jr[2] if a != 'into_iter'],
                            same_j=strip(x[2]) == strip(p[2]), ref_param=rp)
        if info['ref_param'] is not None:
            return bi, t, hb, info
    return None


def _vec_id(v):
    """local number of the vector a term roots in: a mutably borrowed local, or a (by-value, mutable) parameter"""
    if isinstance(v, tuple) and v[0] == 'mutb':
        return v[1]
    if isinstance(v, tuple) and v[0] in ('param', 'mparam'):
        return v[1]
    return None


def _norm_target(b, site):
    """(vec_local, row_domain_ok, j_term) of the element handed to the near-normaliser:
    `&mut vec[s][j]` with s in 0..vec.len(), or `&mut row[j]` with row from vec.iter_mut()."""
    bi, t = site
    term = strip(b.op_term(t['args'][0], (bi, None)))
    if isinstance(term, tuple) and term[0] == 'fld' and term[2] == '0':
        # for (angle, &near) in row.iter_mut().zip(reference.iter()): joint k of the row against joint k of the reference
        p = strip(b.op_term(t['args'][1], (bi, None)))
        zsrc = util.loop_source(term[1])
        z = strip(zsrc) if zsrc is not None else None
        while isinstance(z, tuple) and z[0] == 'call' and cname(z[1]).split('::')[-1] == 'into_iter':
            z = strip(z[2])
        if isinstance(p, tuple) and p[0] == 'fld' and p[2] == '1' and strip(p[1]) == strip(term[1]) and \
                isinstance(z, tuple) and z[0] == 'call' and cname(z[1]) == 'Iterator::zip' and len(z) == 4:
            lb, lad = util.iter_chain(z[2])
            rb, rad = util.iter_chain(z[3])
            if all(a in ('iter_mut', 'into_iter') for a in lad) and all(a in ('iter', 'into_iter', 'copied', 'cloned') for a in rad):
                src = util.loop_source(lb)
                if src is not None:
                    base, ad = util.iter_chain(src)
                    v = base
                    while isinstance(v, tuple) and (v[0] in ('ref', 'deref') or (v[0] == 'call' and cname(v[1]) in ('DerefMut::deref_mut', 'Deref::deref'))):
                        v = v[1] if v[0] in ('ref', 'deref') else v[2]
                    vec = _vec_id(v)
                    dom = vec is not None and all(a in ('iter_mut', 'into_iter') for a in ad) and 'iter_mut' in ad
                    return vec, dom, ('zip', strip(rb))
        return None, False, None
    if not (isinstance(term, tuple) and term[0] == 'idx'):
        return None, False, None
    j = term[2]
    inner = strip(term[1])
    while isinstance(inner, tuple) and inner[0] == 'mutb':
        inner = strip(inner[2])
    if isinstance(inner, tuple) and inner[0] == 'call' and cname(inner[1]) == 'IndexMut::index_mut':
        v = inner[2]
        while isinstance(v, tuple) and v[0] in ('ref', 'deref'):
            v = v[1]
        vec = _vec_id(v)
        s_idx = inner[3]
        src = util.loop_source(s_idx)
        sr = util.range_of(src) if src is not None else None
        dom = sr is not None and util.const_val(sr[0]) == 0 and vec is not None and _is_len_of(b, sr[1], vec) and not [a for a in sr[2] if a != 'into_iter']
        return vec, dom, j
    src = util.loop_source(inner)
    if src is not None:
        base, ad = util.iter_chain(src)
        v = base
        while isinstance(v, tuple) and (v[0] in ('ref', 'deref') or (v[0] == 'call' and cname(v[1]) in ('DerefMut::deref_mut', 'Deref::deref'))):
            v = v[1] if v[0] in ('ref', 'deref') else v[2]
        vec = _vec_id(v)
        dom = vec is not None and all(a in ('iter_mut', 'into_iter') for a in ad) and 'iter_mut' in ad
        return vec, dom, j
    return None, False, None


def _is_len_of(b, t, vec):
    t = strip(t)
    if isinstance(t, tuple) and t[0] == 'call' and cname(t[1]) == 'Vec::len':
        v = t[2]
        while isinstance(v, tuple) and v[0] in ('ref', 'deref'):
            v = v[1]
        return _vec_id(v) == vec
    return False


def _loop_header_dominates(b, inner_bb, later_bb):
    # some switch on Iterator::next dominating inner_bb (the loop) also dominates later_bb on its exit edge
    for d, key in b.guards(inner_bb):
        t = b.switch_atom(d)
        if 'next' in show(t, maxdepth=3) and b.dominates(d, later_bb) and later_bb in b.edge_dominated(d, 0):
            return True
    return False


def _sentinel_via(ctx, b, m, sref, caller):
    """the reference vector as the entry point sees it: inside a tail helper it is a parameter, the entry point's argument counts"""
    if caller is not None:
        pi = util.param_index(sref)
        cb, ct, cd = caller
        if pi is not None and 1 + pi < len(ct):
            return _sentinel(ctx, cb, m, strip(ct[1 + pi]))
    return _sentinel(ctx, b, m, sref)


def _sentinel(ctx, b, m, sref):
    """R04.5: the reference local has two definitions selected by is_nan(prev[0])"""
    t = sref
    while isinstance(t, tuple) and t[0] in ('ref', 'deref'):
        t = t[1]
    ok = False
    found = show(sref, maxdepth=3)
    if isinstance(t, tuple) and t[0] == 'var':
        l = t[2]
        kinds = {}
        for d in b.defs().get(l, []):
            val = strip(b._def_term(d))
            gs = [(strip(g), opw.truth(k)) for g, k, sw in b.guard_terms(d[1])]
            nan = [v for g, v in gs if isinstance(g, tuple) and g[0] == 'call' and cname(g[1]) == 'f64::is_nan' and
                   isinstance(strip(g[2]), tuple) and strip(g[2])[0] == 'idx' and util.const_val(strip(g[2])[2]) == 0 and util.is_param(strip(g[2])[1], 3)]
            if util.is_param(val, 3) and nan == [False]:
                kinds['prev'] = True
            elif isinstance(val, tuple) and val[0] == 'call' and 'constraint' in val[1].lower() and nan == [True]:
                kinds['centres'] = True
                _centres_helper(ctx, val[1])
            else:
                kinds['other:' + show(val, maxdepth=3)] = True
        ok = set(kinds) == {'prev', 'centres'}
        found = sorted(kinds)
    elif isinstance(t, tuple) and t[0] == 'call' and t[1] in ctx.prog.bodies and len(t) == 4 and util.is_param(t[2], 1) and util.is_param(t[3], 3):
        # the choice may live in a helper fn(&self, &Joints) -> &Joints handed the caller's previous
        hb = ctx.prog.bodies[t[1]]
        ctx.fn(hb)
        kinds = {}
        for val, d, rb in hb.return_values():
            val = strip(val)
            gs = [(strip(g), opw.truth(k)) for g, k, sw in hb.guard_terms(d[1])] if d else []
            nan = [v for g, v in gs if isinstance(g, tuple) and g[0] == 'call' and cname(g[1]) == 'f64::is_nan' and
                   isinstance(strip(g[2]), tuple) and strip(g[2])[0] == 'idx' and util.const_val(strip(g[2])[2]) == 0 and util.is_param(strip(g[2])[1], 2)]
            if util.is_param(val, 2) and nan == [False]:
                kinds['prev'] = True
            elif isinstance(val, tuple) and val[0] == 'call' and 'constraint' in val[1].lower() and nan == [True]:
                kinds['centres'] = True
                _centres_helper(ctx, val[1])
            else:
                kinds['other:' + show(val, maxdepth=3)] = True
        ok = set(kinds) == {'prev', 'centres'}
        found = sorted(kinds)
    ctx.check(ok, 'R04.5', m + '/sentinel', b.where(0), b.path,
              'the reference vector must be the constraint centres exactly when previous[0] is NaN and the caller\'s previous otherwise', found=found, detail=str(found))


def _near_normaliser(ctx, prog, norm):
    deg = math.pi / 180
    w = (1.0 if ctx.tier == 'thorough' else 5.0) * deg
    xs = grid(-math.pi, math.pi, w)
    ps = grid(-2 * math.pi, 2 * math.pi, w)
    # narrow cells next to +-pi (inside and outside the 0.01 degree singularity band) against references of either sign:
    # a near-normaliser that treats "close to pi" like "equal to pi" negates such values, which is not a 2*pi shift
    fine = []
    for d0, d1 in ((0.5e-4, 1.5e-4), (2e-4, 4e-4), (1e-3, 2e-3), (1e-8, 1e-6)):
        for sgn in (1, -1):
            lo, hi = sorted((sgn * (math.pi - d1), sgn * (math.pi - d0)))
            for pc in ((-0.2, -0.1), (0.1, 0.2), (0.0, 0.0), (-3.0, -2.9), (2.9, 3.0), (-6.0, -5.9), (5.9, 6.0)):
                fine.append(((lo, hi), pc))
    holds = bad = und = 0
    for X, Pc in [(X, Pc) for X in xs for Pc in ps] + fine:
        if True:
            I = Interp(prog, {}, fuel=50000)
            try:
                outs = I.run_with_cells(norm.path, [('refval', Iv(*X), ()), Iv(*Pc)], [0])
            except absint.Undecided:
                und += 1
                continue
            except absint.Unsupported as e:
                raise MachineryError('near-normaliser could not be interpreted: %s' % e)
            ok_all = True
            definite_bad = None
            for o, back in outs:
                r = back[0]
                if not isinstance(r, Iv):
                    ok_all = False
                    continue
                # r - x must be k*2pi (within rounding), |r - p| <= pi + 2w
                d_lo, d_hi = r.lo - X[1], r.hi - X[0]
                k = round(((d_lo + d_hi) / 2) / TWO_PI)
                cong = abs(d_lo - k * TWO_PI) <= (X[1] - X[0]) + 1e-9 and abs(d_hi - k * TWO_PI) <= (X[1] - X[0]) + 1e-9
                # x -> -x allowed only at |x| == pi exactly (measure zero): not representable in open cells
                dist_hi = max(abs(r.lo - Pc[1]), abs(r.hi - Pc[0]), abs(r.lo - Pc[0]), abs(r.hi - Pc[1]))
                near = dist_hi <= math.pi + 2 * w + 1e-9
                dist_lo = 0.0 if (r.lo <= Pc[1] and Pc[0] <= r.hi) else min(abs(r.lo - Pc[1]), abs(Pc[0] - r.hi))
                if not (cong and near):
                    ok_all = False
                    if not o.cmp_forked and (not cong or dist_lo > math.pi + 1e-9):
                        definite_bad = (r, k)
            key = 'x[%.4f,%.4f]/p[%.4f,%.4f]' % (X + Pc)
            if definite_bad is not None:
                bad += 1
                if bad <= 10:
                    ctx.violation('R04.3', key, norm.where(0), norm.path,
                                  'for every (x, p) in the cell the normalised angle %r is not the 2*pi-representative of x nearest to p' % (definite_bad[0],),
                                  found=repr(definite_bad[0]))
            elif ok_all:
                holds += 1
                if holds % 997 == 1:
                    ctx.ok('R04.3', key, norm.where(0), 'congruent and within pi of p')
            else:
                und += 1
    ctx.evaluations += holds + bad + und
    ctx.extra['near_normaliser_cells'] = {'width_deg': w / deg, 'holds': holds, 'definite_failures': bad, 'undecided': und}
    ctx.require(bad > 0 or holds + bad >= 0.5 * (holds + bad + und), 'E4 precision for the near-normaliser: %d of %d cells decided' % (holds + bad, holds + bad + und))
    ctx.floor('R04.3 decided cells', holds + bad, 2000)
    for i in range(20):
        ctx.nontrivial.add(('R04.3', 'cellgroup%d' % i))


def _comparators(ctx, prog, sorter):
    cls = [c for c in util.closure_bodies(prog, sorter.path)]
    sort_calls = [(bi, t) for bi, t in sorter.calls() if cname(callee_name(t)) == 'slice::sort_by']
    ctx.floor('R04.4 sort_by sites', len(sort_calls), 1)
    dist = [b for b in opw.solver_helpers(prog) if b.arg_count == 2 and b.local_ty(0) == 'f64' and
            '[f64; 6]' in b.local_ty(1) and '[f64; 6]' in b.local_ty(2)]
    ctx.require(len(dist) == 1, 'joint-space distance helper fn(&[f64;6], &[f64;6]) -> f64')
    dist = dist[0]
    ctx.fn(dist)
    # distance = sum over zip of |a - b|
    rv = [strip(x[0]) for x in dist.return_values()]
    ok = False
    found = show(rv[0], maxdepth=8) if rv else None
    if len(rv) == 1:
        names = []
        t = rv[0]
        while isinstance(t, tuple) and t[0] in ('call', 'cast'):
            if t[0] == 'cast':
                t = strip(t[1])
                continue
            names.append(cname(t[1]))
            clos = [x for x in t[2:] if isinstance(strip(x), tuple) and strip(x)[0] == 'agg' and str(strip(x)[1]).startswith('closure:')]
            t = strip(t[2])
        dcl = util.closure_bodies(prog, dist.path)
        abs_ok = False
        if len(dcl) == 1:
            r2 = [strip(x[0]) for x in dcl[0].return_values()]
            abs_ok = len(r2) == 1 and isinstance(r2[0], tuple) and r2[0][0] == 'call' and cname(r2[0][1]) == 'f64::abs' and \
                isinstance(strip(r2[0][2]), tuple) and cname(strip(r2[0][2])[1]).endswith('::sub') if isinstance(strip(r2[0][2]), tuple) and strip(r2[0][2])[0] == 'call' else False
        ok = names[:3] == ['Iterator::sum', 'Iterator::map', 'Iterator::zip'] and abs_ok
    if not ok and len(rv) == 1 and isinstance(rv[0], tuple) and rv[0][0] == 'var':
        # accumulator form: sum = 0.0; for i in 0..6 { sum += |a[i] - b[i]| }; sum
        defs = [d for d in dist.defs().get(rv[0][2], []) if d[4]]
        terms = [strip(dist._def_term(d)) for d in defs]
        zero = [t for t in terms if util.const_val(t) == 0.0]
        acc = [t for t in terms if isinstance(t, tuple) and t[0] == 'bin' and t[1] == 'Add']
        if len(terms) == 2 and len(zero) == 1 and len(acc) == 1:
            a, b = strip(acc[0][2]), strip(acc[0][3])
            if b == rv[0]:
                a, b = b, a
            d_ok = False
            if a == rv[0] and isinstance(b, tuple) and b[0] == 'call' and cname(b[1]) == 'f64::abs':
                df = strip(b[2])
                if isinstance(df, tuple) and df[0] == 'bin' and df[1] == 'Sub':
                    x, y = strip(df[2]), strip(df[3])
                    if isinstance(x, tuple) and isinstance(y, tuple) and x[0] == 'idx' and y[0] == 'idx' and strip(x[2]) == strip(y[2]):
                        ps = sorted(p for p in (util.param_index(x[1]), util.param_index(y[1])) if p)
                        src = util.loop_source(x[2])
                        r = util.range_of(src) if src is not None else None
                        d_ok = ps == [1, 2] and r is not None and util.const_val(r[0]) == 0 and util.const_val(r[1]) == 6 and r[2] in ([], ['into_iter'])
            ok = d_ok
            found = 'accumulator: ' + show(acc[0], maxdepth=6)
    ctx.check(ok, 'R04.4', 'distance', dist.where(0), dist.path, 'the joint-space distance must be the sum over all joints of |a_i - b_i|', found=found, detail=found or '')
    for bi, t in sort_calls:
        cb, caps = util.closure_of_term(prog, sorter.op_term(t['args'][1], (bi, None)))
        if cb is None:
            ctx.violation('R04.4', 'comparator@%s' % sorter.where(bi), sorter.where(bi), sorter.path, 'comparator is not a closure')
            continue
        ctx.fn(cb)
        rv = [strip(x[0]) for x in cb.return_values()]
        key = 'comparator/' + cb.path.split('::')[-1]
        ok = False
        found = show(rv[0], maxdepth=6) if rv else None
        if len(rv) == 1 and isinstance(rv[0], tuple) and rv[0][0] == 'call' and cname(rv[0][1]) == 'Option::unwrap_or':
            pc = strip(rv[0][2])
            if isinstance(pc, tuple) and pc[0] == 'call' and cname(pc[1]) == 'PartialOrd::partial_cmp':
                A, B = strip(pc[2]), strip(pc[3])
                # template: B with closure param 3 (and *_b locals) renamed to param 2 (and *_a) equals A
                Bn = _rename_b_to_a(cb, _expand_vars(cb, B))
                An = _rename_b_to_a(cb, _expand_vars(cb, A), identity=True)
                ok = Bn == An and mir.contains(A, lambda x: x[0] == 'param' and x[1] == 2) and not mir.contains(A, lambda x: x[0] == 'param' and x[1] == 3)
        ctx.check(ok, 'R04.4', key, cb.where(0), cb.path,
                  'the comparator must be cost(a).partial_cmp(cost(b)) with the same cost formula on both sides (ascending order)', found=found, detail=found or '')
        # the cost written once as a local closure `cost(x)` and called on both sides: its body is the cost formula
        if rv and ok:
            A0 = strip(strip(rv[0][2])[2])
            if isinstance(A0, tuple) and A0[0] == 'call' and len(A0) >= 4:
                kb, kcaps = util.closure_of_term(prog, A0[2]) if A0[1] not in prog.bodies else (None, None)
                if kb is None and isinstance(A0[1], str) and '{closure' in A0[1] and A0[1] in prog.bodies:
                    kb = prog.bodies[A0[1]]
                if kb is not None and kb.path.startswith(sorter.path + '::') and _deep(A0[3], lambda y: y[0] == 'param' and y[1] in (2, 3)):
                    krv = [strip(x[0]) for x in kb.return_values()]
                    if len(krv) == 1:
                        ctx.fn(kb)
                        cb = kb
                        rv = [('call', 'Option::unwrap_or', ('call', 'PartialOrd::partial_cmp', krv[0], krv[0]))]
                    elif len(krv) > 1:
                        # one cost closure that chooses its formula itself (`match &self.constraints { Some(c) if c.sorting_weight != BY_PREV
                        # => weighted, _ => distance to previous }`): every formula it can return is judged like a comparator's
                        ctx.fn(kb)
                        for n_, k_ in enumerate(krv):
                            _judge_cost(ctx, kb, sorter, dist, [('call', 'Option::unwrap_or', ('call', 'PartialOrd::partial_cmp', k_, k_))], '%s/case%d' % (key, n_))
                        continue
        _judge_cost(ctx, cb, sorter, dist, rv if ok else [], key)


def _judge_cost(ctx, cb, sorter, dist, rv, key):
    ok = bool(rv)
    if True:
        # plain comparator (no weights): the cost is the distance to `previous`
        if rv and ok and not mir.contains(rv[0], lambda x: x[0] == 'bin' and x[1] == 'Mul'):
            A0 = strip(strip(rv[0][2])[2])
            okp, whyp = _cost_term(cb, sorter, dist, A0, None, 'prev')
            ctx.check(okp, 'R04.4', key + '/reference', cb.where(0), cb.path,
                      'without a sorting weight the solutions must be ordered by their distance to `previous`: ' + whyp, found=show(A0, maxdepth=5), detail='distance(x, previous)')
        # weights
        if mir.contains(rv[0], lambda x: x[0] == 'bin' and x[1] == 'Mul') if rv else False:
            A = strip(strip(rv[0][2])[2])
            ring = algebra.Ring()
            P = ring.nf(algebra.canon(A))
            # expect  prev*(1-w) + constr*w  : coefficient structure
            # monomials: prev (coef 1), prev*w (coef -1), centre*w (coef 1); the atoms are identified by this structure
            okw = False
            why = ''
            mons = list(P.m.items())
            deg1 = [(k, v) for k, v in mons if sum(p for a, p in k) == 1]
            deg2 = [(k, v) for k, v in mons if sum(p for a, p in k) == 2 and len(k) == 2]
            if len(mons) == 3 and len(deg1) == 1 and len(deg2) == 2 and float(deg1[0][1]) == 1.0 and sorted(float(v) for k, v in deg2) == [-1.0, 1.0]:
                prev_atom = deg1[0][0][0][0]
                neg = [k for k, v in deg2 if float(v) == -1.0][0]
                pos = [k for k, v in deg2 if float(v) == 1.0][0]
                neg_atoms, pos_atoms = {a for a, p in neg}, {a for a, p in pos}
                common = neg_atoms & pos_atoms
                if len(common) == 1 and prev_atom in neg_atoms:
                    w_atom = next(iter(common))
                    centre_atom = next(iter(pos_atoms - common))
                    okp, whyp = _cost_term(cb, sorter, dist, prev_atom, w_atom, 'prev')
                    okc, whyc = _cost_term(cb, sorter, dist, centre_atom, w_atom, 'centre')
                    okw = okp and okc
                    why = '; '.join(x for x in (whyp, whyc) if x)
                else:
                    why = 'no single weight atom shared by the two products'
            else:
                why = 'not of the form p + (-1)*p*w + c*w'
            ctx.check(okw, 'R04.4', key + '/weights', cb.where(0), cb.path,
                      'the weighted cost must be prev_distance*(1 - w) + centre_distance*w, with prev_distance = distance(x, previous) and centre_distance = '
                      'distance(x, constraint centres) (a distance may be replaced by 0 only where its weight is 0): ' + why,
                      found=P.show(lambda a: show(a, maxdepth=3)), detail=P.show(lambda a: show(a, maxdepth=2)))


def _deep(t, pred):
    """pred holds for some tuple nested anywhere in t (also inside canonical polynomial structures)"""
    if isinstance(t, tuple):
        if t and isinstance(t[0], str) and pred(t):
            return True
        return any(_deep(x, pred) for x in t)
    return False


def _cost_term(cb, sorter, dist, atom, w_atom, which):
    """The atom of the cost polynomial is distance(x, REF) - REF = the sorter's `previous` argument or the constraint centres -
    on every path, except that it may be the constant 0 on a path where its weight ((1 - w) resp. w) is known to be 0."""
    atom = strip(atom)
    alts = []
    if isinstance(atom, tuple) and atom[0] == 'var' and atom[1] == cb.path:
        for d in [d for d in cb.defs().get(atom[2], []) if d[4]]:
            alts.append((strip(cb._def_term(d)), [(strip(g), opw.truth(k)) for g, k, sw in cb.guard_terms(d[1])]))
    else:
        alts.append((atom, []))
    if not alts:
        return False, '%s distance has no definition' % which
    zero_when = 1.0 if which == 'prev' else 0.0
    prev_name = sorter.name_of(3)
    for t, gs in alts:
        if isinstance(t, tuple) and t[0] == 'call' and t[1] == dist.path:
            x, ref = t[2], t[3]
            has_x = _deep(x, lambda y: y[0] == 'param' and y[1] in (2, 3))
            if not has_x:
                return False, '%s distance is not taken from the compared solution' % which
            if which == 'prev':
                good = _deep(ref, lambda y: y[0] == 'fld' and len(y) == 3 and util.is_param(strip(y[1]), 1) and str(y[2]).lstrip('*&') == prev_name)
            else:
                good = _deep(ref, lambda y: y[0] == 'fld' and len(y) == 3 and y[2] == 'centers')
            if not good:
                return False, '%s distance is measured against %s' % (which, show(ref, maxdepth=4))
            continue
        if util.const_val(t) == 0.0:
            implied = False
            for g, v in gs:
                if isinstance(g, tuple) and g[0] == 'bin' and g[1] in ('Eq', 'Ne') and v in (True, False):
                    a, b = algebra.canon(strip(g[2])), strip(g[3])
                    equal = (g[1] == 'Eq') == v
                    if equal and a == algebra.canon(w_atom) and util._fnum(b) == zero_when:
                        implied = True
            if not implied:
                return False, '%s distance is replaced by 0 on a path where its weight is not known to be 0' % which
            continue
        return False, '%s distance is %s' % (which, show(t, maxdepth=4))
    return True, ''


def _expand_vars(cb, t, depth=0):
    """replace every variable that is assigned on several paths (`let x; if c { x = e1 } else { x = e2 }`) by the set of its
    alternatives, each with the branch conditions it is assigned under - so two such variables are compared by what they
    hold, not by what they are called"""
    def f(x, depth):
        if not isinstance(x, tuple):
            return x
        if x[0] == 'var' and x[1] == cb.path and depth < 4:
            whole = [d for d in cb.defs().get(x[2], []) if d[4]]
            if whole:
                alts = []
                for d in whole:
                    conds = tuple(sorted((show(g, maxdepth=6), str(opw.truth(k))) for g, k, sw in cb.guard_terms(d[1])
                                         if isinstance(strip(g), tuple) and strip(g)[0] in ('bin', 'un', 'call')))
                    alts.append(('alt', conds, f(cb._def_term(d), depth + 1)))
                return ('phi',) + tuple(sorted(alts, key=repr))
        return (x[0],) + tuple(f(y, depth) if isinstance(y, tuple) else y for y in x[1:])
    return f(t, depth)


def _rename_b_to_a(cb, t, identity=False):
    """rename closure parameter 3 -> 2 (terms are compared after canonicalisation)."""
    def f(x):
        if not isinstance(x, tuple):
            return x
        if x[0] == 'param':
            return ('param', 2, 'P') if x[1] in (2, 3) else x
        return (x[0],) + tuple(f(y) if isinstance(y, tuple) else y for y in x[1:])
    return algebra.canon(f(t))


def _superset(ctx, prog, methods):
    from .C01 import _shift_table
    ic = methods['inverse_continuing']
    shifts = _shift_table(ic)
    ok = shifts is not None and len(shifts) >= 3 and all(x == 0.0 for x in shifts[:3])
    ctx.check(ok, 'R04.6', 'first-shift-zero', ic.where(0), ic.path, 'the first pose solved must be the unshifted one', found=shifts[:3] if shifts else None)
    exts = [(bi, t) for bi, t in ic.calls() if cname(callee_name(t)).endswith('::extend')]
    ok = False
    for bi, t in exts:
        gs = [(strip(g), opw.truth(k)) for g, k, sw in ic.guard_terms(bi)]
        conds = [(g, v) for g, v in gs if not (isinstance(g, tuple) and g[0] == 'discr') and not (isinstance(g, tuple) and g[0] == 'bin' and 'dof' in show(g, maxdepth=4))]
        eg = util.emptiness_guard(conds[0][0], conds[0][1]) if len(conds) == 1 else None
        ok = eg is not None and eg[1] is True
    ctx.check(ok, 'R04.6', 'unconditional-first-extend', ic.where(exts[0][0]) if exts else ic.where(0), ic.path,
              'the solutions of the unshifted solve must be taken over whenever the result is still empty (so plain-inverse answers are included)')
    # ... and that take-over comes first: the emptiness test guarding it dominates every push into the result (and with it every
    # early exit of the shift loop that follows a push), so no path can leave with a recovered candidate but without the plain answers
    if ok and exts:
        ebi = exts[0][0]
        sws = [sw for g, k, sw in ic.guard_terms(ebi) if util.emptiness_guard(strip(g), opw.truth(k)) is not None]
        sol_local = _vec_local(ic, exts[0][1]['args'][0])
        pushes = [(bi, t) for bi, t in ic.calls() if cname(callee_name(t)) == 'Vec::push' and _vec_local(ic, t['args'][0]) == sol_local]
        late = [ic.where(bi) for bi, t in pushes if not (sws and ic.dominates(sws[-1], bi))]
        ctx.check(not late, 'R04.6', 'take-over-first', ic.where(ebi), ic.path,
                  'a candidate can be pushed (%s) before the unshifted solutions were taken over: an early exit then returns it alone, without the answers plain inverse finds' % ', '.join(late),
                  found=', '.join(late), detail='the emptiness test of the take-over dominates %d push site(s)' % len(pushes))


def _weight_storage(ctx, prog):
    """R04.9: the sorting weight the caller configures is the weight the comparator reads: every constructor of Constraints
    stores its weight argument, and the weight survives an update of the ranges"""
    ctx.rule('R04.9', 'constructors of Constraints store their sorting-weight argument; update_range leaves the weight alone')
    n = 0
    for p_, b in prog.bodies.items():
        if not p_.startswith('constraints::Constraints::') or b.kind == 'Closure':
            continue
        wpar = [k for k in range(1, b.arg_count + 1) if b.local_ty(k) == 'f64']
        if b.local_ty(0).endswith('constraints::Constraints') and len(wpar) == 1:
            for i, j, st in b.stmts():
                rv = st['rv']
                if rv['k'] == 'agg' and isinstance(rv.get('kind'), dict) and (rv['kind'].get('adt') or '').endswith('constraints::Constraints'):
                    flds = rv['kind'].get('fields') or []
                    if 'sorting_weight' in flds:
                        ctx.fn(b)
                        n += 1
                        v = b.rv_term(rv, (i, j))[2 + flds.index('sorting_weight')]
                        ctx.check(util.is_param(v, wpar[0]), 'R04.9', p_.split('::')[-1] + '/weight-stored', b.where(i, j), b.path,
                                  'the constructor must store the sorting weight it is given', found=show(v, maxdepth=3))
            for bi, t in b.calls():
                cb = prog.bodies.get(t['callee'].get('resolved') or '')
                if cb is not None and cb is not b and cb.path.startswith('constraints::Constraints::') and cb.local_ty(0).endswith('constraints::Constraints'):
                    wp2 = [k for k in range(1, cb.arg_count + 1) if cb.local_ty(k) == 'f64']
                    if len(wp2) == 1 and wp2[0] - 1 < len(t['args']):
                        ctx.fn(b)
                        n += 1
                        v = b.op_term(t['args'][wp2[0] - 1], (bi, None))
                        ctx.check(util.is_param(v, wpar[0]), 'R04.9', p_.split('::')[-1] + '/weight-passed', b.where(bi), b.path,
                                  'the constructor must hand on the sorting weight it is given', found=show(v, maxdepth=3))
        if b.local_ty(0) == '()' and b.arg_count >= 1 and b.local_ty(1).startswith('&mut') and b.local_ty(1).endswith('constraints::Constraints'):
            wr = [(i, j) for i, j, st in b.stmts() if st['lhs']['local'] == 1 and any(e.get('name') == 'sorting_weight' for e in st['lhs']['proj'])]
            ctx.check(not wr, 'R04.9', p_.split('::')[-1] + '/weight-kept', b.where(*wr[0]) if wr else b.where(0), b.path,
                      'updating the ranges must not change the sorting weight')
    ctx.floor('R04.9 weight sites', n, 2)


def _centres_helper(ctx, path):
    """R04.5: the helper that yields the reference for the centred sentinel reads the centres of the limits (and nothing else of
    them) and falls back to the all-zero vector when the robot has no limits"""
    prog = ctx.prog
    hb = prog.bodies.get(path)
    done = ctx.__dict__.setdefault('_done_helpers', set())
    if hb is None or path in done:
        return
    done.add(path)
    ctx.fn(hb)
    names = set()

    def walk(x):
        if isinstance(x, dict):
            if x.get('k') == 'field' and (x.get('adt') or '').endswith('constraints::Constraints'):
                names.add(x.get('name'))
            for v in x.values():
                if isinstance(v, (dict, list)):
                    walk(v)
        elif isinstance(x, list):
            for v in x:
                walk(v)
    for b in [hb] + util.closure_bodies(prog, hb.path):
        walk(b.raw.get('blocks'))
    ctx.check(names == {'centers'}, 'R04.5', hb.path.split('::')[-1] + '/centres', hb.where(0), hb.path,
              'the reference for the centred sentinel must be the centres of the limits', found=sorted(names), expected="['centers']")
    zeros = False
    for b in [hb] + util.closure_bodies(prog, hb.path):
        for blk in b.blocks:
            for node in blk['stmts'] + [blk.get('term') or {}]:
                for c in _consts_in(node):
                    nm = c.get('name')
                    if nm and nm in prog.consts:
                        ct = strip(prog.const_term(nm))
                        if isinstance(ct, tuple) and ((ct[0] == 'repeat' and util.const_val(ct[1]) == 0.0) or
                                                      (ct[0] == 'agg' and ct[1] == 'array' and all(util.const_val(e) == 0.0 for e in ct[2:]))):
                            zeros = True
    ctx.check(zeros, 'R04.5', hb.path.split('::')[-1] + '/default', hb.where(0), hb.path,
              'without limits the reference for the centred sentinel must be the all-zero vector')


def _consts_in(x):
    out = []
    if isinstance(x, dict):
        if x.get('k') == 'const':
            out.append(x)
        for v in x.values():
            if isinstance(v, (dict, list)):
                out += _consts_in(v)
    elif isinstance(x, list):
        for v in x:
            out += _consts_in(v)
    return out
