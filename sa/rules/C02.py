"""C02 - inverse kinematics is complete away from singularities."""
import math

from .. import algebra, mir, util, opw
from ..mir import cname, strip, callee_name, show
from .C03 import sign_atom, inline
from .C06 import theta_table

EXPLANATION = ('Completeness is a numerical statement about eight closed-form branches; decided are three necessary structural conditions named by '
               'the property\'s own mechanisms: (R02.1) sign/offset symmetry: the inverse map G_i(theta) = (theta + o_i)*s_i stored into the '
               'candidates and the forward map F_i(j) = j*s_i - o_i satisfy F_i(G_i(theta)) = theta in the ring with s_i*s_i = 1, with one index '
               'i in every term (both internal solvers); (R02.2) branch-table closure: rows k+4 and k of the 8x6 candidate table have equal '
               'value numbers in columns 0-2, column 4 negated and columns 3 and 5 differing by an odd multiple of pi; rows 0/1 and 2/3 share '
               'theta1; the verification loop covers the whole table; (R02.3) the theta4/theta5/theta6 formulas of the four elbow/shoulder '
               'branches are one term template instantiated with the branch\'s own sin/cos(theta1), sin/cos(theta2+theta3).')
EXPLANATION += (' (R02.4) sibling agreement: theta1..theta5 of the 5-DOF and the 6-DOF solver are the same terms, row by row; (R02.5) the '
                'positional columns theta1..theta3 of all four shoulder/elbow branches equal, as polynomials over opaque function atoms, the '
                'published OPW closed form (Brandstoetter et al. 2014, eqs. for theta1_i/ii, theta2_i..iv, theta3_i..iv) written over the wrist '
                'centre (cx, cy, cz) and the parameters - this is where the lateral offset b enters, which no bundled test exercises; (R02.7) the wrist columns theta4..theta6 of the four '
                'shoulder/elbow branches equal the published closed form over the entries of the requested rotation matrix and the own theta1..theta3 of the '
                'branch (a slip made uniformly in all branches and in both solvers passes R02.3 and R02.4); (R02.6) no early '
                'exit: every value an internal solver returns is the vector that collects the verified candidates (a reachability pre-check that '
                'returns an empty answer looks at one shoulder branch only and drops the answers of the other).')
NOT_DECIDED = 'that each non-singular configuration lies on one of the branches within tolerance; absence of duplicates; equal answer-set size (all numerical)'
ASSUMPTIONS = ['sign corrections are +1 or -1 for the joints of a 6-DOF robot (s*s = 1)']


def same_mod_2pi(ring, a, b):
    """equal terms, or polynomial difference a constant multiple of 2*pi (the candidates are reduced to [-pi, pi] afterwards)"""
    if a == b:
        return True
    d = ring.nf(a) - ring.nf(b)
    if d.is_zero():
        return True
    if d.is_const():
        q = float(d.const_value()) / (2 * math.pi)
        return abs(q - round(q)) < 1e-12
    return False


def P_(n):
    return ('fld', ('fld', ('param', 1, 'self'), 'parameters'), n)


def _call(n, *a):
    return ('call', 'std::f64::<impl f64>::' + n) + tuple(a)


def _b(op, a, c):
    return ('bin', op, a, c)


def spec_positional(cx, cy, cz):
    """theta1..theta3 of the four shoulder/elbow branches as in the OPW paper (and in opw_kinematics by Jmeyer1292)."""
    K = lambda v: ('const', 'f64', float(v))
    a1, a2, bb, c1, c2, c3 = P_('a1'), P_('a2'), P_('b'), P_('c1'), P_('c2'), P_('c3')
    add, sub, mul, div = (lambda x, y: _b('Add', x, y)), (lambda x, y: _b('Sub', x, y)), (lambda x, y: _b('Mul', x, y)), (lambda x, y: _b('Div', x, y))
    neg = lambda x: ('un', 'Neg', x)
    nx1 = sub(_call('sqrt', sub(add(mul(cx, cx), mul(cy, cy)), mul(bb, bb))), a1)
    tmp1 = _call('atan2', cy, cx)
    tmp2 = _call('atan2', bb, add(nx1, a1))
    th1 = [sub(tmp1, tmp2), sub(add(tmp1, tmp2), K(math.pi))]
    tmp3 = sub(cz, c1)
    s1_2 = add(mul(nx1, nx1), mul(tmp3, tmp3))
    tmp4 = add(nx1, mul(K(2.0), a1))
    s2_2 = add(mul(tmp4, tmp4), mul(tmp3, tmp3))
    k2 = add(mul(a2, a2), mul(c3, c3))
    c2_2 = mul(c2, c2)
    s1, s2 = _call('sqrt', s1_2), _call('sqrt', s2_2)
    t13 = _call('acos', div(sub(add(s1_2, c2_2), k2), mul(mul(K(2.0), s1), c2)))
    t14 = _call('atan2', nx1, tmp3)
    t15 = _call('acos', div(sub(add(s2_2, c2_2), k2), mul(mul(K(2.0), s2), c2)))
    t16 = _call('atan2', tmp4, tmp3)
    th2 = [add(neg(t13), t14), add(t13, t14), sub(neg(t15), t16), sub(t15, t16)]
    t9 = mul(mul(K(2.0), c2), _call('sqrt', k2))
    t10 = _call('atan2', a2, c3)
    t11 = _call('acos', div(sub(sub(s1_2, c2_2), k2), t9))
    t12 = _call('acos', div(sub(sub(s2_2, c2_2), k2), t9))
    th3 = [sub(t11, t10), sub(neg(t11), t10), sub(t12, t10), sub(neg(t12), t10)]
    return [[th1[0], th2[0], th3[0]], [th1[0], th2[1], th3[1]], [th1[1], th2[2], th3[2]], [th1[1], th2[3], th3[3]]]


def check_inverse_map(ctx, b, ncol, rule):
    """F_i(G_i(theta)) = theta for the mapping written into the candidate array of solver b"""
    ring = algebra.Ring(unit_square=sign_atom)
    if True:
        ctx.fn(b)
        name = b.path.split('::')[-1]
        th0, sols0 = util.table_locals(b)
        if th0 is not None and sols0 is None:
            # the candidates are not written through an index loop over a second array: what each slot of each candidate is,
            # read off the symbolic interpretation of the solver
            f, tail = opw.solver_tail(ctx, b, ncol == 5)
            if f is not None:
                im = tail.inverse_map()
                bad = [(r, c, shown) for r, c, ok, shown in im if not ok]
                ctx.check(not bad and len(im) == 8 * ncol, rule, name + '/inverse-map', b.where(0), b.path,
                          'the angle written into a candidate is not (theta + offsets[i]) * sign[i] for the same i over all %d joints: %s' % (
                              ncol, ['candidate %d slot %d = %s' % x for x in bad[:2]]), found=str(bad[:2]), detail='%d slots by symbolic interpretation' % len(im))
                return
        ctx.require(th0 is not None and sols0 is not None, 'candidate table and candidate array ([[f64;N];8]) in ' + name)
        sols, th = [sols0], [th0]
        found = False
        for i, j, st in b.stmts():
            lhs = st['lhs']
            if lhs['local'] == sols[0] and len(lhs['proj']) == 2 and lhs['proj'][1]['k'] == 'index' and st['rv']['k'] == 'bin':
                ji = b.term_local(lhs['proj'][1]['local'], (i, j))
                si = b.term_local(lhs['proj'][0]['local'], (i, j))
                src = util.loop_source(ji)
                r = util.range_of(src) if src is not None else None
                if r is None:
                    continue
                found = True
                V = b.rv_term(st['rv'], (i, j))
                TH = strip(b.term_local(th[0]))
                thetas = mir.subterms(V, lambda x: x[0] == 'idx' and isinstance(strip(x[1]), tuple) and strip(x[1])[0] == 'idx' and strip(strip(x[1])[1]) == TH)
                offs = mir.subterms(V, lambda x: x[0] == 'idx' and 'offsets' in show(x[1], maxdepth=4))
                sgn = mir.subterms(V, lambda x: x[0] == 'idx' and 'sign_corrections' in show(x[1], maxdepth=4))
                idx_ok = len(thetas) >= 1 and len(offs) == 1 and len(sgn) == 1 and strip(thetas[0][2]) == strip(ji) and strip(offs[0][2]) == strip(ji) and \
                    strip(sgn[0][2]) == strip(ji) and strip(strip(thetas[0][1])[2]) == strip(si)
                ident = False
                if idx_ok:
                    s_ = ('cast', sgn[0], 'f64')
                    comp = ('bin', 'Sub', ('bin', 'Mul', V, s_), offs[0])
                    ident = ring.equal(algebra.canon(comp), algebra.canon(thetas[0]))
                cover = util.const_val(r[0]) == 0 and util.const_val(r[1]) == ncol
                ctx.check(idx_ok and ident and cover, rule, name + '/inverse-map', b.where(i, j), b.path,
                          'the angle written into a candidate is not (theta + offsets[i]) * sign[i] for the same i over all %d joints: same-index=%s F(G(theta))=theta %s loop 0..%s' % (
                              ncol, idx_ok, ident, util.const_val(r[1])),
                          found=show(V, maxdepth=5), detail=show(V, maxdepth=4))
        if not found:
            # both tables are there but the candidates are filled through iterators (zip of rows, zip of columns): by the
            # symbolic run of the solver, as above
            f, tail = opw.solver_tail(ctx, b, ncol == 5)
            if f is not None:
                im = tail.inverse_map()
                bad = [(r, c, shown) for r, c, ok, shown in im if not ok]
                ctx.check(not bad and len(im) == 8 * ncol, rule, name + '/inverse-map', b.where(0), b.path,
                          'the angle written into a candidate is not (theta + offsets[i]) * sign[i] for the same i over all %d joints: %s' % (
                              ncol, ['candidate %d slot %d = %s' % x for x in bad[:2]]), found=str(bad[:2]), detail='%d slots by symbolic interpretation' % len(im))
                return
        ctx.check(found, rule, name + '/inverse-map-site', b.where(0), b.path, 'the sign/offset mapping of the candidate table was not found')


def check_single_exit(ctx, b, rule):
    """every value the solver returns is the vector that collects the verified candidates: a pre-check that returns an empty
    answer before the candidates are computed (`if s1 > c2 + kappa { return Vec::new() }`) decides reachability by something
    other than the eight branches and their verification, and drops the answers of the branches it did not look at."""
    name = b.path.split('::')[-1]
    pushes = [(bi, t) for bi, t in b.calls() if cname(callee_name(t)) == 'Vec::push']
    roots = {util._ref_root(b, t['args'][0]) for bi, t in pushes} - {None}
    rvs = b.return_values()
    if len(rvs) <= 1 and len(b.return_blocks()) <= 1:
        ctx.ok(rule, name + '/single-exit', b.where(0), 'one return value')
        return
    bad = []
    for t, d, rb in rvs:
        src = None
        if d and d[0] == 'st' and d[3]['rv']['k'] == 'use' and d[3]['rv']['op']['k'] in ('move', 'copy') and not d[3]['rv']['op']['place']['proj']:
            src = d[3]['rv']['op']['place']['local']
        if src is None or (roots and src not in roots):
            bad.append((b.where(d[1], d[2]) if d else b.where(rb), show(strip(t), maxdepth=3)))
    ctx.check(not bad, rule, name + '/single-exit', bad[0][0] if bad else b.where(0), b.path,
              'the solver must return the vector of verified candidates on every path; it also returns %s' % ', '.join(x[1] for x in bad[:2]),
              found=str([x[1] for x in bad]), detail='%d return values' % len(rvs))


def spec_orientation(E, th1, th2, th3):
    """theta4, theta5, theta6 of one shoulder/elbow branch as in the OPW paper, over the entries E[(i, j)] of the requested
    rotation matrix and the branch's own theta1..theta3 (the wrist-flipped rows follow from R02.2)"""
    add, sub, mul = (lambda x, y: _b('Add', x, y)), (lambda x, y: _b('Sub', x, y)), (lambda x, y: _b('Mul', x, y))
    neg = lambda x: ('un', 'Neg', x)
    K = lambda v: ('const', 'f64', float(v))
    s1, c1 = _call('sin', th1), _call('cos', th1)
    s23, c23 = _call('sin', add(th2, th3)), _call('cos', add(th2, th3))
    m = add(add(mul(mul(E[(0, 2)], s23), c1), mul(mul(E[(1, 2)], s23), s1)), mul(E[(2, 2)], c23))
    th5 = _call('atan2', _call('sqrt', sub(K(1.0), mul(m, m))), m)
    th4 = _call('atan2', sub(mul(E[(1, 2)], c1), mul(E[(0, 2)], s1)),
                sub(add(mul(mul(E[(0, 2)], c23), c1), mul(mul(E[(1, 2)], c23), s1)), mul(E[(2, 2)], s23)))
    th6 = _call('atan2', add(add(mul(mul(E[(0, 1)], s23), c1), mul(mul(E[(1, 1)], s23), s1)), mul(E[(2, 1)], c23)),
                sub(sub(mul(mul(neg(E[(0, 0)]), s23), c1), mul(mul(E[(1, 0)], s23), s1)), mul(E[(2, 0)], c23)))
    return th4, th5, th6


def _matrix_entries(rows):
    """{(i, j): term} of the entries `matrix[(i, j)]` the wrist columns of the candidate table read; None unless they all index one matrix"""
    E = {}
    base = set()
    for x in mir.subterms(('x',) + tuple(rows), lambda y: y[0] == 'call' and cname(y[1]).split('::')[-1] == 'index' and len(y) == 4):
        ix = strip(x[3])
        if isinstance(ix, tuple) and ix[0] == 'agg' and len(ix) == 4:
            i, j = util.const_val(ix[2]), util.const_val(ix[3])
            if isinstance(i, int) and isinstance(j, int):
                E[(i, j)] = x
                base.add(strip(x[2]))
    if len(base) != 1:
        return None
    return E


def run(ctx):
    prog = ctx.prog
    ctx.rule('R02.7', 'theta4..theta6 of the four shoulder/elbow branches equal the published OPW closed form over the entries of the requested rotation matrix and the branch\'s own theta1..theta3')
    ctx.rule('R02.6', 'no early exit: every value an internal solver returns is the vector that collects the verified candidates')
    ctx.rule('R02.4', 'theta1..theta5 of the 5-DOF solver equal the first five columns of the 6-DOF candidate table (sibling agreement)')
    ctx.rule('R02.5', 'theta1..theta3 of the four positional branches equal the published OPW closed form over the wrist centre and the parameters (ring normal form over function atoms)')
    ctx.rule('R02.1', 'F_i(G_i(theta)) = theta for the forward joint map F and the inverse joint map G (ring normal form, s*s = 1), same index i')
    ctx.rule('R02.2', 'candidate table closure: row k+4 = wrist flip of row k (theta4 + pi, -theta5, theta6 - pi), shared theta1 per shoulder branch, loop over the whole table')
    ctx.rule('R02.3', 'theta4/theta5/theta6 of branches 0..3 are one term template over the branch\'s own sin/cos(theta1), sin/cos(theta2+theta3)')
    six, five = opw.intern_solvers(prog)
    ctx.require(six is not None and five is not None, 'internal solvers')
    for b, ncol in ((six, 6), (five, 5)):
        check_inverse_map(ctx, b, ncol, 'R02.1')
        check_single_exit(ctx, b, 'R02.6')

    # ---- R02.2 on the 6-DOF table
    t6 = theta_table(six)
    ctx.require(t6 is not None and len(t6) == 8 and all(len(r) == 6 for r in t6), '8x6 candidate table of the 6-DOF solver')
    r0 = algebra.Ring()
    pi = math.pi
    for k in range(4):
        same = all(t6[k + 4][c] == t6[k][c] for c in range(3))
        d3 = r0.nf(t6[k + 4][3]) - r0.nf(t6[k][3])
        d5 = r0.nf(t6[k + 4][5]) - r0.nf(t6[k][5])
        n4 = (r0.nf(t6[k + 4][4]) + r0.nf(t6[k][4])).is_zero()

        def odd_pi(d):
            if not d.is_const():
                return False
            q = float(d.const_value()) / pi
            return abs(q - round(q)) < 1e-12 and int(round(q)) % 2 != 0
        ok = same and odd_pi(d3) and odd_pi(d5) and n4
        ctx.check(ok, 'R02.2', 'flip-row%d' % k, six.where(0), six.path,
                  'row %d is not the wrist-flipped twin of row %d: theta1-3 equal=%s theta4 differs by odd*pi=%s theta5 negated=%s theta6 differs by odd*pi=%s' % (
                      k + 4, k, same, odd_pi(d3), n4, odd_pi(d5)), detail='theta4%+gpi theta6%+gpi' % (float(d3.const_value()) / pi if d3.is_const() else float('nan'), float(d5.const_value()) / pi if d5.is_const() else float('nan')))
    ctx.check(t6[0][0] == t6[1][0] and t6[2][0] == t6[3][0] and t6[0][0] != t6[2][0], 'R02.2', 'shoulder-branches', six.where(0), six.path,
              'rows 0/1 and rows 2/3 must share their theta1 (two shoulder branches, two elbow branches each)')
    ctx.check(t6[0][1] != t6[1][1] and t6[2][1] != t6[3][1], 'R02.2', 'elbow-branches', six.where(0), six.path, 'the two rows of a shoulder branch must use different elbow roots')
    # loops over the table height
    for b in (six, five):
        name = b.path.split('::')[-1]
        pushes = [(bi, t) for bi, t in b.calls() if cname(callee_name(t)) == 'Vec::push']
        ok = False
        found = None
        for bi, t in pushes:
            e = strip(b.op_term(t['args'][1], (bi, None)))
            if isinstance(e, tuple) and e[0] == 'idx':
                src = util.loop_source(e[2])
                r = util.range_of(src) if src is not None else None
                if r is not None:
                    from ..census import Bounds
                    hi = Bounds(b).rng(r[1])
                    found = '0..%s' % (hi,)
                    ok = util.const_val(r[0]) == 0 and hi == (8, 8)
        if not ok:
            tv = opw.tail_verdict(ctx, b, b is five, ('verify-all-rows',))
            if tv is not None:
                ok, found = tv
        ctx.check(ok, 'R02.2', name + '/verify-all-rows', b.where(0), b.path, 'the verification loop must visit all eight candidate rows', found=found, detail=found or '')

    # ---- R02.4 sibling agreement
    t5 = theta_table(five)
    ctx.require(t5 is not None and len(t5) == 8, 'candidate table of the 5-DOF solver')
    for r in range(8):
        for c in range(5):
            ctx.check(same_mod_2pi(r0, t6[r][c], t5[r][c]), 'R02.4', 'theta[%d][%d]' % (r, c), five.where(0), five.path,
                      'theta%d of branch %d differs between the 6-DOF and the 5-DOF solver: one of the two copies was edited' % (c + 1, r),
                      found=show(t5[r][c], maxdepth=5), expected=show(t6[r][c], maxdepth=5), detail='equal value numbers')

    # ---- R02.5 positional closed form
    for b in (six, five):
        name = b.path.split('::')[-1]
        t = theta_table(b)
        comps = {}
        for x in mir.subterms(('x', ) + tuple(t[k][c] for k in range(4) for c in range(3)),
                              lambda x: x[0] == 'fld' and x[2] in ('x', 'y', 'z') and mir.contains(x[1], lambda y: y[0] == 'call' and cname(y[1]).endswith('::sub')) and
                              mir.contains(x[1], lambda y: y[0] == 'fld' and y[2] == 'translation')):
            comps.setdefault(x[2], set()).add(x)
        if not ctx.check(all(len(comps.get(k, ())) == 1 for k in 'xyz'), 'R02.5', name + '/wrist-centre', b.where(0), b.path,
                         'the wrist centre components (cx, cy, cz) could not be identified uniquely', found={k: len(v) for k, v in comps.items()}):
            continue
        cx, cy, cz = [list(comps[k])[0] for k in 'xyz']
        spec = spec_positional(cx, cy, cz)
        rg = algebra.Ring()
        for k in range(4):
            for c in range(3):
                ok = (rg.nf(algebra.canon(spec[k][c])) - rg.nf(t[k][c])).is_zero()
                ctx.check(ok, 'R02.5', '%s/theta%d/branch%d' % (name, c + 1, k), b.where(0), b.path,
                          'theta%d of branch %d is not the OPW closed form' % (c + 1, k), found=show(t[k][c], maxdepth=5), expected=show(spec[k][c], maxdepth=5), detail='equals the published formula')
        # ---- R02.7 orientation closed form (the 5-DOF solver has no theta6 column)
        ncols = len(t[0])
        E = _matrix_entries([t[k][c] for k in range(4) for c in range(3, ncols)])
        need = [(0, 2), (1, 2), (2, 2)] + ([(0, 1), (1, 1), (2, 1), (0, 0), (1, 0), (2, 0)] if ncols >= 6 else [])
        if not ctx.check(E is not None and all(x in E for x in need), 'R02.7', name + '/rotation-entries', b.where(0), b.path,
                         'the entries of the requested rotation matrix read by the wrist formulas could not be identified', found=sorted(E) if E else None):
            continue
        for k in range(4):
            so = spec_orientation({x: E[x] for x in E}, t[k][0], t[k][1], t[k][2]) if ncols >= 6 else None
            if so is None:
                E5 = dict(E)
                for x in need[:0]:
                    pass
                E5.update({x: E[(0, 2)] for x in [(0, 1), (1, 1), (2, 1), (0, 0), (1, 0), (2, 0)] if x not in E5})
                so = spec_orientation(E5, t[k][0], t[k][1], t[k][2])
            for c, sp in zip(range(3, min(ncols, 6)), so):
                ok = (rg.nf(algebra.canon(sp)) - rg.nf(t[k][c])).is_zero()
                ctx.check(ok, 'R02.7', '%s/theta%d/branch%d' % (name, c + 1, k), b.where(0), b.path,
                          'theta%d of branch %d is not the OPW closed form' % (c + 1, k), found=show(t[k][c], maxdepth=5), expected=show(sp, maxdepth=5), detail='equals the published formula')

    # ---- R02.3 template agreement
    for b, cols in ((six, (3, 4, 5)), (five, (3, 4))):
        name = b.path.split('::')[-1]
        t = theta_table(b)
        templ = []
        for k in range(4):
            th1, th2, th3 = t[k][0], t[k][1], t[k][2]
            s23 = ('bin', 'Add', th2, th3)

            def sub(x, th1=th1, s23=s23):
                if not isinstance(x, tuple):
                    return x
                if x[0] == 'call' and len(x) == 3 and cname(x[1]) in ('f64::sin', 'f64::cos'):
                    a = algebra.canon(x[2])
                    if a == th1:
                        return ('sym', 'S1' if cname(x[1]) == 'f64::sin' else 'C1')
                    if a == algebra.canon(s23):
                        return ('sym', 'S23' if cname(x[1]) == 'f64::sin' else 'C23')
                return (x[0],) + tuple(sub(y) if isinstance(y, tuple) else y for y in x[1:])
            templ.append([sub(t[k][c]) for c in cols])
        for k in range(1, 4):
            for ci, c in enumerate(cols):
                ok = templ[k][ci] == templ[0][ci] and mir.contains(templ[k][ci], lambda x: x[0] == 'sym')
                ctx.check(ok, 'R02.3', '%s/theta%d/branch%d' % (name, c + 1, k), b.where(0), b.path,
                          'theta%d of branch %d is not the branch-0 formula instantiated with its own theta1 / theta2+theta3 (a sin/cos of another branch is used)' % (c + 1, k),
                          found=show(templ[k][ci], maxdepth=6), expected=show(templ[0][ci], maxdepth=6), detail='same template')
    # every candidate is kept only if forward() maps it back onto the pose: a wrong forward() silently drops correct
    # candidates, which breaks completeness - the clauses of C03 are re-checked here
    from . import C03
    C03.run(ctx)
