"""C02 - inverse kinematics is complete away from singularities."""
import math

from .. import algebra, mir, util, opw
from ..mir import cname, strip, callee_name, show
from .C03 import sign_atom, inline
from .C06 import theta_table

EXPLANATION = ('Completeness is a numerical statement about eight closed-form branches; decided are three necessary structural conditions named by '
               'the property\'s own mechanisms: (R02.1) sign/offset symmetry: the inverse map G_i(theta) = (theta + o_i)*s_i stored into the '
               'candidates and the forward map F_i(j) = j*s_i - o_i satisfy F_i(G_i(theta)) = theta in the ring with s_i*s_i = 1, with one index '
               'i in every term (both internal solvers); (R02.2) branch-table closure: rows k+4 and k of the 8x6 candidate table have equal '
               'value numbers in columns 0-2, column 4 negated and columns 3 and 5 differing by an odd multiple of pi; rows 0/1 and 2/3 share '
               'theta1; the verification loop covers the whole table; (R02.3) the theta4/theta5/theta6 formulas of the four elbow/shoulder '
               'branches are one term template instantiated with the branch\'s own sin/cos(theta1), sin/cos(theta2+theta3).')
NOT_DECIDED = 'that each non-singular configuration lies on one of the branches within tolerance; absence of duplicates; equal answer-set size (all numerical)'
ASSUMPTIONS = ['sign corrections are +1 or -1 for the joints of a 6-DOF robot (s*s = 1)']


def run(ctx):
    prog = ctx.prog
    ctx.rule('R02.1', 'F_i(G_i(theta)) = theta for the forward joint map F and the inverse joint map G (ring normal form, s*s = 1), same index i')
    ctx.rule('R02.2', 'candidate table closure: row k+4 = wrist flip of row k (theta4 + pi, -theta5, theta6 - pi), shared theta1 per shoulder branch, loop over the whole table')
    ctx.rule('R02.3', 'theta4/theta5/theta6 of branches 0..3 are one term template over the branch\'s own sin/cos(theta1), sin/cos(theta2+theta3)')
    six, five = opw.intern_solvers(prog)
    ctx.require(six is not None and five is not None, 'internal solvers')
    ring = algebra.Ring(unit_square=sign_atom)
    for b, ncol in ((six, 6), (five, 5)):
        ctx.fn(b)
        name = b.path.split('::')[-1]
        sols = [l for l, n in b.names.items() if n == 'sols']
        th = [l for l, n in b.names.items() if n == 'theta']
        ctx.require(len(sols) == 1 and len(th) == 1, 'locals sols / theta in ' + name)
        found = False
        for i, j, st in b.stmts():
            lhs = st['lhs']
            if lhs['local'] == sols[0] and len(lhs['proj']) == 2 and lhs['proj'][1]['k'] == 'index' and st['rv']['k'] == 'bin':
                ji = b.term_local(lhs['proj'][1]['local'], (i, j))
                si = b.term_local(lhs['proj'][0]['local'], (i, j))
                src = util.loop_source(ji)
                r = util.range_of(src) if src is not None else None
                if r is None:
                    continue
                found = True
                V = b.rv_term(st['rv'], (i, j))
                TH = strip(b.term_local(th[0]))
                thetas = mir.subterms(V, lambda x: x[0] == 'idx' and isinstance(strip(x[1]), tuple) and strip(x[1])[0] == 'idx' and strip(strip(x[1])[1]) == TH)
                offs = mir.subterms(V, lambda x: x[0] == 'idx' and 'offsets' in show(x[1], maxdepth=4))
                sgn = mir.subterms(V, lambda x: x[0] == 'idx' and 'sign_corrections' in show(x[1], maxdepth=4))
                idx_ok = len(thetas) >= 1 and len(offs) == 1 and len(sgn) == 1 and strip(thetas[0][2]) == strip(ji) and strip(offs[0][2]) == strip(ji) and \
                    strip(sgn[0][2]) == strip(ji) and strip(strip(thetas[0][1])[2]) == strip(si)
                ident = False
                if idx_ok:
                    s = ('cast', sgn[0], 'f64')
                    comp = ('bin', 'Sub', ('bin', 'Mul', V, s), offs[0])
                    ident = ring.equal(algebra.canon(comp), algebra.canon(thetas[0]))
                cover = util.const_val(r[0]) == 0 and util.const_val(r[1]) == ncol
                ctx.check(idx_ok and ident and cover, 'R02.1', name + '/inverse-map', b.where(i, j), b.path,
                          'the angle written into a candidate is not (theta + offsets[i]) * sign[i] for the same i over all %d joints: same-index=%s F(G(theta))=theta %s loop 0..%s' % (
                              ncol, idx_ok, ident, util.const_val(r[1])),
                          found=show(V, maxdepth=5), detail=show(V, maxdepth=4))
        ctx.check(found, 'R02.1', name + '/inverse-map-site', b.where(0), b.path, 'the sign/offset mapping of the candidate table was not found')

    # ---- R02.2 on the 6-DOF table
    t6 = theta_table(six)
    ctx.require(t6 is not None and len(t6) == 8 and all(len(r) == 6 for r in t6), '8x6 candidate table of the 6-DOF solver')
    r0 = algebra.Ring()
    pi = math.pi
    for k in range(4):
        same = all(t6[k + 4][c] == t6[k][c] for c in range(3))
        d3 = r0.nf(t6[k + 4][3]) - r0.nf(t6[k][3])
        d5 = r0.nf(t6[k + 4][5]) - r0.nf(t6[k][5])
        n4 = (r0.nf(t6[k + 4][4]) + r0.nf(t6[k][4])).is_zero()

        def odd_pi(d):
            if not d.is_const():
                return False
            q = float(d.const_value()) / pi
            return abs(q - round(q)) < 1e-12 and int(round(q)) % 2 != 0
        ok = same and odd_pi(d3) and odd_pi(d5) and n4
        ctx.check(ok, 'R02.2', 'flip-row%d' % k, six.where(0), six.path,
                  'row %d is not the wrist-flipped twin of row %d: theta1-3 equal=%s theta4 differs by odd*pi=%s theta5 negated=%s theta6 differs by odd*pi=%s' % (
                      k + 4, k, same, odd_pi(d3), n4, odd_pi(d5)), detail='theta4%+gpi theta6%+gpi' % (float(d3.const_value()) / pi if d3.is_const() else float('nan'), float(d5.const_value()) / pi if d5.is_const() else float('nan')))
    ctx.check(t6[0][0] == t6[1][0] and t6[2][0] == t6[3][0] and t6[0][0] != t6[2][0], 'R02.2', 'shoulder-branches', six.where(0), six.path,
              'rows 0/1 and rows 2/3 must share their theta1 (two shoulder branches, two elbow branches each)')
    ctx.check(t6[0][1] != t6[1][1] and t6[2][1] != t6[3][1], 'R02.2', 'elbow-branches', six.where(0), six.path, 'the two rows of a shoulder branch must use different elbow roots')
    # loops over the table height
    for b in (six, five):
        name = b.path.split('::')[-1]
        pushes = [(bi, t) for bi, t in b.calls() if cname(callee_name(t)) == 'Vec::push']
        ok = False
        found = None
        for bi, t in pushes:
            e = strip(b.op_term(t['args'][1], (bi, None)))
            if isinstance(e, tuple) and e[0] == 'idx':
                src = util.loop_source(e[2])
                r = util.range_of(src) if src is not None else None
                if r is not None:
                    from ..census import Bounds
                    hi = Bounds(b).rng(r[1])
                    found = '0..%s' % (hi,)
                    ok = util.const_val(r[0]) == 0 and hi == (8, 8)
        ctx.check(ok, 'R02.2', name + '/verify-all-rows', b.where(0), b.path, 'the verification loop must visit all eight candidate rows', found=found, detail=found or '')

    # ---- R02.3 template agreement
    for b, cols in ((six, (3, 4, 5)), (five, (3, 4))):
        name = b.path.split('::')[-1]
        t = theta_table(b)
        templ = []
        for k in range(4):
            th1, th2, th3 = t[k][0], t[k][1], t[k][2]
            s23 = ('bin', 'Add', th2, th3)

            def sub(x, th1=th1, s23=s23):
                if not isinstance(x, tuple):
                    return x
                if x[0] == 'call' and len(x) == 3 and cname(x[1]) in ('f64::sin', 'f64::cos'):
                    a = algebra.canon(x[2])
                    if a == th1:
                        return ('sym', 'S1' if cname(x[1]) == 'f64::sin' else 'C1')
                    if a == algebra.canon(s23):
                        return ('sym', 'S23' if cname(x[1]) == 'f64::sin' else 'C23')
                return (x[0],) + tuple(sub(y) if isinstance(y, tuple) else y for y in x[1:])
            templ.append([sub(t[k][c]) for c in cols])
        for k in range(1, 4):
            for ci, c in enumerate(cols):
                ok = templ[k][ci] == templ[0][ci] and mir.contains(templ[k][ci], lambda x: x[0] == 'sym')
                ctx.check(ok, 'R02.3', '%s/theta%d/branch%d' % (name, c + 1, k), b.where(0), b.path,
                          'theta%d of branch %d is not the branch-0 formula instantiated with its own theta1 / theta2+theta3 (a sin/cos of another branch is used)' % (c + 1, k),
                          found=show(templ[k][ci], maxdepth=6), expected=show(templ[0][ci], maxdepth=6), detail='same template')
