"""C13 - a returned RRT path joins start to goal through collision-free configurations."""
from .. import mir, util, opw
from ..mir import cname, strip, callee_name, show

EXPLANATION = ('Decides from MIR: (R13.1) who-may-call: a vertex enters a tree only from the extend step, on the true edge of is_free for that same '
               'configuration, or as one of the two roots (start, goal); (R13.2) the is_free callback built by the planner is the negation of '
               'KinematicsWithShape::collides of the same robot on the converted vector and the sampler is constraints().random_angles(); '
               '(R13.3) root literals, path assembly reverse(ancestors(a)) ++ ancestors(b), reversal iff the second tree is the start tree (when not '
               'written that way: the search interpreted over four scripted connections must return start-root .. goal-root); the ancestor walk '
               'interpreted on a five-vertex tree yields parent first and the root last, included; '
               '(R13.4) every iteration checks the stop flag before sampling and the raised flag reaches only `return Err`; '
               '(R13.5) conversion keeps every element in order; (R13.6) the predicate gating add_vertex is handed down the call chain unchanged (a wrapper `q == target || pred(q)` is accepted only where every target is already a tree vertex).  (R13.7) tree bookkeeping by interpretation on small trees: add_vertex appends the given configuration without a parent under the next index (also in the spatial index), add_edge(a, b) makes a the parent of b, the extension links the new vertex below the nearest one and reports the new vertex, the repeated extension stops exactly at Trapped / Reached; (R13.8) no integer cast in the tree search narrows a value that is not provably within the target type (tree sizes are not bounded by the iteration count); (R11.5) `collides` of the robot with shape is the query of its body, unchanged; the tree search is given the configured step length and iteration budget of the planner as they are (R13.3 planner/step, planner/budget).  Step-length bounds and convexity of limits are numerical and not decided.')
NOT_DECIDED = 'step-length bound between consecutive nodes; in-limit interpolation (numerical consequences of the extend formula)'
ASSUMPTIONS = ['kdtree / Vec operations behave as documented']


ROLES = {}


def tree_roles(ctx, dual):
    """Private methods of the RRT tree, found by what they do (names are not relied on):
    insert - pushes a node built from a &[N] argument onto the vertex list and returns its index;
    grow   - has a predicate parameter (FF) and calls insert;  grow_until - has a predicate parameter and calls grow only;
    ancestors - (&self, usize) -> Vec<Vec<N>>;  new - the constructor taking the tree's name literal."""
    prog = ctx.prog
    mod = dual.path.rsplit('::', 1)[0]
    tree = [b for p, b in prog.bodies.items() if p.startswith(mod + '::') and b.kind != 'Closure' and 'Tree<' in (b.raw.get('impl_self') or '')]
    def calls_of(b):
        return {t['callee'].get('resolved') for _, t in b.calls()}
    insert = [b for b in tree if b.local_ty(0) == 'usize' and b.arg_count in (2, 3) and b.local_ty(2).startswith('&[') and any(cname(callee_name(t)) == 'Vec::push' for _, t in b.calls())]
    ctx.require(len(insert) == 1, 'the tree method that inserts a vertex (fn(&mut Tree, &[N]) -> usize pushing onto the vertex list)')
    has_ff = lambda b: any(b.local_ty(i).replace('&mut ', '').strip() == 'FF' for i in range(1, b.arg_count + 1))
    grow = [b for b in tree if has_ff(b) and insert[0].path in calls_of(b)]
    ctx.require(len(grow) == 1, 'the tree method that extends towards a target (predicate parameter, calls the insertion)')
    grow_until = [b for b in tree if has_ff(b) and grow[0].path in calls_of(b) and insert[0].path not in calls_of(b)]
    ctx.require(len(grow_until) == 1, 'the tree method that extends repeatedly (predicate parameter, calls the single extension)')
    anc = [b for b in tree if b.arg_count == 2 and b.local_ty(2) == 'usize' and b.local_ty(0).replace('std::vec::', '').startswith('Vec<Vec<')]
    ctx.require(len(anc) == 1, 'the tree method returning the ancestors of a vertex (fn(&Tree, usize) -> Vec<Vec<N>>)')
    new = [b for b in tree if b.arg_count == 2 and 'str' in b.local_ty(1) and 'Tree<' in b.local_ty(0)]
    ctx.require(len(new) == 1, 'the tree constructor taking the tree name')
    r = {'insert': insert[0].path, 'grow': grow[0].path, 'grow_until': grow_until[0].path, 'ancestors': anc[0].path, 'new': new[0].path}
    ROLES.clear()
    ROLES.update(r)
    return r


def _is(t_or_name, role):
    """callee (MIR call terminator or term callee path) plays the given tree role"""
    path = t_or_name['callee'].get('resolved') if isinstance(t_or_name, dict) else t_or_name
    return path == ROLES.get(role)


def run(ctx):
    prog = ctx.prog
    from .C11 import shape_wrappers
    shape_wrappers(ctx, prog)
    ctx.rule('R13.1', 'add_vertex is called only on the true edge of is_free(&q) for that q, or for the two roots with start and goal')
    ctx.rule('R13.2', 'is_free == !KinematicsWithShape::collides(kinematics, converted vector); sampler == constraints().random_angles()')
    ctx.rule('R13.3', 'tree created with literal L receives `start`; path = reverse(ancestors(a)) ++ ancestors(b), reversed iff tree_b.name == L')
    ctx.rule('R13.4', 'the stop flag is loaded in every iteration before sampling/extension; its true edge reaches only return Err')
    ctx.rule('R13.6', 'every call in the planner hands the collision predicate it received on unchanged (a `q == target || pred(q)` wrapper only where every target is already a tree vertex)')
    ctx.rule('R13.5', 'result conversion maps every inner vector in order (no filter / skip)')
    dual = prog.find(suffix='rrt_to::dual_rrt_connect')
    ctx.require(len(dual) == 1, 'rrt_to::dual_rrt_connect')
    dual = dual[0]
    ctx.fn(dual)
    tree_roles(ctx, dual)
    add_vertex_sites = []
    for b in prog.bodies.values():
        for bi, t in b.calls():
            if _is(t, 'insert'):
                add_vertex_sites.append((b, bi, t))
    ctx.floor('R13.1 add_vertex call sites', len(add_vertex_sites), 3)
    roots = {}
    for b, bi, t in add_vertex_sites:
        ctx.fn(b)
        q = strip(b.op_term(t['args'][1], (bi, None)))
        key = '%s@%s' % (b.path.split('::')[-1], show(q, maxdepth=2))
        if b.path == dual.path:
            # root insertion: argument must be the start / goal parameter, before the main loop
            pi = util.param_index(q)
            in_loop = any(strip(g)[0] == 'discr' and 'next' in show(g) for g, k, sw in dual.guard_terms(bi))
            tree = _tree_literal(dual, t['args'][0], bi)
            ok = pi in (1, 2) and not in_loop and tree is not None
            roots[pi] = tree
            ctx.check(ok, 'R13.1', 'root/' + key, b.where(bi), b.path, 'a vertex is inserted outside the extend step and is not a root (start/goal before the loop)',
                      found=show(q, maxdepth=3), detail='root %s -> tree %r' % (show(q), tree))
            continue
        # extend-style site: dominated by true edge of is_free(&same q)
        gated = False
        for g, k, sw in b.guard_terms(bi):
            g = strip(g)
            if isinstance(g, tuple) and g[0] == 'call' and cname(g[1]) in ('FnMut::call_mut', 'Fn::call', 'FnOnce::call_once'):
                callee = strip(g[2])
                arg = strip(g[3])
                is_free_param = isinstance(callee, tuple) and callee[0] in ('param', 'mparam') and callee[2] == b.name_of(callee[1]) and 'FF' in b.local_ty(callee[1])
                a0 = strip(arg[2]) if isinstance(arg, tuple) and arg[0] == 'agg' and len(arg) > 2 else None
                if is_free_param and opw.truth(k) is True and a0 is not None and _same_vec(a0, q):
                    gated = True
        ctx.check(gated, 'R13.1', 'extend/' + key, b.where(bi), b.path,
                  'a configuration is inserted into the tree without having passed is_free for that same configuration', found=show(q, maxdepth=3),
                  detail='guarded by is_free(&q_new) == true')

    # R13.3 assembly
    Ls = roots.get(1)
    Lg = roots.get(2)
    ctx.check(Ls is not None and Lg is not None and Ls != Lg, 'R13.3', 'roots', dual.where(0), dual.path, 'start and goal must be the roots of two differently named trees', found=roots)
    calls = {cname(callee_name(t)): [] for _, t in dual.calls()}
    for bi, t in dual.calls():
        if not t['span']['exp']:
            calls.setdefault(cname(callee_name(t)), []).append((bi, t))
    gur = [(bi, t) for bi, t in dual.calls() if _is(t, 'ancestors') and not t['span']['exp']]
    rev = calls.get('slice::reverse', [])
    app = calls.get('Vec::append', [])
    eqs = calls.get('PartialEq::eq', []) + calls.get('str::eq', [])
    shape = len(gur) == 2 and len(rev) == 2 and len(app) == 1
    by_run = None
    if not shape:
        by_run = _assembly_by_interpretation(ctx, prog, dual)
    if by_run is not None:
        ctx.check(by_run[0], 'R13.3', 'assembly-order', dual.where(0), dual.path,
                  'the path must run from the start root through the two connected nodes to the goal root, whichever tree was extended: ' + by_run[1],
                  found=by_run[1], detail=by_run[1])
    elif ctx.check(shape, 'R13.3', 'assembly-shape', dual.where(0), dual.path,
                 'expected two ancestor walks, an unconditional and a conditional reverse and one append',
                 found='get_until_root x%d, reverse x%d, append x%d' % (len(gur), len(rev), len(app))):
        ta = _tree_literal(dual, gur[0][1]['args'][0], gur[0][0])
        tb = _tree_literal(dual, gur[1][1]['args'][0], gur[1][0])
        a_all = gur[0][1]['dest']['local']
        b_all = gur[1][1]['dest']['local']
        # first reverse on a_all, unconditional relative to the name test; dominates append
        r0, r1 = rev
        rev0_on_a = _root_of(dual, r0[1]['args'][0], r0[0]) == a_all
        app_ok = _root_of(dual, app[0][1]['args'][0], app[0][0]) == a_all and _root_of(dual, app[0][1]['args'][1], app[0][0]) == b_all
        order_ok = dual.dominates(r0[0], app[0][0]) and dual.dominates(app[0][0], r1[0])
        ctx.check(rev0_on_a and app_ok and order_ok and ta != tb, 'R13.3', 'assembly-order', dual.where(app[0][0]), dual.path,
                  'path must be reverse(ancestors in the extended tree) ++ ancestors in the connected tree',
                  found='reverse on a_all=%s append(a,b)=%s order=%s' % (rev0_on_a, app_ok, order_ok))
        # conditional reverse: guard = eq(tree_b.name, L_start) true
        cond_ok = False
        found = None
        for g, k, sw in dual.guard_terms(r1[0]):
            g = strip(g)
            if isinstance(g, tuple) and g[0] == 'call' and cname(g[1]).endswith('::eq'):
                lhs, rhs = strip(g[2]), strip(g[3])
                lit = _lit(rhs) or _lit(lhs)
                namet = lhs if _lit(rhs) else rhs
                tree_cmp = None
                if isinstance(namet, tuple) and namet[0] == 'fld' and namet[2] == 'name':
                    tree_cmp = _tree_literal_term(namet[1])
                found = 'reverse when %s.name == %r' % (tree_cmp, lit)
                # the second tree (the one connected, tb) is compared with the literal of the start tree
                if opw.truth(k) is True and tree_cmp == tb and lit == Ls and _root_of(dual, r1[1]['args'][0], r1[0]) == a_all:
                    cond_ok = True
        ctx.check(cond_ok, 'R13.3', 'orientation', dual.where(r1[0]), dual.path,
                  'the assembled path must be reversed exactly when the connected (second) tree is the one rooted at start',
                  found=found, expected='reverse when tree_b.name == %r' % Ls)
        # returned value is a_all
        rvs = dual.return_values()
        ok_ret = any(isinstance(strip(t), tuple) and strip(t)[0] == 'agg' and 'Ok' in strip(t)[1] for t, d, rb in rvs)
        ctx.check(ok_ret, 'R13.3', 'returns-path', dual.where(0), dual.path, 'no Ok(path) return found')
    _ancestor_walk(ctx, prog)
    _tree_bookkeeping(ctx, prog)
    _index_width(ctx, prog)
    swaps = calls.get('mem::swap', [])
    ctx.check(len(swaps) == 1, 'R13.3', 'swap', dual.where(swaps[0][0]) if swaps else dual.where(0), dual.path, 'trees must be swapped exactly once per iteration', found=len(swaps))

    # R13.4 cancellation
    loads = [(bi, t) for bi, t in dual.calls() if cname(callee_name(t)).endswith('::load')]
    ok = False
    msg = 'no load of the stop flag in the main loop'
    if len(loads) >= 1:
        lb, lt = loads[0]
        is_stop = util.param_index(dual.op_term(lt['args'][0], (lb, None))) == 7
        in_loop = any(strip(g)[0] == 'discr' for g, k, sw in dual.guard_terms(lb))
        # sampling / extension happen only after the load on its false edge
        work = [(bi, t) for bi, t in dual.calls() if cname(callee_name(t)) == 'Fn::call' or _is(t, 'grow') or _is(t, 'grow_until')]
        after = all(any(strip(g) == strip(dual.call_term(lt, (lb, None))) and opw.truth(k) is False for g, k, sw in dual.guard_terms(bi)) for bi, t in work)
        # true edge reaches only a return of Err
        true_blocks = dual.edge_dominated(_switch_after(dual, lb), 'otherwise') if _switch_after(dual, lb) is not None else set()
        bad = [bi for bi in true_blocks if any((cname(callee_name(t)) == 'Fn::call' or _is(t, 'grow') or _is(t, 'grow_until') or _is(t, 'insert')) for b2, t in dual.calls() if b2 == bi)]
        err_ret = _all_paths_return_err(dual, true_blocks)
        ok = is_stop and in_loop and after and not bad and err_ret and len(work) >= 3
        msg = 'stop flag: is_param=%s in_loop=%s work-after-check=%s err-only=%s' % (is_stop, in_loop, after, err_ret)
    ctx.check(ok, 'R13.4', 'stop-check', dual.where(loads[0][0]) if loads else dual.where(0), dual.path,
              'cancellation must be checked in every iteration before any sampling/extension and lead to Err: ' + msg, detail=msg)

    _predicate_pass_through(ctx, prog, dual)
    _planner(ctx, prog, dual)
    # "with non-wrapping limits every node is within limits": the tree grows towards samples of constraints().random_angles();
    # that those samples honour the limits is C18's subject (slot i drawn from (from[i], to[i]), values on the arc) - re-checked here
    from . import C18
    C18.run(ctx)


def _predicate_pass_through(ctx, prog, dual):
    """R13.6: the collision predicate that gates add_vertex (R13.1) is, at every level of the call chain, the predicate the
    planner supplied: each call of a function with a predicate parameter (type parameter FF) passes the caller's own
    predicate on unchanged.  A wrapper is accepted only in the form `q == T || pred(q)` and only when every caller of the
    wrapping function passes for T a configuration that is already a tree vertex (hence already checked)."""
    mod = dual.path.rsplit('::', 1)[0]
    fns = [b for p, b in prog.bodies.items() if p.startswith(mod + '::') and b.kind != 'Closure']

    def ff_params(b):
        return [i for i in range(1, b.arg_count + 1) if b.local_ty(i).replace('&mut ', '').replace('&', '').strip() == 'FF']
    gated = {b.path: ff_params(b) for b in fns if ff_params(b)}
    exempt_targets = {}          # function path -> parameter index whose value may bypass the predicate
    sites = 0
    for b in fns:
        for bi, t in b.calls():
            callee = t['callee'].get('resolved')
            if callee not in gated or b.path not in gated:
                continue
            for p in gated[callee]:
                sites += 1
                raw = b.op_term(t['args'][p - 1], (bi, None))
                a = strip(raw)
                key = '%s->%s' % (b.path.split('::')[-1], callee.split('::')[-1])
                if isinstance(a, tuple) and a[0] in ('param', 'mparam') and a[1] in gated[b.path]:
                    ctx.ok('R13.6', key, b.where(bi), 'predicate passed on unchanged')
                    continue
                tp = _bypass_wrapper(prog, b, a)
                if tp is not None:
                    exempt_targets[b.path] = tp
                    ctx.ok('R13.6', key, b.where(bi), 'wrapper `q == target || pred(q)`; callers checked below')
                    continue
                ctx.violation('R13.6', key, b.where(bi), b.path,
                              'the collision predicate handed down is not the one the planner supplied (a weakened or replaced predicate lets unchecked configurations into the tree)',
                              found=show(raw, maxdepth=5))
    ctx.floor('R13.6 predicate hand-over sites', sites, 3)
    for fpath, tp in exempt_targets.items():
        for b in fns:
            for bi, t in b.calls():
                if t['callee'].get('resolved') != fpath:
                    continue
                a = strip(b.op_term(t['args'][tp - 1], (bi, None)))
                while isinstance(a, tuple) and a[0] == 'call' and cname(a[1]) in ('Deref::deref', 'AsRef::as_ref', 'Vec::as_slice'):
                    a = strip(a[2])
                vertex = isinstance(a, tuple) and a[0] == 'fld' and a[2] == 'data' and mir.contains(a, lambda x: x[0] == 'fld' and x[2] == 'vertices')
                pass_on = isinstance(a, tuple) and a[0] == 'param' and exempt_targets.get(b.path) == a[1]
                ctx.check(vertex or pass_on, 'R13.6', 'bypass-target@%s' % b.path.split('::')[-1], b.where(bi), b.path,
                          '%s admits its target without the collision check, so the target must already be a tree vertex; here it is not' % fpath.split('::')[-1],
                          found=show(a, maxdepth=5))


def _bypass_wrapper(prog, b, a):
    """a == closure |q| q == T || pred(q) with pred the caller's predicate parameter and T a parameter of the caller -> index of T"""
    if not (isinstance(a, tuple) and a[0] == 'agg' and str(a[1]).startswith('closure:')):
        return None
    cb = prog.bodies.get(a[1][len('closure:'):])
    if cb is None:
        return None
    target = None
    for t, d, rb in cb.return_values():
        t = strip(t)
        gs = [(strip(g), opw.truth(k)) for g, k, sw in cb.guard_terms(d[1])]
        eqs = [(g, v) for g, v in gs if isinstance(g, tuple) and g[0] == 'call' and cname(g[1]).endswith('::eq')]
        if len(eqs) != 1 or len(gs) != 1:
            return None
        g, v = eqs[0]
        sides = [strip(g[2]), strip(g[3])]
        q = [x for x in sides if util.is_param(x, 2)]
        cap = [x for x in sides if isinstance(x, tuple) and x[0] == 'fld' and util.is_param(strip(x[1]), 1)]
        if len(q) != 1 or len(cap) != 1:
            return None
        target = cap[0][2]
        if v is True:
            if util.const_val(t) not in (1, True):
                return None
        else:
            if not (isinstance(t, tuple) and t[0] == 'call' and cname(t[1]) in ('FnMut::call_mut', 'Fn::call', 'FnOnce::call_once')):
                return None
            callee = strip(t[2])
            arg = strip(t[3])
            a0 = strip(arg[2]) if isinstance(arg, tuple) and arg[0] == 'agg' and len(arg) > 2 else None
            if not (isinstance(callee, tuple) and callee[0] == 'fld' and util.is_param(strip(callee[1]), 1) and a0 is not None and util.is_param(a0, 2)):
                return None
            pred_name = callee[2].lstrip('*')
            pi = [i for i in range(1, b.arg_count + 1) if b.name_of(i) == pred_name]
            if not pi or 'FF' not in b.local_ty(pi[0]):
                return None
    if target is None:
        return None
    ti = [i for i in range(1, b.arg_count + 1) if b.name_of(i) == target.lstrip('*')]
    return ti[0] if ti else None


def _switch_after(b, bi):
    """The switch block testing the result of the call in block bi."""
    t = b.blocks[bi]['term']
    nxt = t['target']
    for _ in range(4):
        tt = b.blocks[nxt]['term']
        if tt['k'] == 'switch':
            return nxt
        if tt['k'] == 'goto':
            nxt = tt['target']
        else:
            return None
    return None


def _all_paths_return_err(b, blocks):
    """Every return-value definition inside `blocks` is an Err aggregate and the region has no back edge into the loop."""
    found = False
    for i, j, st in b.stmts():
        if i in blocks and st['lhs']['local'] == 0 and not st['lhs']['proj']:
            t = strip(b.rv_term(st['rv'], (i, j)))
            if not (isinstance(t, tuple) and t[0] == 'agg' and 'Err' in t[1]):
                return False
            found = True
    return found


def _lit(t):
    t = strip(t)
    if isinstance(t, tuple) and t[0] == 'const':
        if t[1] == 'str':
            return t[2]
    if isinstance(t, tuple) and t[0] == 'promoted' and t[1]:
        return t[1]
    return None


def _same_vec(a, b):
    def peel(t):
        t = strip(t)
        while isinstance(t, tuple) and t[0] == 'call' and cname(t[1]) in ('Deref::deref', 'Vec::as_slice', 'AsRef::as_ref'):
            t = strip(t[2])
        return t
    return peel(a) == peel(b)


def _tree_literal_term(t):
    t = strip(t)
    if isinstance(t, tuple) and t[0] == 'call' and t[1] == ROLES.get('new'):
        return _lit(t[2])
    return None


def _tree_literal(b, op, bi):
    return _tree_literal_term(b.op_term(op, (bi, None)))


def _root_of(b, op, bi):
    """local addressed by `&mut x` / deref_mut chains"""
    t = b.op_term(op, (bi, None))
    while isinstance(t, tuple):
        if t[0] in ('ref', 'deref'):
            t = t[1]
        elif t[0] == 'mutb':
            inner = t[2]
            if isinstance(inner, tuple) and inner[0] == 'call' and cname(inner[1]) in ('DerefMut::deref_mut', 'Deref::deref'):
                t = inner[2]
                continue
            if isinstance(inner, tuple) and inner[0] in ('ref', 'deref'):
                t = inner
                continue
            return t[1]
        elif t[0] == 'call' and cname(t[1]) in ('DerefMut::deref_mut', 'Deref::deref'):
            t = t[2]
        else:
            return None
    return None


def _planner(ctx, prog, dual):
    pp = [b for b in prog.bodies.values() if any(c['callee'].get('resolved') == dual.path or cname(callee_name(c)) == 'rrt_to::dual_rrt_connect' for _, c in b.calls())]
    ctx.require(len(pp) == 1, 'the planner function calling dual_rrt_connect')
    pp = pp[0]
    ctx.fn(pp)
    site = [(bi, t) for bi, t in pp.calls() if t['callee'].get('resolved') == dual.path or cname(callee_name(t)) == 'rrt_to::dual_rrt_connect'][0]
    bi, t = site
    args = [pp.op_term(a, (bi, None)) for a in t['args']]
    # Roles of the planner's parameters, by what the public plan_rrt(&self, start, goal, kinematics, stop) hands to them at its
    # one call site (positions of the public signature; parameter names are not relied on).
    params = {}
    pr0 = prog.find(suffix='rrt::RRTPlanner::plan_rrt')
    api = {2: 'start', 3: 'goal', 4: 'kinematics', 5: 'stop'}
    if len(pr0) == 1 and pr0[0].path != pp.path:
        for b2, t2 in pr0[0].calls():
            if t2['callee'].get('resolved') == pp.path:
                for pos, a in enumerate(t2['args']):
                    pi = _param_of(pr0[0].op_term(a, (b2, None)))
                    if pi in api:
                        params[api[pi]] = pos + 1
    elif len(pr0) == 1:
        params = {v: k for k, v in api.items()}
    ctx.require(set(params) >= {'start', 'goal', 'kinematics', 'stop'}, 'plan_rrt hands start, goal, kinematics and stop to the function that calls dual_rrt_connect')
    # start / goal routed positionally
    # the extension length and the iteration budget are the planner's configured step and budget, as they are
    tys = [dual.local_ty(k) for k in range(1, dual.arg_count + 1)]
    for k, (ty, a) in enumerate(zip(tys, args)):
        a0 = strip(a)
        if ty in ('N', 'f64', 'usize') and k >= 2:
            plain = isinstance(a0, tuple) and a0[0] == 'fld' and util.is_param(a0[1], 1)
            ctx.check(plain, 'R13.3', 'planner/%s' % ('step' if ty != 'usize' else 'budget'), pp.where(bi), pp.path,
                      'the tree search must be given the planner\'s own %s unchanged' % ('step length (nodes are at most a few of these steps apart)' if ty != 'usize' else 'iteration budget'),
                      found=show(a0, maxdepth=3))
    ok = _param_of(args[0]) == params.get('start') and _param_of(args[1]) == params.get('goal')
    ctx.check(ok, 'R13.3', 'planner/start-goal', pp.where(bi), pp.path, 'start / goal are not handed to the tree search in this order',
              found='%s, %s' % (show(args[0], maxdepth=3), show(args[1], maxdepth=3)))
    ctx.check(_param_of(args[6]) == params.get('stop'), 'R13.4', 'planner/stop', pp.where(bi), pp.path, 'the caller\'s stop flag is not the one handed to the tree search',
              found=show(args[6], maxdepth=3))
    # is_free closure
    cb, caps = util.closure_of_term(prog, args[2])
    ok = False
    found = None
    if cb is not None:
        ctx.fn(cb)
        # the predicate is `!collides(robot, q)`: returned as such, or as true / false on the false / true edge of that call
        tests = set()
        shape_ok = True
        for r, d, rb in cb.return_values():
            r = _open_helper(prog, r, pp)          # a predicate kept in a named helper reads as what the helper returns
            found = show(r, maxdepth=6)
            if isinstance(r, tuple) and r[0] == 'un' and r[1] == 'Not':
                tests.add(strip(r[2]))
            elif util.const_val(r) in (0, 1, True, False) and d:
                gs = [(strip(g), opw.truth(k)) for g, k, sw in cb.guard_terms(d[1])]
                gs = [(g, v) for g, v in gs if isinstance(g, tuple) and g[0] == 'call' and cname(g[1]) == 'KinematicsWithShape::collides']
                if len(gs) == 1 and gs[0][1] in (True, False) and bool(util.const_val(r)) == (not gs[0][1]):
                    tests.add(gs[0][0])
                else:
                    shape_ok = False
            else:
                shape_ok = False
        if shape_ok and len(tests) == 1:
            for c in tests:
                if isinstance(c, tuple) and c[0] == 'call' and cname(c[1]) == 'KinematicsWithShape::collides':
                    robot = strip(c[2])
                    vec = strip(c[3])
                    # robot = captured kinematics parameter of the planner
                    cap_ok = isinstance(robot, tuple) and robot[0] == 'fld' and util.is_param(strip(robot[1]), 1) and \
                        str(robot[2]).lstrip('*&') == pp.name_of(params['kinematics'])
                    cap_src = [strip(x) for x in caps]
                    cap_ok = cap_ok and any(_param_of(x) == params.get('kinematics') for x in cap_src)
                    # vec derives from closure param 2 through try_from(..).expect / unwrap
                    conv = vec
                    seen_conv = False
                    while isinstance(conv, tuple) and conv[0] == 'call' and cname(conv[1]).split('::')[-1] in ('expect', 'unwrap', 'try_from', 'try_into', 'from', 'into'):
                        seen_conv = True
                        conv = strip(conv[2])
                    ok = cap_ok and util.is_param(conv, 2) and seen_conv
    ctx.check(ok, 'R13.2', 'is_free', pp.where(bi), pp.path,
              'the free-space predicate must be the negation of collides() of the planning robot on the candidate vector', found=found,
              expected='!kinematics.collides(&<[f64;6]>::try_from(q))', detail=found or '')
    # sampler closure
    cb2, caps2 = util.closure_of_term(prog, args[3])
    ok = False
    found = None
    if cb2 is not None:
        ctx.fn(cb2)
        rvs = [_open_helper(prog, x[0], pp) for x in cb2.return_values()]
        if len(rvs) == 1:
            r = rvs[0]
            found = show(r, maxdepth=8)
            chain = []
            while isinstance(r, tuple) and r[0] in ('call', 'cast', 'fld', 'as'):
                if r[0] in ('cast', 'fld', 'as'):
                    # (.. as Some).0: the payload bound by `let Some(c) = .. else { panic!() }` / `if let`
                    r = strip(r[1])
                    continue
                chain.append(cname(r[1]))
                r = strip(r[2])
            ok = 'Constraints::random_angles' in chain and 'Kinematics::constraints' in chain and all(
                c.split('::')[-1] in ('to_vec', 'random_angles', 'expect', 'unwrap', 'as_ref', 'constraints', 'deref', 'into', 'to_owned', 'from') for c in chain)
    ctx.check(ok, 'R13.2', 'sampler', pp.where(bi), pp.path, 'random samples must come from constraints().random_angles() of the planning robot', found=found, detail=found or '')
    # R13.5 conversion
    conv = [b for b in prog.bodies.values() if b.path.startswith('rrt::') and b.kind != 'Closure' and len(util.sig(b)) == 3 and 'Vec<f64>>' in util.sig(b)[2] and 'Result' in util.sig(b)[2]]
    if ctx.check(len(conv) == 1, 'R13.5', 'convert/exists', pp.where(0), pp.path, 'result conversion helper not found'):
        c = conv[0]
        ctx.fn(c)
        names = []
        for cl in [c] + util.closure_bodies(prog, c.path) + [x for y in util.closure_bodies(prog, c.path) for x in util.closure_bodies(prog, y.path)]:
            for bi2, t2 in cl.calls():
                names.append(cname(callee_name(t2)))
        bad = [n for n in names if n.split('::')[-1] in opw.ITER_DROPPERS | opw.VEC_REMOVERS | opw.VEC_REORDER | {'rev', 'chain', 'cycle', 'interleave', 'zip', 'flat_map'}]
        mapped = any(n.endswith('::map') for n in names) and any(n.endswith('::collect') for n in names)
        # ... or a loop over the nodes that pushes one converted element per node into the vector that is returned
        looped = False
        whole_elem = False

        def _elem_of_loop(t):
            """the loop element a converted value derives from, through conversions that keep it whole and in order"""
            t = strip(t)
            for _ in range(12):
                if util.loop_source(t) is not None:
                    return t
                if isinstance(t, tuple) and t[0] in ('fld', 'as', 'cast'):
                    t = strip(t[1])
                elif isinstance(t, tuple) and t[0] == 'call' and cname(t[1]).split('::')[-1] in (
                        'branch', 'map_err', 'try_into', 'try_from', 'as_slice', 'deref', 'as_ref', 'unwrap', 'expect', 'ok_or', 'ok_or_else', 'into', 'from'):
                    t = strip(t[2])
                else:
                    return None
            return None
        pushes = [(bi2, t2) for bi2, t2 in c.calls() if cname(callee_name(t2)) == 'Vec::push']
        if len(pushes) == 1 and not mapped:
            bi2, t2 = pushes[0]
            el = _elem_of_loop(c.op_term(t2['args'][1], (bi2, None)))
            if el is not None:
                base, ad = util.iter_chain(util.loop_source(el))
                from_input = mir.contains(base, lambda x: x[0] == 'param' and x[1] == 2)
                dest = strip(c.op_term(t2['args'][0], (bi2, None)))
                oks = [strip(t3) for t3, d3, rb3 in c.return_values() if isinstance(strip(t3), tuple) and strip(t3)[0] == 'agg' and 'Ok' in strip(t3)[1]]
                looped = from_input and all(a in ('into_iter', 'iter') for a in ad) and len(oks) == 1 and strip(oks[0][2]) == dest
                whole_elem = looped and mir.contains(c.op_term(t2['args'][1], (bi2, None)), lambda x: x[0] == 'call' and cname(x[1]).split('::')[-1] in ('try_into', 'try_from'))
        ctx.check(not bad and (mapped or looped), 'R13.5', 'convert/order', c.where(0), c.path,
                  'conversion must keep every node in order', found=bad)
        # element i of the array comes from vec[i]
        ok = whole_elem
        for cl in prog.bodies.values():
            if cl.path.startswith(c.path + '::{closure'):
                for i, j, st in cl.stmts():
                    if st['rv']['k'] == 'agg' and 'Array' in str(st['rv']['kind']) and len(st['rv']['ops']) == 6:
                        t = cl.rv_term(st['rv'], (i, j))
                        idxs = []
                        for e in t[2:]:
                            e = strip(e)
                            while isinstance(e, tuple) and e[0] == 'call' and cname(e[1]).endswith('::index'):
                                idxs.append(util.const_val(e[3]))
                                break
                        ok = idxs == [0, 1, 2, 3, 4, 5]
                # ... or the whole node converted at once (slice -> array keeps the order)
                for bi3, t3 in cl.calls():
                    if cname(callee_name(t3)).split('::')[-1] in ('try_into', 'try_from') and util.is_param(_elem_root(cl, t3['args'][0], bi3), 2):
                        ok = True
        ctx.check(ok, 'R13.5', 'convert/slots', c.where(0), c.path, 'array slot i must be vector element i')
    # plan_rrt: passes start/goal/stop to plan_path and returns converted result
    pr = prog.find(suffix='rrt::RRTPlanner::plan_rrt')
    if ctx.check(len(pr) == 1, 'R13.3', 'plan_rrt/exists', pp.where(0), pp.path, 'plan_rrt not found'):
        pr = pr[0]
        ctx.fn(pr)
        site = [(bi2, t2) for bi2, t2 in pr.calls() if t2['callee'].get('resolved') == pp.path]
        # exactly one call, and each of start / goal / kinematics / stop reaches exactly one parameter of the planner
        ok = len(site) == 1 and len(set(params.values())) == 4
        ctx.check(ok, 'R13.3', 'plan_rrt/args', pr.where(site[0][0]) if site else pr.where(0), pr.path, 'plan_rrt must hand (kinematics, start, goal, stop) to the planner unchanged')


def _elem_root(b, op, bi):
    t = strip(b.op_term(op, (bi, None)))
    while isinstance(t, tuple) and t[0] == 'call' and cname(t[1]).split('::')[-1] in ('as_slice', 'deref', 'as_ref') and len(t) == 3:
        t = strip(t[2])
    return t


def _param_of(t):
    t = strip(t)
    while isinstance(t, tuple) and t[0] == 'cast':
        t = strip(t[1])
    return util.param_index(t)


def _open_helper(prog, r, pp):
    """a closure that only calls a helper of the planner's own module: the value the helper returns, arguments substituted (one level)"""
    r = strip(r)
    if isinstance(r, tuple) and r[0] == 'call' and r[1] in prog.bodies and r[1].startswith(pp.path.split('::')[0] + '::'):
        hb = prog.bodies[r[1]]
        rv = hb.return_values()
        if hb.kind != 'Closure' and len(rv) == 1:
            return strip(util.subst_params(rv[0][0], r[2:]))
    return r


def _assembly_by_interpretation(ctx, prog, dual):
    """R13.3 when the assembly is not written as two walks, a reverse, an append and a conditional reverse: the tree search is
    interpreted with its trees scripted - `extend` / `connect` answer by script, the ancestor walk of the tree named "start"
    yields [s2, s1, s-root], that of the other tree [g2, g1, g-root] - for a connection in the first iteration (the start tree
    is extended) and for one in the second (after one swap, the goal tree is extended).  Either way the path returned must be
    s-root, s1, s2, g2, g1, g-root.  Returns (ok, message) or None when the search cannot be interpreted."""
    from .. import absint
    from ..absint import Interp, Sym
    tree_adt = [a for a in prog.adts if a.endswith('rrt_to::Tree')]
    st_adt = [a for a in prog.adts if a.endswith('rrt_to::ExtendStatus')]
    if len(tree_adt) != 1 or len(st_adt) != 1:
        return None
    variants = [v['name'] for v in prog.adts[st_adt[0]]['variants']]
    if sorted(variants) != ['Advanced', 'Reached', 'Trapped']:
        return None
    fields = [f['name'] for f in prog.adts[tree_adt[0]]['variants'][0]['fields']]

    def status(name, payload=None):
        return ('enum', variants.index(name), () if payload is None else (payload,))
    roles = {}
    # the calls of the search, those made by free helpers it hands the trees to included
    all_calls = list(dual.calls())
    seen_helpers = set()
    for _ in range(2):
        for bi, t in list(all_calls):
            pth = t['callee'].get('resolved')
            hb = prog.bodies.get(pth) if t['callee'].get('local') else None
            if hb is not None and pth not in seen_helpers and not cname(callee_name(t)).startswith('Tree::') and hb.kind != 'Closure':
                seen_helpers.add(pth)
                all_calls += list(hb.calls())
    for bi, t in all_calls:
        n = cname(callee_name(t))
        for role in ('new', 'add_vertex', 'extend', 'connect', 'ancestors'):
            if role == 'ancestors' and _is(t, 'ancestors'):
                roles[n] = role
        if n.startswith('Tree::'):
            roles.setdefault(n, n.split('::')[-1])
    results = []
    for first in ('Advanced', 'Reached', 'Trapped-then-Advanced', 'Advanced-unconnected-then-Reached'):
        script = {'extend': [], 'connect': []}
        if first in ('Advanced', 'Reached'):
            script['extend'] = [status(first, 5)]
            script['connect'] = [status('Reached', 7)]
        elif first == 'Trapped-then-Advanced':
            script['extend'] = [status('Trapped'), status('Advanced', 5)]
            script['connect'] = [status('Reached', 7)]
        else:
            script['extend'] = [status('Advanced', 4), status('Reached', 5)]
            script['connect'] = [status('Advanced', 6), status('Reached', 7)]
        log = []

        def val(I, st, a):
            while isinstance(a, tuple) and a and a[0] in ('ref', 'refval', 'mref'):
                a = I.deref(a, st)
            return a

        def h_new(I, st, a, t, b):
            d = {'#adt': tree_adt[0]}
            for f in fields:
                d[f] = Sym(('tree-field', f))
            nm = [x for x in (val(I, st, y) for y in a) if isinstance(x, str)]
            if len(nm) != 1:
                raise absint.Unsupported('Tree::new without a literal name')
            d['name'] = nm[0]
            d['vertices'] = Sym(('vertices', nm[0]))
            return d

        def h_add(I, st, a, t, b):
            tr = val(I, st, a[0])
            log.append(('root', tr.get('name') if isinstance(tr, dict) else None, val(I, st, a[1])))
            return 0

        def h_step(kind):
            def h(I, st, a, t, b):
                tr = val(I, st, a[0])
                log.append((kind, tr.get('name') if isinstance(tr, dict) else None, val(I, st, a[1])))
                if not script[kind]:
                    raise absint.Undecided('script exhausted')
                return script[kind].pop(0)
            return h

        def h_anc(I, st, a, t, b):
            tr = val(I, st, a[0])
            nm = tr.get('name') if isinstance(tr, dict) else None
            log.append(('ancestors', nm, val(I, st, a[1])))
            p = 's' if nm == 'start' else 'g'
            return (Sym(p + '2'), Sym(p + '1'), Sym(p + '-root'))

        def h_load(I, st, a, t, b):
            return False

        def h_call(I, st, a, t, b):
            f = val(I, st, a[0])
            if isinstance(f, Sym) and f.tag == 'sampler':
                return Sym('q_rand')
            return absint.BUILTINS['Fn::call'](I, st, a, t, b)
        def h_log_level(I, st, a, t, b):
            # `debug!(..)`: whether the level is enabled - the logging is left out of the interpretation
            if any(isinstance(val(I, st, x), Sym) and 'tracing' in repr(val(I, st, x)) or 'log::' in repr(val(I, st, x)) for x in a):
                return False
            raise absint.Unsupported('comparison of %r' % (a,))
        H = {'Atomic::load': h_load, 'AtomicBool::load': h_load, 'Fn::call': h_call, 'PartialOrd::le': h_log_level, 'PartialOrd::ge': h_log_level,
             'PartialOrd::lt': h_log_level, 'PartialOrd::gt': h_log_level}
        for n, role in roles.items():
            H[n] = {'new': h_new, 'add_vertex': h_add, 'extend': h_step('extend'), 'connect': h_step('connect'), 'ancestors': h_anc,
                    'get_until_root': h_anc}.get(role, None) or H.get(n)
        H = {k: v for k, v in H.items() if v is not None}
        I = Interp(prog, H, fuel=200000, max_paths=8)
        I.symbolic, I.oracle = True, (lambda o, x, y: None)
        args = [('refval', (Sym('start0'), Sym('start1')), ()), ('refval', (Sym('goal0'), Sym('goal1')), ()), Sym('is_free'), Sym('sampler'), Sym('step'), 4, ('refval', Sym('stop'), ())]
        try:
            outs = I.run(dual.path, args[:dual.arg_count])
        except (absint.Unsupported, absint.Undecided) as e:
            return None if not results else (False, 'scenario %s could not be interpreted: %s' % (first, e))
        if len(outs) != 1:
            return None
        results.append((first, outs[0].ret, log))
    want = tuple(Sym(x) for x in ('s-root', 's1', 's2', 'g2', 'g1', 'g-root'))
    for first, ret, log in results:
        if not (isinstance(ret, tuple) and ret and ret[0] == 'enum' and ret[1] == 0 and len(ret[2]) == 1 and tuple(ret[2][0]) == want):
            shown = [repr(x) for x in ret[2][0]] if isinstance(ret, tuple) and ret and ret[0] == 'enum' and ret[2] and isinstance(ret[2][0], (tuple, list)) else repr(ret)
            return False, 'connection %s: the search returns %s, expected the nodes from the start root to the goal root' % (first, shown)
        # the roots: the tree named "start" is rooted at the start argument
        roots = {nm: q for k, nm, q in log if k == 'root'}
        if roots.get('start') != (Sym('start0'), Sym('start1')) or roots.get('goal') != (Sym('goal0'), Sym('goal1')):
            return False, 'the tree named "start" must be rooted at the start argument and the tree named "goal" at the goal argument: %r' % roots
        # the ancestors are taken from the node that was added / reached, in the tree that was extended / connected
        ext = [x for x in log if x[0] == 'extend']
        con = [x for x in log if x[0] == 'connect']
        anc = [x for x in log if x[0] == 'ancestors']
        if len(anc) != 2 or {anc[0][1], anc[1][1]} != {'start', 'goal'}:
            return False, 'connection %s: the ancestors must be collected once in either tree: %r' % (first, [(x[1], x[2]) for x in anc])
        by_tree = {x[1]: x[2] for x in anc}
        if by_tree.get(ext[-1][1]) != 5 or by_tree.get(con[-1][1]) != 7 or ext[-1][1] == con[-1][1]:
            return False, 'connection %s: the walks must start at the node added by extend (5) in the extended tree and at the node reached by connect (7) in the other: %r' % (first, by_tree)
    return True, 'by interpretation over %d scripted connections' % len(results)


def _ancestor_walk(ctx, prog):
    """R13.3: the ancestors of a vertex are its parent, the parent's parent .. up to and including the root, nearest first -
    decided by interpreting the tree method on a five-vertex tree (a chain 3 -> 2 -> 1 -> 0 and a branch 4 -> 1)."""
    from .. import absint
    from ..absint import Interp, Sym, SOME, NONE
    path = ROLES.get('ancestors')
    ab = prog.bodies.get(path) if path else None
    tree_adt = [a for a in prog.adts if a.endswith('rrt_to::Tree')]
    node_adt = [a for a in prog.adts if a.endswith('rrt_to::Node')]
    if ab is None or len(tree_adt) != 1 or len(node_adt) != 1:
        return
    ctx.fn(ab)
    nf = [f['name'] for f in prog.adts[node_adt[0]]['variants'][0]['fields']]
    tf = [f['name'] for f in prog.adts[tree_adt[0]]['variants'][0]['fields']]
    pf = [f for f in nf if 'parent' in f]
    df = [f for f in nf if f not in pf]
    vf = [f for f in tf if 'vert' in f or 'node' in f]
    if len(pf) != 1 or len(df) != 1 or len(vf) != 1:
        return
    parents = [None, 0, 1, 2, 1]
    nodes = tuple({'#adt': node_adt[0], pf[0]: (NONE if p is None else SOME(p)), df[0]: Sym('d%d' % k)} for k, p in enumerate(parents))
    tree = {'#adt': tree_adt[0]}
    for f in tf:
        tree[f] = Sym(('tree-field', f))
    tree[vf[0]] = nodes
    for start, want in ((3, ('d2', 'd1', 'd0')), (4, ('d1', 'd0')), (1, ('d0',)), (0, ())):
        I = Interp(prog, {}, fuel=50000, max_paths=8)
        I.symbolic, I.oracle = True, (lambda o, x, y: None)
        try:
            outs = I.run(ab.path, [('refval', tree, ()), start])
        except (absint.Unsupported, absint.Undecided):
            return
        if len(outs) != 1:
            return
        got = outs[0].ret
        ok = isinstance(got, (tuple, list)) and tuple(got) == tuple(Sym(x) for x in want)
        ctx.check(ok, 'R13.3', 'ancestors-of-%d' % start, ab.where(0), ab.path,
                  'the ancestors of vertex %d in the tree 3->2->1->0, 4->1 must be %s (parent first, the root last and included), found %s' % (start, list(want), [repr(x) for x in got] if isinstance(got, (tuple, list)) else repr(got)),
                  found=repr(got)[:200], expected=str(list(want)), detail='by interpretation')


def _tree_bookkeeping(ctx, prog):
    """R13.7: the tree records what happened - a new vertex gets the next index, no parent and the configuration it was given;
    an edge makes the first vertex the parent of the second; the extension links the new vertex below the nearest one and
    reports the new vertex; the repeated extension stops exactly at Trapped / Reached and reports that outcome."""
    from .. import absint
    from ..absint import Interp, Sym, SOME, NONE
    ctx.rule('R13.7', 'tree bookkeeping: add_vertex (next index, no parent, the given configuration), add_edge(parent, child), extend links new below nearest and reports new, connect repeats until Trapped / Reached')
    tree_adt = [a for a in prog.adts if a.endswith('rrt_to::Tree')]
    node_adt = [a for a in prog.adts if a.endswith('rrt_to::Node')]
    st_adt = [a for a in prog.adts if a.endswith('rrt_to::ExtendStatus')]
    if len(tree_adt) != 1 or len(node_adt) != 1 or len(st_adt) != 1:
        return
    nf = [f['name'] for f in prog.adts[node_adt[0]]['variants'][0]['fields']]
    tf = [f['name'] for f in prog.adts[tree_adt[0]]['variants'][0]['fields']]
    pf = [f for f in nf if 'parent' in f]
    df = [f for f in nf if f not in pf]
    vf = [f for f in tf if 'vert' in f or 'node' in f]
    variants = [v['name'] for v in prog.adts[st_adt[0]]['variants']]
    if len(pf) != 1 or len(df) != 1 or len(vf) != 1 or sorted(variants) != ['Advanced', 'Reached', 'Trapped']:
        return
    tree_bodies = [b for p_, b in prog.bodies.items() if p_.startswith('rrt_to::Tree') and b.kind != 'Closure']
    ins = prog.bodies.get(ROLES.get('insert'))
    grow = prog.bodies.get(ROLES.get('grow'))
    until = prog.bodies.get(ROLES.get('grow_until'))
    edge = [b for b in tree_bodies if b.arg_count == 3 and b.local_ty(2) == 'usize' and b.local_ty(3) == 'usize' and b.local_ty(0) == '()']

    def tree_of(parents):
        nodes = tuple({'#adt': node_adt[0], pf[0]: (NONE if p is None else SOME(p)), df[0]: Sym('d%d' % k)} for k, p in enumerate(parents))
        tr = {'#adt': tree_adt[0]}
        for f in tf:
            tr[f] = Sym(('tree-field', f))
        tr[vf[0]] = nodes
        return tr

    def run(b, args, H=None, mut=(0,)):
        I = Interp(prog, H or {}, fuel=50000, max_paths=8)
        I.symbolic, I.oracle = True, (lambda o, x, y: None)
        res = I.run_with_cells(b.path, list(args), list(mut))
        if len(res) != 1:
            raise absint.Undecided('forks')
        return res[0][0].ret, res[0][1]
    # ---- add_edge(parent, child)
    if len(edge) == 1:
        b = edge[0]
        ctx.fn(b)
        try:
            ret, cells = run(b, [('refval', tree_of([None, 0, 1, None]), ()), 1, 3])
            after = [n.get(pf[0]) for n in cells[0][vf[0]]]
            ok = after == [NONE, SOME(0), SOME(1), SOME(1)]
            ctx.check(ok, 'R13.7', 'add_edge', b.where(0), b.path, 'add_edge(a, b) must make a the parent of b and touch nothing else',
                      found=repr(after), expected='[None, Some(0), Some(1), Some(1)] after add_edge(1, 3)', detail='by interpretation')
        except (absint.Unsupported, absint.Undecided, KeyError, TypeError):
            pass
    # ---- add_vertex
    if ins is not None:
        ctx.fn(ins)
        log = []

        def h_kd(I, st, a, t, b_):
            vals = []
            for x in a[1:]:
                while isinstance(x, tuple) and x and x[0] in ('ref', 'refval', 'mref'):
                    x = I.deref(x, st)
                vals.append(x)
            log.append(tuple(vals))
            return ('enum', 0, ((),))
        try:
            q = (Sym('q0'), Sym('q1'))
            ret, cells = run(ins, [('refval', tree_of([None, 0]), ()), ('refval', q, ())], {'KdTree::add': h_kd})
            vs = cells[0][vf[0]]
            ok = ret == 2 and len(vs) == 3 and vs[2].get(pf[0]) == NONE and tuple(vs[2].get(df[0])) == q and \
                [n.get(pf[0]) for n in vs[:2]] == [NONE, SOME(0)] and (not log or (tuple(log[0][0]) == q and log[0][1] == 2))
            ctx.check(ok, 'R13.7', 'add_vertex', ins.where(0), ins.path,
                      'add_vertex(q) must append a vertex holding q without a parent, index it under the same number in the spatial index, and return that number',
                      found='returned %r, vertices %d, index entries %r' % (ret, len(vs), log[:1]), detail='by interpretation')
        except (absint.Unsupported, absint.Undecided, KeyError, TypeError, AttributeError):
            pass
    # ---- add_vertex(q, parent): the insertion that records the parent itself (no separate add_edge)
    if ins is not None and ins.arg_count == 3 and not edge:
        for parent, pname in ((NONE, 'none'), (SOME(1), 'some')):
            log = []

            def h_kd2(I, st, a, t, b_):
                return ('enum', 0, ((),))
            try:
                q = (Sym('q0'), Sym('q1'))
                ret, cells = run(ins, [('refval', tree_of([None, 0]), ()), ('refval', q, ()), parent], {'KdTree::add': h_kd2})
                vs = cells[0][vf[0]]
                ok = ret == 2 and len(vs) == 3 and vs[2].get(pf[0]) == parent and tuple(vs[2].get(df[0])) == q and [n.get(pf[0]) for n in vs[:2]] == [NONE, SOME(0)]
                ctx.check(ok, 'R13.7', 'add_vertex/parent-' + pname, ins.where(0), ins.path,
                          'add_vertex(q, parent) must append a vertex holding q under the parent it is given and return its number',
                          found='returned %r, vertices %d, parent %r' % (ret, len(vs), vs[2].get(pf[0]) if len(vs) == 3 else None), detail='by interpretation')
            except (absint.Unsupported, absint.Undecided, KeyError, TypeError, AttributeError):
                pass
        if grow is not None:
            sites = [(bi, t) for bi, t in grow.calls() if t['callee'].get('resolved') == ins.path]
            nearest = [b for b in tree_bodies if b.arg_count == 2 and b.local_ty(0) == 'usize' and b.local_ty(2).startswith('&[') and b is not ins]
            ok = len(sites) == 1 and len(nearest) == 1
            found = None
            new_t = None
            if ok:
                bi, t = sites[0]
                par = strip(grow.op_term(t['args'][2], (bi, None)))
                found = 'add_vertex(.., %s)' % show(par, maxdepth=3)
                inner = strip(par[2]) if isinstance(par, tuple) and par[0] == 'agg' and 'Some' in str(par[1]) and len(par) == 3 else None
                ok = isinstance(inner, tuple) and inner[0] == 'call' and inner[1] == nearest[0].path
                new_t = strip(grow.call_term(t, (bi, None)))
            ctx.check(ok, 'R13.7', 'extend/edge', grow.where(sites[0][0]) if sites else grow.where(0), grow.path,
                      'the extension must link the new vertex below the nearest one: add_vertex(q_new, Some(nearest index))', found=found)
            if ok:
                pay = []
                for t_, d, rb in grow.return_values():
                    t_ = strip(t_)
                    if isinstance(t_, tuple) and t_[0] == 'agg' and len(t_) == 3 and ('Reached' in str(t_[1]) or 'Advanced' in str(t_[1])):
                        pay.append(strip(t_[2]) == new_t)
                ctx.check(bool(pay) and all(pay), 'R13.7', 'extend/reports-new', grow.where(0), grow.path,
                          'Reached / Advanced must carry the index of the vertex that was just added', found=str(pay))
    # ---- connect: repeat the extension until Trapped / Reached
    if until is not None and grow is not None:
        ctx.fn(until)

        def status(name, payload=None):
            return ('enum', variants.index(name), () if payload is None else (payload,))
        for script, want in (([status('Advanced', 3), status('Advanced', 4), status('Reached', 5)], status('Reached', 5)),
                             ([status('Advanced', 3), status('Trapped')], status('Trapped')),
                             ([status('Reached', 9)], status('Reached', 9)), ([status('Trapped')], status('Trapped'))):
            left = list(script)
            calls_ = []

            def h_grow(I, st, a, t, b_):
                calls_.append(1)
                if not left:
                    raise absint.Undecided('script exhausted')
                return left.pop(0)

            def h_false(I, st, a, t, b_):
                return False
            H = {cname(grow.path): h_grow, grow.path: h_grow, 'PartialOrd::le': h_false, 'PartialOrd::ge': h_false}
            try:
                I = Interp(prog, H, fuel=50000, max_paths=8)
                I.symbolic, I.oracle = True, (lambda o, x, y: None)
                outs = I.run(until.path, [('refval', tree_of([None]), ()), ('refval', (Sym('t0'),), ()), Sym('step'), ('refval', Sym('is_free'), ())])
            except (absint.Unsupported, absint.Undecided):
                break
            if len(outs) != 1:
                break
            key = 'connect/' + '-'.join(variants[s_[1]] for s_ in script)
            ctx.check(outs[0].ret == want and not left, 'R13.7', key, until.where(0), until.path,
                      'the repeated extension must go on while the tree advances and report Trapped / Reached(index) exactly as the last extension did',
                      found='%r after %d extensions' % (outs[0].ret, len(calls_)), expected=repr(want), detail='by interpretation')
    # ---- extend: the new vertex hangs below the nearest one and is the one reported
    if grow is not None and ins is not None and len(edge) == 1:
        sites = [(bi, t) for bi, t in grow.calls() if t['callee'].get('resolved') == edge[0].path]
        nearest = [b for b in tree_bodies if b.arg_count == 2 and b.local_ty(0) == 'usize' and b.local_ty(2).startswith('&[') and b is not ins]
        ok = len(sites) == 1 and len(nearest) == 1
        found = None
        if ok:
            bi, t = sites[0]
            a1, a2 = strip(grow.op_term(t['args'][1], (bi, None))), strip(grow.op_term(t['args'][2], (bi, None)))
            found = 'add_edge(%s, %s)' % (show(a1, maxdepth=2), show(a2, maxdepth=2))
            ok = isinstance(a1, tuple) and a1[0] == 'call' and a1[1] == nearest[0].path and isinstance(a2, tuple) and a2[0] == 'call' and a2[1] == ins.path
            new_t = a2
        ctx.check(ok, 'R13.7', 'extend/edge', grow.where(sites[0][0]) if sites else grow.where(0), grow.path,
                  'the extension must link the new vertex below the nearest one: add_edge(nearest index, new index)', found=found)
        if ok:
            pay = []
            for t_, d, rb in grow.return_values():
                t_ = strip(t_)
                if isinstance(t_, tuple) and t_[0] == 'agg' and len(t_) == 3 and ('Reached' in str(t_[1]) or 'Advanced' in str(t_[1])):
                    pay.append(strip(t_[2]) == new_t)
            ctx.check(bool(pay) and all(pay), 'R13.7', 'extend/reports-new', grow.where(0), grow.path,
                      'Reached / Advanced must carry the index of the vertex that was just added', found=str(pay))


INT_BITS = {'u8': 8, 'i8': 7, 'u16': 16, 'i16': 15, 'u32': 32, 'i32': 31, 'u64': 64, 'i64': 63, 'usize': 64, 'isize': 63, 'u128': 128, 'i128': 127}


def _index_width(ctx, prog):
    """R13.8: vertex indices keep their width.  One `connect` adds distance / step vertices, so the size of a tree is not
    bounded by the number of iterations; an index stored or computed through a narrower integer type (`idx as u16`) wraps
    silently once a tree outgrows it and the ancestor walk then jumps to an unrelated vertex."""
    from ..census import Bounds
    ctx.rule('R13.8', 'no integer cast in the tree search narrows a value that is not provably within the target type (vertex indices and lengths are unbounded)')
    n = 0
    for p_, b in prog.bodies.items():
        if not p_.startswith('rrt_to::'):
            continue
        bounds = None
        for i, j, st in b.stmts():
            rv = st['rv']
            if rv['k'] != 'cast' or 'IntToInt' not in str(rv.get('kind')) or st.get('span', {}).get('exp'):
                continue
            dst = rv.get('ty')
            op = rv['op']
            src = b.local_ty(op['place']['local']) if op.get('k') in ('copy', 'move') and not op['place']['proj'] else (op.get('ty') if op.get('k') == 'const' else None)
            if dst not in INT_BITS or src not in INT_BITS or INT_BITS[dst] >= INT_BITS[src]:
                continue
            n += 1
            bounds = bounds or Bounds(b)
            r = bounds.rng(b.op_term(op, (i, j)))
            ok = r is not None and r[0] >= 0 and r[1] < 2 ** INT_BITS[dst]
            ctx.check(ok, 'R13.8', '%s/%s-as-%s' % (p_.split('::')[-1], src, dst), b.where(i, j), b.path,
                      'a %s value that is not provably below 2^%d is cast to %s: vertex indices and tree sizes are unbounded' % (src, INT_BITS[dst], dst),
                      found=show(b.op_term(op, (i, j)), maxdepth=3), detail='range %s' % (r,))
    if n == 0:
        ctx.ok('R13.8', 'no-narrowing-casts', '', 'no narrowing integer cast in the tree search')
