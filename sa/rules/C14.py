"""C14 - single-joint offsets offered to search planners are legal and collision-free."""
from .. import absint, mir, util, opw
from .. import collision_model as cm
from ..mir import cname, strip, callee_name, show
from . import C10
from ..facts import MachineryError

EXPLANATION = ('Decides from MIR: (R14.1) the twelve candidates are initial with slot k replaced by from[k] / to[k] for k in 0..6 (same k); '
               '(R14.2) a candidate outside the limits is withheld on the false edge of compliant(&candidate); (R14.3) skip-set soundness: with '
               'skip = {0..k-1} the extracted pair table (abstract interpretation of the enumeration, as for C10) still contains every relevant '
               'pair that has a moved member (links k..5 and the tool); (R14.4) the body\'s own safety table, first-collision mode, candidate kept '
               'exactly on the empty-result edge, order-preserving parallel collect.  The enumeration is interpreted as a whole first (the twelve candidates with and without limits, each candidate in turn refused by the limits and by the collision check); the structural reading is the fall-back.  (R11.5) non_colliding_offsets of the robot with shape is the query of its body, unchanged.  Mesh geometry is that of C10 and not decided.')
NOT_DECIDED = 'geometry of the collision queries (C10)'
ASSUMPTIONS = ['the initial configuration is collision free (precondition of the API): pairs of two unmoved bodies need no re-check']


def _skip_shape(sk):
    """skip == (0..k).collect() or (0..k).chain([consts]).collect(), k the moved joint of the task -> (set of extra members, recognised?)"""
    sk = strip(sk)
    if not (isinstance(sk, tuple) and sk[0] == 'call' and cname(sk[1]).endswith('::collect')):
        return None, False
    it = strip(sk[2])
    extras = set()
    while isinstance(it, tuple) and it[0] == 'call' and cname(it[1]).split('::')[-1] in ('chain', 'into_iter'):
        if cname(it[1]).split('::')[-1] == 'chain':
            other = strip(it[3])
            while isinstance(other, tuple) and other[0] == 'call' and cname(other[1]).split('::')[-1] in ('into_iter', 'iter', 'copied', 'cloned'):
                other = strip(other[2])
            if not (isinstance(other, tuple) and other[0] == 'agg' and other[1] == 'array'):
                return None, False
            for e in other[2:]:
                v = util.const_val(e)
                if not isinstance(v, int):
                    return None, False
                extras.add(v)
        it = strip(it[2])
    if isinstance(it, tuple) and it[0] == 'agg' and str(it[1]).endswith('Range'):
        k_t = strip(it[3])
        ok = util.const_val(it[2]) == 0 and isinstance(k_t, tuple) and k_t[0] == 'fld' and k_t[2] == '0' and util.is_param(k_t[1], 2)
        return extras, ok
    return None, False


class _Script(Exception):
    pass


def _by_interpretation(ctx, prog, nb, enum_b):
    """R14.1 / R14.2 / R14.4 by abstract interpretation of non_colliding_offsets on distinct point values: the twelve
    candidates, the limits gate and the collision gate are observed through scripted answers of compliant() and of the pair
    enumeration (each candidate in turn refused by one of them).  Returns the constant extra members of the skip sets."""
    from ..absint import Interp, Iv, Sym, SOME, NONE
    ctx.fn(nb)
    for cb in util.closure_bodies(prog, nb.path):
        ctx.fn(cb)
    INIT = tuple(10.0 + k for k in range(6))
    FROM = tuple(20.0 + k for k in range(6))
    TO = tuple(30.0 + k for k in range(6))
    expected = set()
    for k in range(6):
        for tg in (FROM, TO):
            expected.add(INIT[:k] + (tg[k],) + INIT[k + 1:])
    own_safety = Sym('own-safety-table')
    first = [i for i, v in enumerate(prog.adts['collisions::CheckMode']['variants']) if v['name'] == 'FirstCollisionOnly'][0]

    def cand_of(v, I, st):
        v = cm._val(I, st, v)
        if isinstance(v, (tuple, list)) and len(v) == 6 and all(isinstance(x, Iv) and x.is_point() for x in v):
            return tuple(x.lo for x in v)
        raise absint.Unsupported('candidate %r' % (v,))

    def run(limits, refuse_limits=None, refuse_collision=None):
        calls = []
        asked = []

        def h_constraints(I, st, a, t, b):
            return ('refval', SOME(Sym('limits')) if limits else NONE, ())

        def h_compliant(I, st, a, t, b):
            cnd = cand_of(a[1], I, st)
            asked.append(cnd)
            return cnd != refuse_limits

        def h_fk(I, st, a, t, b):
            cnd = cand_of(a[1], I, st)
            return tuple(Sym(('pose', i, cnd)) for i in range(6))

        def h_cast(I, st, a, t, b):
            return cm._val(I, st, a[0])

        def h_enum(I, st, a, t, b):
            poses = cm._val(I, st, a[1])
            cnd = poses[0].tag[2] if isinstance(poses, (tuple, list)) and poses and isinstance(poses[0], Sym) and isinstance(poses[0].tag, tuple) else None
            calls.append({'poses': poses, 'safety': cm._val(I, st, a[2]), 'mode': cm._val(I, st, a[3]), 'skip': cm._val(I, st, a[4]), 'cand': cnd})
            return ((0, 1000),) if cnd == refuse_collision else ()

        def h_collect(I, st, a, t, b):
            items = absint._items_of(I, st, a[0])
            return frozenset(items) if 'HashSet' in b.local_ty(t['dest']['local']) else tuple(items)

        def h_is_empty(I, st, a, t, b):
            return len(cm._val(I, st, a[0])) == 0

        def h_flat_map(I, st, a, t, b):
            out = []
            for x in absint._items_of(I, st, a[0]):
                out += list(absint._items_of(I, st, absint._call_f(I, st, a[1], [x])))
            return {'#iter': 'seq', 'items': tuple(out), 'pos': 0}

        def h_set_new(I, st, a, t, b):
            return frozenset()

        def h_set_insert(I, st, a, t, b):
            cur = cm._val(I, st, a[0])
            I._write_ref(st, a[0], frozenset(cur) | {a[1]})
            return a[1] not in cur

        def h_is_some_and(I, st, a, t, b):
            o = absint._opt(I, st, a[0])
            return False if o[1] == 0 else absint._truth(absint._call_f(I, st, a[1], [o[2][0]]))
        H = dict(cm.HANDLERS)
        H.update({'Kinematics::constraints': h_constraints, 'Constraints::compliant': h_compliant, 'Kinematics::forward_with_joint_poses': h_fk,
                  'Isometry::cast': h_cast, 'RobotBody::' + enum_b.path.split('::')[-1]: h_enum, enum_b.path: h_enum,
                  'Iterator::collect': h_collect, 'ParallelIterator::collect': h_collect, 'Vec::is_empty': h_is_empty, 'slice::is_empty': h_is_empty,
                  'IntoParallelRefIterator::par_iter': absint.h_iter, 'IntoParallelIterator::into_par_iter': absint.h_into_iter,
                  'ParallelIterator::filter_map': absint.h_iter_filter_map, 'ParallelIterator::map': absint.h_iter_map,
                  'ParallelIterator::filter': absint.h_iter_filter, 'ParallelIterator::flat_map': h_flat_map, 'Iterator::flat_map': h_flat_map,
                  'ParallelIterator::flat_map_iter': h_flat_map, 'HashSet::new': h_set_new, 'HashSet::with_capacity': h_set_new, 'HashSet::insert': h_set_insert,
                  'Option::is_some_and': h_is_some_and, 'Option::is_none_or': lambda I, st, a, t, b: True if absint._opt(I, st, a[0])[1] == 0 else absint._truth(absint._call_f(I, st, a[1], [absint._opt(I, st, a[0])[2][0]]))})
        me = cm.body_model(True, True, 2, own_safety)
        I = Interp(prog, H, fuel=400000, max_paths=64)
        try:
            outs = I.run(nb.path, [('refval', me, ()), ('refval', tuple(Iv(x) for x in INIT), ()), ('refval', tuple(Iv(x) for x in FROM), ()),
                                   ('refval', tuple(Iv(x) for x in TO), ()), Sym('kinematics')])
        except (absint.Unsupported, absint.Undecided) as e:
            raise MachineryError('non_colliding_offsets could not be interpreted (%s): %s' % (type(e).__name__, e))
        if len(outs) != 1:
            raise MachineryError('non_colliding_offsets forks on point values (%d outcomes)' % len(outs))
        res = []
        for v in outs[0].ret:
            res.append(tuple(x.lo for x in v))
        return res, calls, asked
    where = nb.where(0)
    res, calls, asked = run(True)
    ctx.check(set(res) == expected and len(res) == len(expected), 'R14.1', 'candidates', where, nb.path,
              'with nothing refused the offsets must be exactly the twelve vectors initial[k := from[k]] and initial[k := to[k]]: missing %s, unexpected %s' % (
                  sorted(expected - set(res))[:3], sorted(set(res) - expected)[:3]), found='%d offered' % len(res), detail='twelve candidates')
    res0, calls0, asked0 = run(False)
    ctx.check(set(res0) == expected, 'R14.2', 'no-limits', where, nb.path, 'a robot without limits must be offered every free neighbour (%d of 12 offered)' % len(set(res0) & expected),
              found='%d offered' % len(res0), detail='twelve candidates without limits')
    extras = None
    bad_calls = []
    for cdesc in calls:
        cnd = cdesc['cand']
        ks = [k for k in range(6) if cnd is not None and cnd[k] != INIT[k]]
        ok = cnd in expected and len(ks) == 1 and cdesc['safety'] == own_safety and cdesc['mode'] in (SOME(('enum', first, ())), ('enum', first, ())) and isinstance(cdesc['skip'], frozenset)
        if ok:
            ex = frozenset(cdesc['skip']) - frozenset(range(ks[0]))
            missing = frozenset(range(ks[0])) - frozenset(cdesc['skip'])
            # skipping fewer unmoved links than allowed is harmless; skipping a link from k on is judged by the pair tables through `extras`
            extras = ex if extras is None else (extras | ex)
        else:
            bad_calls.append('%s: safety=%r mode=%r skip=%r' % (cnd, cdesc['safety'], cdesc['mode'], cdesc['skip']))
    ctx.check(not bad_calls and len(calls) == 12, 'R14.4', 'call', where, nb.path,
              'each candidate must be checked once with its own link poses, the body\'s own safety table and first-collision mode: ' + '; '.join(bad_calls[:2]),
              found='%d calls' % len(calls), detail='12 calls')
    moved_extra = sorted(x for x in (extras or ()) if isinstance(x, int) and (x <= 5 or x == cm.J_TOOL))
    # a member >= k is only "extra" relative to 0..k-1 of that call; constant extras that can move are reported
    const_extra = frozenset(x for x in (extras or ()) if all(x in c2['skip'] for c2 in calls))
    ctx.check(not [x for x in const_extra if x <= 5 or x == cm.J_TOOL], 'R14.3', 'skip-set', where, nb.path,
              'the skip set must be the joints before the moved one (0..k), plus at most bodies that never move: it names a moved body %s' % sorted(const_extra),
              found=str(sorted(const_extra)), detail='skip = (0..k) + %s' % sorted(const_extra))
    per_call_bad = []
    for cdesc in calls:
        cnd = cdesc['cand']
        ks = [k for k in range(6) if cnd is not None and cnd[k] != INIT[k]]
        if len(ks) == 1 and isinstance(cdesc['skip'], frozenset):
            over = [x for x in cdesc['skip'] if isinstance(x, int) and x >= ks[0] and x not in const_extra and (x <= 5 or x == cm.J_TOOL)]
            if over:
                per_call_bad.append('moving joint %d skips %s' % (ks[0] + 1, sorted(over)))
    ctx.check(not per_call_bad, 'R14.3', 'skip-set/moved', where, nb.path, 'a link that moves with the changed joint is skipped: ' + '; '.join(per_call_bad[:3]), found=str(per_call_bad[:3]))
    # each candidate in turn refused by the limits / by the collision check
    lim_bad = []
    col_bad = []
    for cnd in sorted(expected):
        r1, _, _ = run(True, refuse_limits=cnd)
        if set(r1) != expected - {cnd}:
            lim_bad.append(cnd)
        r2, _, _ = run(True, refuse_collision=cnd)
        if set(r2) != expected - {cnd}:
            col_bad.append(cnd)
    ctx.check(not lim_bad, 'R14.2', 'limit-gate', where, nb.path,
              'a candidate outside the limits must be withheld and only that one (wrong for %d of 12 candidates, e.g. %s)' % (len(lim_bad), lim_bad[:1]), found=str(lim_bad[:2]))
    ctx.check(not col_bad, 'R14.4', 'keep-on-empty', where, nb.path,
              'a candidate must be offered exactly when its collision report is empty (wrong for %d of 12 candidates, e.g. %s)' % (len(col_bad), col_bad[:1]), found=str(col_bad[:2]))
    return frozenset(const_extra)


def run(ctx):
    prog = ctx.prog
    from .C11 import shape_wrappers
    shape_wrappers(ctx, prog)
    ctx.rule('R14.1', 'candidates = initial with slot k := target[k], k in 0..6, target in {from, to}')
    ctx.rule('R14.2', 'None is returned on the false edge of compliant(&candidate) when constraints exist')
    ctx.rule('R14.3', 'with skip = {0..k-1} every relevant pair with a moved member (links k..5, tool) is still checked')
    ctx.rule('R14.4', 'own safety table, first-collision mode, candidate kept on the empty-result edge, order-preserving collect')
    nb = util.find_one(ctx, suffix='collisions::RobotBody::non_colliding_offsets')
    cls = util.closure_bodies(prog, nb.path)
    main = [c for c in cls if any(cname(callee_name(t)).startswith('RobotBody::detect') for _, t in c.calls())]
    enum_b = C10.find_enumeration(ctx)
    pushes0 = [(bi, t) for bi, t in nb.calls() if cname(callee_name(t)) == 'Vec::push']
    # the function is interpreted as a whole (the twelve candidates, with and without limits, each candidate in turn refused by
    # the limits and by the collision check); only when that is not possible do the structural rules below read the shape it
    # has today (twelve (k, target) tasks pushed in a double loop, one closure that builds, gates and checks the candidate)
    try:
        extras = _by_interpretation(ctx, prog, nb, enum_b)
        _pair_tables(ctx, enum_b, extras)
        return
    except MachineryError:
        if len(main) != 1 or len(pushes0) != 1:
            raise
    c = main[0]
    ctx.fn(c)

    # ---- R14.1 task generation in the parent
    pushes = [(bi, t) for bi, t in nb.calls() if cname(callee_name(t)) == 'Vec::push']
    ok = False
    found = None
    if len(pushes) == 1:
        bi, t = pushes[0]
        item = strip(nb.op_term(t['args'][1], (bi, None)))
        if isinstance(item, tuple) and item[0] == 'agg' and len(item) == 4:
            k_src = util.loop_source(item[2])
            tg_src = util.loop_source(item[3])
            r = util.range_of(k_src) if k_src is not None else None
            k_ok = r is not None and util.const_val(r[0]) == 0 and util.const_val(r[1]) == 6 and r[2] in ([], ['into_iter'])
            tg_ok = False
            if tg_src is not None:
                base, ad = util.iter_chain(tg_src)
                base = strip(base)
                if isinstance(base, tuple) and base[0] == 'agg' and base[1] == 'array' and len(base) == 4:
                    # non_colliding_offsets(&self, initial, from, to, kinematics): the limits are parameters 3 and 4
                    ps = sorted(util.param_index(x) or -1 for x in base[2:])
                    tg_ok = ps == [3, 4]
            ok = k_ok and tg_ok
            found = 'k from %s, target from %s' % (show(k_src, maxdepth=3) if k_src else None, show(tg_src, maxdepth=4) if tg_src else None)
    ctx.check(ok, 'R14.1', 'tasks', nb.where(pushes[0][0]) if pushes else nb.where(0), nb.path, 'tasks must be (k, target) for k in 0..6 and target in {from, to}', found=found, detail=found or '')

    # candidate construction in the closure
    arr = []
    for l in util.locals_of_type(c, lambda t: t == '[f64; 6]'):
        ds = c.defs().get(l, [])
        if l in c.names and len([d for d in ds if d[4]]) == 1 and len([d for d in ds if not d[4]]) >= 1:
            arr.append(l)
    from .C16 import partial_writes
    ok = False
    found = None
    if len(arr) == 1:
        loc = arr[0]
        init = [d for d in c.defs().get(loc, []) if d[4]]
        ws = partial_writes(c, lambda lhs, i, j: lhs['local'] == loc and len(lhs['proj']) == 1)
        if len(init) == 1 and len(ws) == 1:
            A = strip(c._def_term(init[0]))
            i, j, it, v = ws[0]
            v = strip(v)
            found = '%s[%s] := %s (init %s)' % (c.name_of(loc), show(it, maxdepth=4), show(v, maxdepth=5), show(A, maxdepth=4))
            # the closure captures the parent's second parameter (the configuration the offsets start from)
            init_ok = isinstance(A, tuple) and A[0] == 'fld' and util.is_param(strip(A[1]), 1) and nb.name_of(2) is not None and \
                A[2].lstrip('*&') == nb.name_of(2)
            # it == (param2).0 ; v == idx((param2).1, (param2).0)
            k_t = strip(it)
            k_ok = isinstance(k_t, tuple) and k_t[0] == 'fld' and k_t[2] == '0' and util.is_param(k_t[1], 2)
            v_ok = isinstance(v, tuple) and v[0] == 'idx' and strip(v[2]) == k_t and isinstance(strip(v[1]), tuple) and strip(v[1])[0] == 'fld' \
                and strip(v[1])[2] == '1' and util.is_param(strip(v[1])[1], 2)
            ok = init_ok and k_ok and v_ok
    ctx.check(ok, 'R14.1', 'candidate', c.where(0), c.path, 'candidate must be initial with exactly slot k replaced by target[k] (same k)', found=found, detail=found or '')

    # ---- R14.2 limit gate
    gate = False
    for t, d, rb in c.return_values():
        t = strip(t)
        if isinstance(t, tuple) and t[0] == 'agg' and 'None' in t[1]:
            for g, k, sw in c.guard_terms(d[1]):
                g = strip(g)
                if isinstance(g, tuple) and g[0] == 'call' and cname(g[1]) == 'Constraints::compliant' and opw.truth(k) is False:
                    cand = strip(g[3])
                    recv = strip(g[2])
                    recv_ok = 'Kinematics::constraints' in show(recv, maxdepth=6)
                    cand_ok = isinstance(cand, tuple) and cand[0] in ('var', 'mutb') or (len(arr) == 1 and c.name_of(arr[0]) in show(cand))
                    gate = gate or (recv_ok and cand_ok)
    ctx.check(gate, 'R14.2', 'limit-gate', c.where(0), c.path, 'an out-of-limits candidate must be withheld (None on the false edge of compliant(&candidate))')

    # ---- R14.4 / skip argument at the enumeration call
    site = [(bi, t) for bi, t in c.calls() if t['callee'].get('resolved') == enum_b.path]
    ctx.require(len(site) == 1, 'call of the pair enumeration inside the candidate closure')
    bi, t = site[0]
    eb = enum_b
    ptypes = [eb.local_ty(p) for p in range(1, eb.arg_count + 1)]
    args = [strip(c.op_term(a, (bi, None))) for a in t['args']]
    byty = {}
    for ty, a in zip(ptypes, args):
        key = 'safety' if 'SafetyDistances' in ty else 'mode' if 'CheckMode' in ty else 'skip' if 'HashSet' in ty else 'poses' if 'Isometry' in ty else 'self'
        byty[key] = a
    s = show(byty['safety'], maxdepth=5)
    ctx.check('self' in s and s.endswith('.safety'), 'R14.4', 'safety-table', c.where(bi), c.path, 'the body\'s own safety table must be used', found=s)
    ctx.check('FirstCollisionOnly' in show(byty['mode'], maxdepth=5), 'R14.4', 'mode', c.where(bi), c.path, 'first-collision mode must be forced', found=show(byty['mode'], maxdepth=5))
    sk = byty['skip']
    extras, sk_ok = _skip_shape(sk)
    # members other than the joints before the moved one may only be bodies that never move (the base, environment objects)
    moved_extra = sorted(x for x in (extras or ()) if x <= 5 or x == cm.J_TOOL)
    ctx.check(sk_ok and not moved_extra, 'R14.3', 'skip-set', c.where(bi), c.path,
              'the skip set must be the joints before the moved one (0..k), plus at most bodies that never move' +
              ('' if sk_ok else ': unrecognised construction') + (': it names a moved body %s' % moved_extra if moved_extra else ''),
              found=show(sk, maxdepth=6), detail='skip = (0..k)%s' % (' + %s' % sorted(extras) if extras else ''))
    extras = frozenset(extras or ())
    # poses of the candidate
    ps = show(util.peval(prog, byty['poses']), maxdepth=7)       # a helper computing the f32 link poses is written out
    ctx.check('forward_with_joint_poses' in ps and c.name_of(arr[0]) in ps if arr else False, 'R14.4', 'poses', c.where(bi), c.path,
              'link poses must be those of the candidate', found=ps)
    # Some(candidate) exactly on the is_empty true edge
    some_ok = none_ok = False
    for tt, d, rb in c.return_values():
        tt = strip(tt)
        gs = [(strip(g), opw.truth(k)) for g, k, sw in c.guard_terms(d[1])]
        emp = []
        for g, v in gs:
            eg = util.emptiness_guard(g, v)
            if eg is not None and enum_b.path.split('::')[-1] in show(eg[0], maxdepth=4):
                emp.append(eg[1])
        if isinstance(tt, tuple) and tt[0] == 'agg' and 'Some' in tt[1] and emp == [True]:
            some_ok = arr and c.name_of(arr[0]) in show(tt)
        if isinstance(tt, tuple) and tt[0] == 'agg' and 'None' in tt[1] and emp == [False]:
            none_ok = True
    ctx.check(bool(some_ok) and none_ok, 'R14.4', 'keep-on-empty', c.where(bi), c.path, 'the candidate must be offered exactly when the collision report is empty')
    # parent: par_iter().filter_map(closure).collect()
    chain = [cname(callee_name(t2)) for _, t2 in nb.calls()]
    ctx.check('ParallelIterator::filter_map' in chain and 'ParallelIterator::collect' in chain and not any(x.split('::')[-1] in opw.VEC_REORDER for x in chain),
              'R14.4', 'collect', nb.where(0), nb.path, 'results must be gathered by an order-preserving parallel collect', found=chain)

    _pair_tables(ctx, enum_b, extras)


def _pair_tables(ctx, enum_b, extras):
    # ---- R14.3 table soundness per k
    where = enum_b.where(0)
    for k in range(6):
        for tool in (True, False):
            for base in (True, False):
                ex = C10.extract(ctx, enum_b, tool=tool, base=base, n_env=2, skip=frozenset(range(k)) | extras)
                got = set(ex.pairs())
                spec = cm.spec_pairs(tool, base, 2)
                moved = set(range(k, 6)) | {cm.J_TOOL}
                need = {p for p in spec if p[0] in moved or p[1] in moved}
                missing = sorted(need - got)
                ctx.check(not missing, 'R14.3', 'moved-J%d(tool=%d,base=%d)' % (k + 1, tool, base), where, enum_b.path,
                          'moving joint %d leaves pairs with a moved member unchecked: %s' % (k + 1, [C10.pname(p) for p in missing]),
                          detail='%d of %d pairs re-checked' % (len(got), len(spec)))
