"""C09 - tool, base and frame wrappers compose transforms consistently in both directions."""
from .. import algebra, mir, util
from ..mir import show, strip, cname

EXPLANATION = ('Decides the structural clauses of C09 from MIR: (R09.1) exhaustive delegation matrix wrapper x trait method; '
               '(R09.2) free-group identity W_inverse(W_forward(X)) = X for the transforms applied around the inner call; '
               '(R09.3) pass-through of previous / j6 / joints and of the inner result; (R09.4) link-pose handling; '
               '(R09.5) LinearAxis / Gantry composition.  Numerical closeness after composition is not decided.')
NOT_DECIDED = 'numerical closeness of the composed poses (inherits C01)'
ASSUMPTIONS = ['nalgebra Isometry3 multiplication and inverse() form a group (x * x^-1 = identity up to rounding)']

WRAPPERS = ['tool::Tool', 'tool::Base', 'frame::Frame']


def inner_call(ctx, body, method_expected=None):
    v = util.virtual_calls(body)
    return v


def run(ctx):
    prog = ctx.prog
    kf = util.kin_fields(prog)
    impls = util.kin_impls(prog)
    wrappers = [w for w in impls if w in kf]
    ctx.floor('R09.1 wrapper impls', len(wrappers), 5)
    ctx.rule('R09.1', 'every Kinematics method of every wrapper makes exactly one virtual call on its inner robot, to the same trait method')
    ctx.rule('R09.2', 'the pose handed to the inner inverse, with the wrapper\'s forward substituted for the requested pose, reduces to the inner forward pose (free-group normal form)')
    ctx.rule('R09.3', 'previous / j6 / joints reach the inner call unchanged and the inner result is returned unchanged')
    ctx.rule('R09.4', 'link poses: Tool returns the inner array; Base pre-multiplies every element by base; Frame rewrites exactly the last element with the word of its forward')
    ctx.rule('R09.5', 'LinearAxis arm k puts the distance into component k; LinearAxis and Gantry compose base * T * robot')

    # ---- R09.1 delegation matrix (all wrappers incl. Parallelogram and KinematicsWithShape)
    cells = 0
    for w in wrappers:
        for m in util.KIN_METHODS:
            b = prog.trait_impl_method(w, 'Kinematics', m)
            ctx.require(b is not None, 'impl Kinematics for %s::%s' % (w, m))
            ctx.fn(b)
            v = util.virtual_calls(b)
            key = '%s/%s' % (w, m)
            cells += 1
            if len(v) != 1:
                ctx.violation('R09.1', key, b.where(0), b.path, 'expected exactly one call on the inner robot, found %d' % len(v),
                              found=[x[2] for x in v], expected=m)
                continue
            bi, t, name = v[0]
            recv_ok = util.is_self_field(b.op_term(t['args'][0], (bi, None)), kf[w])
            ctx.check(name == m and recv_ok, 'R09.1', key, b.where(bi), b.path,
                      'delegates to `%s` (receiver self.%s: %s) instead of `%s`' % (name, kf[w], recv_ok, m),
                      found='Virtual(Kinematics::%s)' % name, expected='Virtual(Kinematics::%s)' % m, detail='-> ' + name)
            # the second argument of the inverse entry points (previous / j6) is the caller's, for every wrapper
            if m in util.INVERSE_METHODS and len(t['args']) > 2 and w not in WRAPPERS:
                a2 = b.op_term(t['args'][2], (bi, None))
                ctx.check(util.is_param(a2, 3), 'R09.3', key + '/arg', b.where(bi), b.path,
                          'second argument (previous / j6) is not passed unchanged', found=show(a2))
    ctx.floor('R09.1 cells', cells, 40)

    # ---- R09.2 / R09.3 for Tool, Base, Frame
    for w in WRAPPERS:
        ctx.require(w in wrappers, 'wrapper ' + w)
        fwd = prog.trait_impl_method(w, 'Kinematics', 'forward')
        v = util.virtual_calls(fwd)
        if len(v) != 1 or v[0][2] != 'forward':
            continue  # already reported by R09.1
        X = algebra.canon(strip(fwd.call_term(v[0][1], (v[0][0], None))))
        wf = algebra.word(util.inline_calls(prog, fwd.return_term()))
        n_x = sum(1 for a, e in wf if a == X and e == 1)
        ctx.check(n_x == 1, 'R09.2', '%s/forward-word' % w, fwd.where(v[0][0]), fwd.path,
                  'forward is not a product containing the inner forward pose exactly once', found=_sw(wf), detail=_sw(wf))
        # joints pass-through
        ctx.check(util.is_param(fwd.op_term(v[0][1]['args'][1], (v[0][0], None)), 2), 'R09.3', '%s/forward/joints' % w,
                  fwd.where(v[0][0]), fwd.path, 'joints are not passed unchanged to the inner forward')
        for m in util.INVERSE_METHODS:
            b = prog.trait_impl_method(w, 'Kinematics', m)
            vv = util.virtual_calls(b)
            if len(vv) != 1:
                continue
            bi, t, name = vv[0]
            # straight-line helpers of the wrapper (a `flange(tcp)` shared by the four entry points) are written out
            pose_t = util.inline_calls(prog, b.op_term(t['args'][1], (bi, None)))

            def subst(a, wf=wf):
                if isinstance(a, tuple) and a[0] == 'param' and a[1] == 2:
                    return wf
                return None
            wi = algebra.word(pose_t, subst)
            key = '%s/%s' % (w, m)
            ctx.check(wi == [(X, 1)], 'R09.2', key, b.where(bi), b.path,
                      'inverse(pose) o forward does not reduce to the inner pose: the transform is applied on the wrong side or not inverted',
                      found='W_i(W_f(X)) = ' + _sw(wi) + '   with W_i = ' + _sw(algebra.word(pose_t)), expected='X (inner forward pose)',
                      detail='W_i = ' + _sw(algebra.word(pose_t)))
            # other argument pass-through and return pass-through
            if len(t['args']) > 2:
                a2 = b.op_term(t['args'][2], (bi, None))
                ctx.check(util.is_param(a2, 3), 'R09.3', key + '/arg', b.where(bi), b.path,
                          'second argument (previous / j6) is not passed unchanged', found=show(a2))
            rt = strip(b.return_term())
            ct = strip(b.call_term(t, (bi, None)))
            ctx.check(rt == ct, 'R09.3', key + '/return', b.where(bi), b.path,
                      'inner result is not returned unchanged', found=show(rt, maxdepth=4))

    forward_transformed(ctx, prog, 'R09.2', 'R09.3')

    # ---- R09.4 link poses
    tool = prog.trait_impl_method('tool::Tool', 'Kinematics', 'forward_with_joint_poses')
    vv = util.virtual_calls(tool)
    if len(vv) == 1:
        ctx.check(strip(tool.return_term()) == strip(tool.call_term(vv[0][1], (vv[0][0], None))), 'R09.4', 'tool::Tool/link-poses', tool.where(vv[0][0]), tool.path,
                  'Tool must return the inner link poses unchanged', found=show(tool.return_term(), maxdepth=4))
    _base_link_poses(ctx, prog)
    _frame_link_poses(ctx, prog)

    # ---- R09.5 axes
    _linear_axis(ctx, prog)
    _gantry(ctx, prog)
    if ctx.pid in ('C09', 'C03', 'C06'):
        # the wrappers compose correctly only if the stack is assembled as Tool{Base{robot}} with the caller's transforms:
        # the constructor clause of C11 is re-checked here
        from . import C11
        ctx.rule('R11.3', 'kinematic stack = Tool{Base{OPWKinematics::new_with_constraints(params, constraints), base}, tool}; BaseBody.base_pose from the same base transform; both constructors agree')
        C11._stack(ctx, ctx.prog)


def forward_transformed(ctx, prog, r2, r3):
    # ---- R09.2 Frame::forward_transformed
    ft = prog.find(suffix='frame::Frame::forward_transformed')
    ctx.require(len(ft) == 1, 'Frame::forward_transformed')
    ft = ft[0]
    ctx.fn(ft)
    vv = util.virtual_calls(ft)
    names = sorted(x[2] for x in vv)
    if ctx.check(names == ['forward', 'inverse_continuing'], r2, 'frame::Frame/forward_transformed/calls', ft.where(0), ft.path,
                 'expected inner forward then inverse_continuing', found=names):
        f = [x for x in vv if x[2] == 'forward'][0]
        ic = [x for x in vv if x[2] == 'inverse_continuing'][0]
        X = algebra.canon(strip(ft.call_term(f[1], (f[0], None))))
        pose_w = algebra.word(ft.op_term(ic[1]['args'][1], (ic[0], None)))
        frame_atom = None
        ok = len(pose_w) == 2 and pose_w[1] == (X, 1) and pose_w[0][1] == 1 and _is_self_fld(pose_w[0][0], 'frame')
        ctx.check(ok, r2, 'frame::Frame/forward_transformed/pose', ft.where(ic[0]), ft.path,
                  'pose solved for is not frame * forward(qs)', found=_sw(pose_w), expected='self.frame * forward(qs)', detail=_sw(pose_w))
        ctx.check(util.is_param(ft.op_term(f[1]['args'][1], (f[0], None)), 2) and util.is_param(ft.op_term(ic[1]['args'][2], (ic[0], None)), 3),
                  r3, 'frame::Frame/forward_transformed/args', ft.where(ic[0]), ft.path, 'qs / previous not passed unchanged')
        rt = strip(ft.return_term())
        ok = isinstance(rt, tuple) and rt[0] == 'agg' and len(rt) == 4 and strip(rt[2]) == strip(ft.call_term(ic[1], (ic[0], None))) \
            and algebra.word(rt[3]) == pose_w
        ctx.check(ok, r3, 'frame::Frame/forward_transformed/return', ft.where(ic[0]), ft.path,
                  'does not return (inner solutions, frame-moved pose)', found=show(rt, maxdepth=4))



def _sw(w):
    return algebra.show_word(w, lambda a: show(a, maxdepth=3))


def _is_self_fld(a, name):
    return isinstance(a, tuple) and a[0] == 'fld' and a[2] == name and isinstance(a[1], tuple) and a[1][0] == 'param' and a[1][1] == 1


def _array_local_updates(b, arr_local):
    """All writes into elements of local array `arr_local` (directly indexed or through a loop reference).
    -> [(kind 'direct'|'loop', bb, idx, node, adaptors, lhs_local)]"""
    out = []
    arr_t = strip(b.term_local(arr_local))

    def visit(lhs, i, j, node):
        if lhs['local'] == arr_local and lhs['proj']:
            out.append(('direct', i, j, node, [], lhs['local']))
        elif lhs['proj'] and lhs['proj'][0]['k'] == 'deref':
            src = util.loop_source(b.term_local(lhs['local'], (i, j if j >= 0 else None)))
            if src is not None:
                base, ad = util.iter_chain(src)
                if strip(base) == arr_t:
                    out.append(('loop', i, j, node, ad, lhs['local']))
    for i, j, st in b.stmts():
        visit(st['lhs'], i, j, st)
    for i, t in b.calls():
        visit(t['dest'], i, -1, t)
    return out


def _base_link_poses(ctx, prog):
    b = prog.trait_impl_method('tool::Base', 'Kinematics', 'forward_with_joint_poses')
    ctx.fn(b)
    vv = util.virtual_calls(b)
    if len(vv) != 1:
        return
    bi, t, _ = vv[0]
    arr = t['dest']['local']
    key = 'tool::Base/link-poses'
    # form: inner_poses.map(|pose| base * pose)
    ret = strip(b.return_term())
    if isinstance(ret, tuple) and ret[0] == 'call' and cname(ret[1]) == 'array::map' and strip(ret[2]) == strip(b.call_term(t, (bi, None))):
        cb, caps = util.closure_of_term(prog, ret[3])
        good = False
        found = None
        if cb is not None and len(caps) == 1 and util.is_param(strip(caps[0]), 1):
            rv = cb.return_values()
            if len(rv) == 1:
                w = algebra.word(rv[0][0])
                found = _sw(w)
                first = w[0][0] if w else None
                base_ok = isinstance(first, tuple) and first[0] == 'fld' and first[2] == 'base' and isinstance(first[1], tuple) and first[1][0] == 'fld' \
                    and first[1][2] in ('*self', 'self') and util.is_param(first[1][1], 1)
                good = len(w) == 2 and base_ok and w[0][1] == 1 and w[1][1] == 1 and util.is_param(w[1][0], 2)
        ctx.ok('R09.4', key + '/return', b.where(bi), 'array::map over the inner pose array')
        ctx.check(good, 'R09.4', key, b.where(bi), b.path, 'element update is not base * pose: %s' % found, detail='poses.map(|pose| base * pose)')
        return
    ctx.require(not t['dest']['proj'], 'Base::forward_with_joint_poses stores the inner poses in a local')
    ups = _array_local_updates(b, arr)
    # returned value is that array
    ret_defs = b.defs().get(0, [])
    ret_ok = len(ret_defs) == 1 and ret_defs[0][0] == 'st' and ret_defs[0][3]['rv']['k'] == 'use' and \
        ret_defs[0][3]['rv']['op'].get('place', {}).get('local') == arr and not ret_defs[0][3]['rv']['op']['place']['proj']
    if not ctx.check(ret_ok, 'R09.4', key + '/return', b.where(bi), b.path, 'the returned array is not the (updated) inner pose array'):
        return
    loops = [u for u in ups if u[0] == 'loop']
    direct = [u for u in ups if u[0] == 'direct']
    if loops and not direct:
        ok = True
        msgs = []
        for u in loops:
            ad = u[4]
            if any(a not in ('iter_mut', 'into_iter') for a in ad):
                ok = False
                msgs.append('iteration is restricted by adaptor(s) %s: not every link pose is moved' % [a for a in ad if a not in ('iter_mut', 'into_iter')])
            node = u[3]
            at = (u[1], u[2] if u[2] >= 0 else None)
            val = b.call_term(node, at) if node.get('args') is not None else b.rv_term(node['rv'], at)
            w = algebra.word(val)
            lv = algebra.canon(strip(b.term_local(u[5], at)))
            good = len(w) == 2 and _is_self_fld(w[0][0], 'base') and w[0][1] == 1 and w[1] == (lv, 1)
            if not good:
                ok = False
                msgs.append('element update is not base * pose: ' + _sw(w))
        ctx.check(ok, 'R09.4', key, b.where(loops[0][1]), b.path, '; '.join(msgs) or 'ok', detail='for pose in poses.iter_mut(): *pose = base * *pose')
    else:
        # indexed form: need all six constant indices or a 0..6 loop
        idxs = set()
        ok = True
        for u in direct:
            node = u[3]
            lhs = node.get('lhs') or node.get('dest')
            pr = lhs['proj'][0]
            at = (u[1], u[2] if u[2] >= 0 else None)
            if pr['k'] == 'cindex':
                idxs.add(pr['off'])
            elif pr['k'] == 'index':
                it = b.term_local(pr['local'], at)
                c = util.const_val(it)
                if c is not None:
                    idxs.add(c)
                else:
                    src = util.loop_source(it)
                    r = util.range_of(src) if src is not None else None
                    if r and util.const_val(r[0]) == 0 and (util.const_val(r[1]) == 6 or _len_of_pose_array(b, r[1], arr, strip(b.call_term(t, (bi, None))))) and not [a for a in r[2] if a != 'into_iter']:
                        idxs |= set(range(6))
                    else:
                        ok = False
        # ... and each update is base * (that same element)
        msgs = []
        for u in direct:
            node = u[3]
            at = (u[1], u[2] if u[2] >= 0 else None)
            val = b.call_term(node, at) if node.get('args') is not None else b.rv_term(node['rv'], at)
            w = algebra.word(val)
            lhs = node.get('lhs') or node.get('dest')
            pr = lhs['proj'][0]
            want_i = ('const', 'usize', pr['off'], None) if pr['k'] == 'cindex' else strip(b.term_local(pr['local'], at))
            good = len(w) == 2 and _is_self_fld(w[0][0], 'base') and w[0][1] == 1 and w[1][1] == 1
            if good:
                e = strip(w[1][0])
                good = isinstance(e, tuple) and e[0] == 'idx' and (algebra.canon(strip(e[2])) == algebra.canon(want_i) or (util.const_val(e[2]) is not None and util.const_val(e[2]) == util.const_val(want_i)))
            if not good:
                ok = False
                msgs.append('element update is not base * pose: ' + _sw(w))
        ctx.check(ok and idxs == set(range(6)), 'R09.4', key, b.where(bi), b.path,
                  '; '.join(msgs) or 'not every link pose is pre-multiplied by base (indices updated: %s)' % sorted(idxs))


def _len_of_pose_array(b, t, arr, inner=None):
    """t == <the six-element pose array local>.len()"""
    t = strip(t)
    if not (isinstance(t, tuple) and t[0] == 'call' and cname(t[1]).split('::')[-1] == 'len' and len(t) == 3):
        return False
    v = t[2]
    while isinstance(v, tuple) and v[0] in ('ref', 'deref', 'cast'):
        v = v[1]
    six = b.local_ty(arr).rstrip().endswith('; 6]')
    if inner is not None and strip(v) == inner:
        return six
    return isinstance(v, tuple) and v[0] in ('mutb', 'var') and (v[1] if v[0] == 'mutb' else v[2]) == arr and six


def _frame_link_poses(ctx, prog):
    b = prog.trait_impl_method('frame::Frame', 'Kinematics', 'forward_with_joint_poses')
    fwd = prog.trait_impl_method('frame::Frame', 'Kinematics', 'forward')
    ctx.fn(b)
    vv = util.virtual_calls(b)
    if len(vv) != 1:
        return
    bi, t, _ = vv[0]
    arr = t['dest']['local']
    ups = _array_local_updates(b, arr)
    key = 'frame::Frame/link-poses'
    idx_ok = []
    word_ok = []
    for u in ups:
        if u[0] != 'direct':
            idx_ok.append(False)
            word_ok.append(False)
            continue
        node = u[3]
        lhs = node.get('lhs') or node.get('dest')
        at = (u[1], u[2] if u[2] >= 0 else None)
        pr = lhs['proj'][0]
        iv = pr['off'] if pr['k'] == 'cindex' else (util.const_val(b.term_local(pr['local'], at)) if pr['k'] == 'index' else None)
        idx_ok.append(iv == 5)
        val = b.call_term(node, at) if node.get('args') is not None else b.rv_term(node['rv'], at)
        w = algebra.word(val)
        # expected word: poses[5] * frame  (same shape as forward: X * frame)
        wf = algebra.word(fwd.return_term())
        shape = [(('ELEM' if not _is_self_fld(a, 'frame') else 'frame'), e) for a, e in w]
        shape_f = [(('ELEM' if not _is_self_fld(a, 'frame') else 'frame'), e) for a, e in wf]
        word_ok.append(shape == shape_f and len(w) == 2)
    if not ups:
        # the array taken apart and rebuilt: [p[0], p[1], p[2], p[3], p[4], p[5] * frame]
        rt = strip(util.peval(prog, b.return_term()))
        inner = strip(b.call_term(t, (bi, None)))
        if isinstance(rt, tuple) and rt[0] == 'agg' and rt[1] == 'array' and len(rt) == 8:
            el = [strip(e) for e in rt[2:]]

            def is_elem(x, k):
                x = strip(x)
                return isinstance(x, tuple) and x[0] == 'idx' and strip(x[1]) == inner and util.const_val(x[2]) == k
            same = all(is_elem(el[k], k) for k in range(5))
            w = algebra.word(el[5])
            wf = algebra.word(fwd.return_term())
            shape = [(('ELEM' if not _is_self_fld(a, 'frame') else 'frame'), e) for a, e in w]
            shape_f = [(('ELEM' if not _is_self_fld(a, 'frame') else 'frame'), e) for a, e in wf]
            e5 = algebra.canon(('idx', inner, ('const', 'usize', 5, None)))
            last = len(w) == 2 and shape == shape_f and [a for a, e in w if not _is_self_fld(a, 'frame')] == [e5]
            ctx.check(same and last, 'R09.4', key, b.where(bi), b.path,
                      'Frame must return link poses 1..5 of the inner robot unchanged and pose 6 with the same word as its forward',
                      found=show(rt, maxdepth=5), detail='rebuilt array')
            return
    ctx.check(len(ups) == 1 and all(idx_ok) and all(word_ok), 'R09.4', key, b.where(bi), b.path,
              'Frame must rewrite exactly link pose 6 with the same word as its forward (updates: %d, index ok: %s, word ok: %s)' % (len(ups), idx_ok, word_ok))


def _linear_axis(ctx, prog):
    r = prog.find(suffix='tool::LinearAxis::forward')
    ctx.require(len(r) == 1, 'LinearAxis::forward')
    b = r[0]
    ctx.fn(b)
    # Translation3::new call sites guarded by the switch on self.axis
    sites = [(bi, t) for bi, t in b.calls() if mir.path_tail(mir.callee_name(t), 'Translation::new') or mir.callee_tail(t, 1) == 'new' and 'Translation' in mir.callee_name(t)]
    arms = {}
    for bi, t in sites:
        for term, key, sw in b.guard_terms(bi):
            tt = strip(term)
            if isinstance(tt, tuple) and tt[0] == 'fld' and tt[2] == 'axis' and key != 'otherwise':
                arms[key] = (bi, t)
    if len(arms) < 3 and sites:
        return _linear_axis_by_interpretation(ctx, prog, b)
    ctx.floor('R09.5 LinearAxis arms', len(arms), 3)
    for k in sorted(arms):
        bi, t = arms[k]
        args = [b.op_term(a, (bi, None)) for a in t['args']]
        ok = len(args) == 3 and all((util.is_param(args[i], 2) if i == k else util.const_val(args[i]) == 0.0) for i in range(3))
        ctx.check(ok, 'R09.5', 'tool::LinearAxis/arm%d' % k, b.where(bi), b.path,
                  'axis %d must translate along component %d only' % (k, k), found=[show(a) for a in args])
    vv = util.virtual_calls(b)
    if ctx.check(len(vv) == 1 and vv[0][2] == 'forward', 'R09.5', 'tool::LinearAxis/inner', b.where(0), b.path, 'expected one inner forward call'):
        X = algebra.canon(strip(b.call_term(vv[0][1], (vv[0][0], None))))
        rets = [rb for rb in b.return_blocks()]
        w = algebra.word(b.term_local(0, (rets[0], None)))
        ok = len(w) == 3 and _is_self_fld(w[0][0], 'base') and w[2] == (X, 1) and all(e == 1 for a, e in w)
        ctx.check(ok, 'R09.5', 'tool::LinearAxis/word', b.where(rets[0]), b.path, 'forward must be base * translation * robot', found=_sw(w), detail=_sw(w))


def _linear_axis_by_interpretation(ctx, prog, b):
    """R09.5 when the translation is not chosen by three match arms (a zeroed array written at index `axis`, ..): the body is
    interpreted for axis 0, 1, 2 with the library calls kept symbolic; the result must be base * T(distance on component axis) * robot."""
    from .. import absint
    from ..absint import Interp, Iv, Sym
    from ..core import MachineryError
    D = 0.375

    def val(I, st, a):
        while isinstance(a, tuple) and a and a[0] in ('ref', 'refval', 'mref'):
            a = I.deref(a, st)
        return a

    def h_new(I, st, a, t, b2):
        return Sym(('T',) + tuple(val(I, st, x) for x in a))

    def h_mul(I, st, a, t, b2):
        return Sym(('mul', val(I, st, a[0]), val(I, st, a[1])))

    def h_forward(I, st, a, t, b2):
        return Sym(('X', val(I, st, a[0]), val(I, st, a[1])))

    def h_same(I, st, a, t, b2):
        return a[0]
    H = {'Mul::mul': h_mul, 'Kinematics::forward': h_forward, 'Deref::deref': h_same, 'AsRef::as_ref': h_same}
    for bi, t in b.calls():
        n = cname(mir.callee_name(t))
        if n.split('::')[-1] == 'new' and 'Translation' in mir.callee_name(t):
            H[n] = h_new

    def flat(x):
        if isinstance(x, Sym) and isinstance(x.tag, tuple) and x.tag[0] == 'mul':
            return flat(x.tag[1]) + flat(x.tag[2])
        return [x]
    for k in range(3):
        me = {'#adt': 'tool::LinearAxis', 'axis': k, 'base': Sym('base'), 'robot': Sym('robot')}
        I = Interp(prog, H, fuel=20000, max_paths=8)
        try:
            outs = I.run(b.path, [('refval', me, ()), Iv(D, D), ('refval', Sym('joints'), ())])
        except (absint.Unsupported, absint.Undecided) as e:
            raise MachineryError('LinearAxis::forward could not be interpreted (%s): %s' % (type(e).__name__, e))
        ok = False
        found = None
        if len(outs) == 1:
            w = flat(outs[0].ret)
            found = repr(w)
            if len(w) == 3 and w[0] == Sym('base') and isinstance(w[2], Sym) and isinstance(w[2].tag, tuple) and w[2].tag[0] == 'X' and \
                    w[2].tag[1] in (Sym('robot'), Sym(('deref', 'robot'))) and w[2].tag[2] == Sym('joints') and isinstance(w[1], Sym) and w[1].tag[0] == 'T' and len(w[1].tag) == 4:
                comp = w[1].tag[1:]
                ok = all(isinstance(c, Iv) and c.is_point() and c.lo == (D if i == k else 0.0) for i, c in enumerate(comp))
        ctx.check(ok, 'R09.5', 'tool::LinearAxis/arm%d' % k, b.where(0), b.path,
                  'axis %d must give base * translation(distance on component %d only) * robot.forward(joints)' % (k, k), found=found, detail='by interpretation')


def _gantry(ctx, prog):
    r = prog.find(suffix='tool::Gantry::forward')
    ctx.require(len(r) == 1, 'Gantry::forward')
    b = r[0]
    ctx.fn(b)
    vv = util.virtual_calls(b)
    if ctx.check(len(vv) == 1 and vv[0][2] == 'forward', 'R09.5', 'tool::Gantry/inner', b.where(0), b.path, 'expected one inner forward call'):
        X = algebra.canon(strip(b.call_term(vv[0][1], (vv[0][0], None))))
        rt = b.return_term()
        if isinstance(strip(rt), tuple) and strip(rt)[0] == 'call' and strip(rt)[1] in prog.bodies:
            rt = util.inline_calls(prog, rt, depth=1)         # the product kept in a free helper of the module: written out
        w = algebra.word(rt)
        ok = len(w) == 3 and _is_self_fld(w[0][0], 'base') and w[2] == (X, 1) and all(e == 1 for a, e in w) and util.is_param(('ref', w[1][0]), 2)
        ctx.check(ok, 'R09.5', 'tool::Gantry/word', b.where(vv[0][0]), b.path, 'forward must be base * translation * robot', found=_sw(w), detail=_sw(w))
