"""C12 - a planned Cartesian stroke is collision-free, in limits, continuous and linear."""
from .. import mir, util, opw
from ..mir import cname, strip, callee_name, show

EXPLANATION = ('Decides from MIR: (R12.1) collision taint: joint vectors obtained from the raw kinematics (not collision filtered) must pass a '
               'collides()==false edge before they can reach Ok(trace); (R12.2) the start configuration is in the provenance of the returned '
               'trace; (R12.3) every public configuration field of Cartesian is read on a path from plan and include_linear_interpolation '
               'controls the presence of LIN_INTERP waypoints; (R12.4) a Cartesian step is accepted only on the true edge of '
               'transition_costs(starting, next, coefficients) <= max_transition_cost for that next, the bisection continues from the last '
               'element of the first half and recursion is bounded by linear_recursion_depth; (R12.5) LAND first / PARK last with the caller\'s '
               'poses, TRACE poses from steps, interpolated poses flagged LIN_INTERP with one fraction for translation and rotation; '
               '(R12.6) the stop flag is raised only after a successful probe and otherwise only loaded.  Linearity of waypoints and the '
               'sufficiency of the check step are numerical and not decided.  (R11.5) `collides` of the robot with shape is the query of its body, unchanged.  The strategies are inverse_continuing(land, from) of the caller (R12.2), the candidates of a transition inverse_continuing(to.pose, starting) and the acceptance limit the configured max_transition_cost as it is (R12.4).  (R12.7) the flags the planner assigns are distinct single bits.  (R12.8) the strategy probe is interpreted as a whole with its collaborators scripted (relocation planner, linear transition, inverse, collision query): onboarding without its last point, the strategy point once as LAND, every transition continued from the last waypoint pushed, the documented flags, a gap closed towards the target pose, failure on a colliding waypoint, interpolated waypoints dropped exactly when not requested.')
NOT_DECIDED = 'that waypoints lie on the straight segment and reproduce the poses (lerp/slerp + IK numerics); sufficiency of the check step'
ASSUMPTIONS = ['KinematicsWithShape inverse methods and plan_rrt return only configurations reported collision-free (C11, C13)']

CART = "cartesian::Cartesian::<'_>::"
KWS_IMPL = '<kinematics_with_shape::KinematicsWithShape as kinematic_traits::Kinematics>::'


def body(ctx, name):
    r = [b for p, b in ctx.prog.bodies.items() if p.startswith('cartesian::Cartesian') and p.endswith('::' + name)]
    ctx.require(len(r) == 1, 'Cartesian::' + name)
    ctx.fn(r[0])
    return r[0]


def classify_source(prog, b, t, depth=0):
    """Trust class of a joint-vector term inside body b: 'trusted', 'untrusted', 'param:<n>', 'unknown'."""
    t = strip(t)
    while isinstance(t, tuple) and t[0] == 'call' and cname(t[1]) in ('Clone::clone', 'Deref::deref', 'ToOwned::to_owned'):
        t = strip(t[2])
    if isinstance(t, tuple) and t[0] == 'param':
        return 'param:%d' % t[1]
    src = util.loop_source(t)
    if src is not None:
        base, ad = util.iter_chain(src)
        return classify_container(prog, b, base, depth)
    if isinstance(t, tuple) and t[0] == 'fld':
        return classify_source(prog, b, t[1], depth)
    if isinstance(t, tuple) and t[0] == 'idx':
        return classify_container(prog, b, t[1], depth)
    return classify_container(prog, b, t, depth)


def classify_container(prog, b, t, depth=0):
    t = strip(t)
    while isinstance(t, tuple):
        if t[0] == 'call' and cname(t[1]) in ('Clone::clone', 'Deref::deref', 'DerefMut::deref_mut', 'Option::unwrap', 'Result::unwrap', 'Option::expect', 'Result::expect', 'slice::last', 'slice::first', 'Try::branch', 'IntoIterator::into_iter', 'slice::iter', 'Iterator::enumerate', 'Index::index', 'slice::get', 'slice::get_unchecked'):
            t = strip(t[2])
        elif t[0] in ('as',):
            t = strip(t[1])
        elif t[0] == 'fld' and t[2] in ('0', '1'):
            t = strip(t[1])
        elif t[0] == 'cast':
            t = strip(t[1])
        else:
            break
    if isinstance(t, tuple) and t[0] == 'param':
        return 'param:%d' % t[1]
    if isinstance(t, tuple) and t[0] == 'call':
        name = t[1]
        cn = cname(name)
        if name.startswith(KWS_IMPL) and cn.split('::')[-1].startswith('inverse'):
            return 'trusted'
        if cn == 'RRTPlanner::plan_rrt':
            return 'trusted'
        if name == 'kinematic_traits::Kinematics::' + cn.split('::')[-1] and cn.split('::')[-1].startswith('inverse'):
            return 'untrusted'          # virtual call on a raw kinematics object
        if name in prog.bodies and depth < 3:
            # crate-local helper returning joint vectors: classify its returned elements
            return classify_returned(prog, prog.bodies[name], depth + 1)
    if isinstance(t, tuple) and t[0] == 'agg' and t[1] == 'array':
        cls = {classify_source(prog, b, x, depth) for x in t[2:]}
        return _join(cls)
    return 'unknown'


def _join(cls):
    cls = set(cls)
    if 'untrusted' in cls:
        return 'untrusted'
    if 'unknown' in cls:
        return 'unknown'
    if cls == {'trusted'}:
        return 'trusted'
    return ','.join(sorted(cls))


def classify_returned(prog, b, depth):
    """Elements of the Ok(Vec<Joints>) returned by helper b."""
    out = set()
    for t, d, rb in b.return_values():
        t = strip(t)
        if isinstance(t, tuple) and t[0] == 'agg' and 'Err' in t[1]:
            continue
        if isinstance(t, tuple) and t[0] == 'agg' and 'Ok' in t[1]:
            v = strip(t[2])
            out.add(_classify_vec(prog, b, v, depth))
        elif isinstance(t, tuple) and t[0] == 'call' and cname(t[1]) in ('FromResidual::from_residual',):
            continue
        else:
            out.add('unknown')
    return _join(out) if out else 'unknown'


def _classify_vec(prog, b, v, depth):
    v = strip(v)
    if isinstance(v, tuple) and v[0] == 'call':
        cn = cname(v[1])
        if cn in ('slice::into_vec', 'Vec::from', 'Box::new'):
            return _classify_vec(prog, b, v[2], depth)
        if cn == 'Iterator::collect':
            return _classify_vec(prog, b, v[2], depth)
        if cn == 'Iterator::chain':
            return _join({_classify_vec(prog, b, v[2], depth), _classify_vec(prog, b, v[3], depth)})
        if cn in ('IntoIterator::into_iter',):
            return _classify_vec(prog, b, v[2], depth)
        if v[1] == b.path:
            return 'trusted'     # recursion: neutral element (classified by the non-recursive returns)
    if isinstance(v, tuple) and v[0] in ('fld', 'as'):
        return _classify_vec(prog, b, v[1], depth)
    if isinstance(v, tuple) and v[0] == 'call' and cname(v[1]) == 'Try::branch':
        return _classify_vec(prog, b, v[2], depth)
    if isinstance(v, tuple) and v[0] == 'cast':
        return _classify_vec(prog, b, v[1], depth)
    if isinstance(v, tuple) and v[0] == 'agg' and v[1] in ('array', 'vec'):
        return _join({classify_source(prog, b, x, depth) for x in v[2:]})
    if isinstance(v, tuple) and v[0] == 'call' and cname(v[1]).startswith('Box'):
        return _classify_vec(prog, b, v[2], depth)
    return classify_container(prog, b, v, depth)



def _is_collides_of_elem(prog, t, elem_ok):
    """t == KinematicsWithShape::collides(robot, &<elem>.joints) with elem accepted by elem_ok"""
    t = strip(t)
    if not (isinstance(t, tuple) and t[0] == 'call' and cname(t[1]) == 'KinematicsWithShape::collides' and len(t) == 4):
        return False
    a = strip(t[3])
    return isinstance(a, tuple) and a[0] == 'fld' and a[2] == 'joints' and elem_ok(a[1])


def _swept_before(prog, probe, trace_local, blk):
    """Has every element of the trace passed collides() == false when control reaches block blk?  Either the false edge of
    `trace.(par_)iter().any(|s| collides(&s.joints))` dominates blk, or blk lies behind the normal exit of a loop over the
    whole trace in which every iteration that continues has passed the false edge of collides(&elem.joints)."""
    for g, k, sw in probe.guard_terms(blk):
        g = strip(g)
        if isinstance(g, tuple) and g[0] == 'call' and cname(g[1]).split('::')[-1] == 'any' and opw.truth(k) is False:
            base, ad = util.iter_chain(g[2])
            cb, caps = util.closure_of_term(prog, g[3])
            if cb is not None and _is_local_term(probe, base, trace_local) and all(a in ('iter', 'par_iter', 'into_iter') for a in ad):
                rv = [strip(x[0]) for x in cb.return_values()]
                if len(rv) == 1 and _is_collides_of_elem(prog, rv[0], lambda e: util.is_param(strip(e), 2)):
                    return True
        # the None edge of `next()` of an iteration over the whole trace: the loop ran to completion
        if isinstance(g, tuple) and g[0] == 'discr' and k == 0:
            nx = strip(g[1])
            if not (isinstance(nx, tuple) and nx[0] == 'call' and mir.path_tail(nx[1], 'next')):
                continue
            it = strip(nx[2])
            if isinstance(it, tuple) and it[0] == 'mutb':
                it = it[2]
            base, ad = util.iter_chain(strip(it))
            if not _is_local_term(probe, base, trace_local) or any(a not in ('iter', 'into_iter') for a in ad):
                continue
            header = [bi for bi, t in probe.calls() if mir.path_tail(callee_name(t), 'next') and probe.blocks[bi]['term'].get('target') is not None
                      and (probe.blocks[bi]['term']['target'] == sw or probe.dominates(bi, sw)) and probe.reaches(sw, bi)]
            if len(header) != 1:
                continue
            hb = header[0]
            back = [p for p in probe.pred(hb) if probe.reaches(sw, p)]
            if not back:
                continue

            def elem_ok(e):
                src = util.loop_source(e)
                return src is not None and util.iter_chain(src)[0] == base
            if all(any(_is_collides_of_elem(prog, g2, elem_ok) and opw.truth(k2) is False for g2, k2, sw2 in probe.guard_terms(p)) for p in back):
                return True
    return False


def run(ctx):
    prog = ctx.prog
    _flag_constants(ctx, prog)
    from .C11 import shape_wrappers
    shape_wrappers(ctx, prog)
    ctx.rule('R12.1', 'joint vectors from the raw (not collision-filtered) kinematics must pass a collides()==false edge before reaching Ok(trace)')
    ctx.rule('R12.2', 'the start configuration given to plan() is in the provenance of the returned trace')
    ctx.rule('R12.3', 'every public field of Cartesian is read on a path from plan(); include_linear_interpolation controls LIN_INTERP waypoints')
    ctx.rule('R12.4', 'a step is accepted only when transition_costs(starting, next, coefficients) <= max_transition_cost for that next; bisection is chained and depth-bounded')
    ctx.rule('R12.5', 'pose list: LAND(land) first, PARK(park) last, TRACE from steps, interpolated poses flagged LIN_INTERP with one fraction')
    ctx.rule('R12.6', 'stop flag: store(true) only after a successful probe; elsewhere only loaded')
    plan = body(ctx, 'plan')
    probe = util.find_role(ctx, 'strategy probe of Cartesian: returns Result<Vec<AnnotatedJoints>, String>, called from plan',
                           lambda b, sg: b.path != plan.path and 'AnnotatedJoints' in sg[0] and 'Result' in sg[0], module='cartesian::', called_from=[plan])
    step = util.find_role(ctx, 'adaptive linear transition of Cartesian: returns Result<Vec<[f64; 6]>, Transition>',
                          lambda b, sg: 'Transition' in sg[0] and 'Result' in sg[0], module='cartesian::', called_from=[plan])
    plan_cl = util.closure_bodies(prog, plan.path)

    # ---------------- R12.1 taint
    trace_local = [l for l in util.locals_of_type(probe, lambda t: t.replace('std::vec::', '') == 'Vec<cartesian::AnnotatedJoints>') if l in probe.names]
    ctx.require(len(trace_local) == 1, 'the Vec<AnnotatedJoints> being assembled in probe_strategy')
    pushes = [(bi, t) for bi, t in probe.calls() if cname(callee_name(t)) == 'Vec::push' and _root_local(probe, t['args'][0], bi) == trace_local[0]]
    ctx.floor('R12.1 pushes into trace', len(pushes), 2)
    classes = []
    for bi, t in pushes:
        item = strip(probe.op_term(t['args'][1], (bi, None)))
        while isinstance(item, tuple) and item[0] == 'call' and cname(item[1]) == 'Clone::clone':
            item = strip(item[2])
        joints = item[2] if isinstance(item, tuple) and item[0] == 'agg' and len(item) >= 3 else item
        cls = classify_source(prog, probe, joints)
        elem_checked = any(isinstance(strip(g), tuple) and strip(g)[0] == 'call' and cname(strip(g)[1]).endswith('::collides') and opw.truth(k) is False
                           for g, k, sw in probe.guard_terms(bi))
        classes.append((bi, cls, elem_checked, show(joints, maxdepth=3)))
    # whole-trace check dominating the Ok(trace) return
    ok_defs = [(t, d) for t, d, rb in probe.return_values() if isinstance(strip(t), tuple) and strip(t)[0] == 'agg' and 'Ok' in strip(t)[1]]
    ctx.require(len(ok_defs) >= 1, 'Ok(trace) return of probe_strategy')
    whole = all(_swept_before(prog, probe, trace_local[0], d[1]) for t, d in ok_defs)
    # the sweep sees every waypoint that was pushed: nothing is removed from the trace before it (waypoints dropped first -
    # say the interpolated ones when they are not wanted in the output - would never be tested although the robot moves through them)
    removers = opw.VEC_REMOVERS | {'retain', 'retain_mut', 'dedup', 'dedup_by', 'dedup_by_key'}
    for bi, t in probe.calls():
        n = cname(callee_name(t)).split('::')[-1]
        if n in removers and t['args'] and _root_local(probe, t['args'][0], bi) == trace_local[0]:
            after = _swept_before(prog, probe, trace_local[0], bi)
            ctx.check(after, 'R12.1', 'sweep-before-%s' % n, probe.where(bi), probe.path,
                      'waypoints are removed from the trace (%s) before the collision sweep: the removed ones are never checked' % n, detail='%s after the sweep' % n)
    for bi, cls, elem_checked, desc in classes:
        key = 'push@%s' % desc
        if cls == 'trusted' or cls.startswith('param:'):
            # parameter: trusted by the caller contract checked below (strategy comes from the collision-aware inverse)
            ctx.ok('R12.1', key, probe.where(bi), 'source: ' + cls)
        else:
            ctx.check(elem_checked or whole, 'R12.1', key, probe.where(bi), probe.path,
                      'waypoints computed by the raw kinematics (%s) reach Ok(trace) without any collision check' % cls, found=desc,
                      expected='collides()==false edge for the element, or a check of the whole trace before Ok(trace)', detail='checked before return')
    # the strategy parameter handed in by plan() comes from the collision-aware inverse of the robot with shape
    strat_ok = False
    for c in plan_cl:
        for bi, t in c.calls():
            if t['callee'].get('resolved') == probe.path:
                strat_ok = True
    src = None
    for bi, t in plan.calls():
        if cname(callee_name(t)) == 'Kinematics::inverse_continuing':
            src = callee_name(t)
            # .. of the landing pose, continuing from the given start: plan(&self, from, land, steps, park)
            pa = [util.param_index(plan.op_term(a, (bi, None))) for a in t['args'][1:3]]
            ctx.check(pa == [3, 2], 'R12.2', 'strategies-of-landing', plan.where(bi), plan.path,
                      'the strategies must be the solutions of the landing pose nearest to the start configuration: inverse_continuing(land, from)',
                      found='inverse_continuing(param %s, param %s)' % tuple(pa), expected='inverse_continuing(param 3, param 2)')
    ctx.check(strat_ok and src is not None and src.startswith(KWS_IMPL), 'R12.1', 'strategies', plan.where(0), plan.path,
              'landing strategies must come from the collision-aware inverse of the robot with shape', found=src)
    first = [(bi, t) for bi, t in plan.calls() if cname(callee_name(t)) == 'KinematicsWithShape::collides']
    ok = False
    if first:
        bi, t = first[0]
        ok = util.param_index(plan.op_term(t['args'][1], (bi, None))) == 2
        # Err return on the true edge
        errs = [d for tt, d, rb in plan.return_values() if isinstance(strip(tt), tuple) and 'Err' in str(strip(tt)[1]) and
                any(strip(g) == strip(plan.call_term(t, (bi, None))) and opw.truth(k) is True for g, k, sw in plan.guard_terms(d[1]))]
        ok = ok and len(errs) >= 1
    ctx.check(ok, 'R12.1', 'start-checked', plan.where(first[0][0]) if first else plan.where(0), plan.path, 'a colliding start configuration must be rejected')

    # ---------------- R12.2 start in provenance
    passes = False
    start_param = None
    for c in plan_cl:
        for bi, t in c.calls():
            if t['callee'].get('resolved') == probe.path:
                for i, a in enumerate(t['args']):
                    s = show(c.op_term(a, (bi, None)), maxdepth=6)
                    if '*from' in s or s.endswith('from') or '.from' in s:
                        passes = True
                        start_param = i + 1
    flows = False
    detail = 'start is not handed to the strategy probe'
    if passes:
        detail = 'start parameter #%d of probe_strategy does not reach any waypoint' % start_param
        for bi, cls, elem_checked, desc in classes:
            pass
        for bi, t in pushes:
            item = strip(probe.op_term(t['args'][1], (bi, None)))
            s = _provenance_params(prog, probe, item)
            if start_param in s:
                flows = True
    ctx.check(passes and flows, 'R12.2', 'start-connected', probe.where(0), probe.path,
              'the returned path does not begin at / connect from the given start configuration: ' + detail,
              expected='start joints (or a plan_rrt(start, ..) relocation) pushed into the trace')

    # ---------------- R12.3 configuration fields
    adt = prog.adts.get('cartesian::Cartesian')
    ctx.require(adt is not None, 'struct Cartesian')
    fields = [f['name'] for f in adt['variants'][0]['fields']]
    reach = prog.reachable_bodies([plan.path])
    read = set()
    for p in reach:
        b = prog.bodies[p]
        if not p.startswith('cartesian::'):
            continue
        for i, j, st in b.stmts():
            _collect_self_fields(st['rv'], read, b)
        for bi, t in b.calls():
            for a in t['args']:
                _collect_self_fields({'k': 'use', 'op': a}, read, b)
        for blk in b.blocks:
            if blk['term']['k'] == 'switch':
                _collect_self_fields({'k': 'use', 'op': blk['term']['discr']}, read, b)
    for f in fields:
        ctx.check(f in read, 'R12.3', 'field/' + f, plan.where(0), plan.path, 'configuration field `%s` is never read by the planner' % f, nontrivial=True) \
            if False else ctx.check(f in read, 'R12.3', 'field/' + f, plan.where(0), plan.path, 'configuration field `%s` is never read by the planner' % f)
    # include_linear_interpolation must control LIN_INTERP waypoints
    ctrl = False
    for p in reach:
        b = prog.bodies[p]
        if not p.startswith('cartesian::'):
            continue
        for bi, t in b.calls():
            n = cname(callee_name(t)).split('::')[-1]
            if n in ('retain', 'filter', 'push', 'retain_mut'):
                gs = [show(g, maxdepth=4) for g, k, sw in b.guard_terms(bi)]
                if any('include_linear_interpolation' in s for s in gs):
                    txt = ' '.join(show(b.op_term(a, (bi, None)), maxdepth=6) for a in t['args'])
                    cb, caps = (None, ())
                    for a in t['args']:
                        cb2, caps2 = util.closure_of_term(prog, b.op_term(a, (bi, None)))
                        if cb2 is not None:
                            cb = cb2
                    if cb is not None:
                        txt += ' ' + ' '.join(show(cb.op_term(a2, (ci, None)), maxdepth=4) for ci, ct in cb.calls() for a2 in ct['args'])
                    if 'LIN_INTERP' in txt:
                        ctrl = True
    ctx.check(ctrl, 'R12.3', 'lin-interp-control', probe.where(0), probe.path,
              'include_linear_interpolation does not control whether LIN_INTERP waypoints are present in the result')

    # ---------------- R12.4 transition bound
    rets = step.return_values()
    acc = False
    found = None
    for t, d, rb in rets:
        t = strip(t)
        if isinstance(t, tuple) and t[0] == 'agg' and 'Ok' in t[1] and 'chain' not in show(t, maxdepth=6) and 'collect' not in show(t, maxdepth=4):
            elem = _single_vec_elem(t)
            conds = [util.as_bound(g, opw.truth(k)) for g, k, sw in step.guard_terms(d[1])]
            # `solutions.iter().find(|next| cost(starting, next, ..) <= max)`: the accepted element is the one the predicate held for
            e0 = strip(elem) if elem is not None else None
            if isinstance(e0, tuple) and e0[0] == 'fld' and isinstance(e0[1], tuple) and e0[1][0] == 'as' and e0[1][2] == 'Some':
                fc = strip(e0[1][1])
                if isinstance(fc, tuple) and fc[0] == 'call' and cname(fc[1]) == 'Iterator::find' and len(fc) == 4:
                    fcb, fcaps = util.closure_of_term(prog, fc[3])
                    frv = fcb.return_values() if fcb is not None else []
                    if len(frv) == 1:
                        ELEM = ('const', 'marker', 'accepted element', None)
                        conds.append(util.as_bound(util.subst_closure(fcb, frv[0][0], list(fcaps), [ELEM]), True))
                        elem = ELEM
            for bd in conds:
                if bd is not None:
                    g = ('bin', 'Le' if bd[0] == 'le' else 'Lt', bd[1], bd[2])
                    lhs, rhs = strip(bd[1]), strip(bd[2])
                    if isinstance(lhs, tuple) and lhs[0] == 'call' and cname(lhs[1]).endswith('transition_costs'):
                        same_next = elem is not None and strip(lhs[3]) == elem
                        start_ok = util.is_param(lhs[2], 2)
                        coef_ok = 'transition_coefficients' in show(lhs[4], maxdepth=4)
                        # the limit is the configured one as it is (a scaled limit admits jumps the caller ruled out)
                        lim_ok = isinstance(rhs, tuple) and rhs[0] == 'fld' and rhs[2] == 'max_transition_cost' and util.is_param(rhs[1], 1)
                        found = 'cost(%s, %s, %s) %s %s' % (show(lhs[2]), show(lhs[3], maxdepth=3), show(lhs[4], maxdepth=3), g[1], show(rhs, maxdepth=3))
                        acc = same_next and start_ok and coef_ok and lim_ok
    # the candidates are the solutions of the pose the transition leads TO, continued from the joints it starts at
    iks = [(bi, t) for bi, t in step.calls() if cname(callee_name(t)) == 'Kinematics::inverse_continuing']
    if iks:
        bi, t = iks[0]
        pose_t, prev_t = strip(step.op_term(t['args'][1], (bi, None))), strip(step.op_term(t['args'][2], (bi, None)))
        tys = [step.local_ty(k) for k in range(1, step.arg_count + 1)]
        ann = [k + 1 for k, ty in enumerate(tys) if 'AnnotatedPose' in ty]
        ok_ik = len(iks) == 1 and len(ann) == 2 and isinstance(pose_t, tuple) and pose_t[0] == 'fld' and pose_t[2] == 'pose' and \
            util.param_index(pose_t[1]) == ann[1] and util.is_param(prev_t, 2)
        ctx.check(ok_ik, 'R12.4', 'candidates', step.where(bi), step.path,
                  'the candidates of a transition must be the solutions of its target pose continued from its starting joints: inverse_continuing(to.pose, starting)',
                  found='inverse_continuing(%s, %s)' % (show(pose_t, maxdepth=3), show(prev_t, maxdepth=3)))
    ctx.check(acc, 'R12.4', 'accept', step.where(0), step.path,
              'a step must be accepted only when its own transition cost from `starting` is within max_transition_cost', found=found, detail=found or '')
    _cost_formula(ctx, prog, step)
    rec = [(bi, t) for bi, t in step.calls() if t['callee'].get('resolved') == step.path]
    ok = len(rec) == 2
    msg = 'expected two recursive calls (first half, second half)'
    if ok:
        (b1, t1), (b2, t2) = rec
        # the depth counter is the usize parameter of the recursive function: bounded by self.linear_recursion_depth, +1 per level
        dpar = [i for i in range(2, step.arg_count + 1) if step.local_ty(i) == 'usize']
        depth_ok = inc_ok = False
        if len(dpar) == 1:
            for g, k, sw in step.guard_terms(b1):
                bd = util.as_bound(g, opw.truth(k))
                if bd is not None and bd[0] == 'lt' and util.is_param(bd[1], dpar[0]) and util.is_self_field(bd[2], 'linear_recursion_depth'):
                    depth_ok = True

            def plus_one(t):
                t = strip(t)
                while isinstance(t, tuple) and t[0] == 'fld' and t[2] == '0' and isinstance(strip(t[1]), tuple) and strip(t[1])[0] == 'bin':
                    t = strip(t[1])
                return isinstance(t, tuple) and t[0] == 'bin' and str(t[1]).startswith('Add') and util.is_param(t[2], dpar[0]) and util.const_val(t[3]) == 1
            inc_ok = plus_one(step.op_term(t1['args'][dpar[0] - 1], (b1, None))) and plus_one(step.op_term(t2['args'][dpar[0] - 1], (b2, None)))
        t2s = step.op_term(t2['args'][1], (b2, None))
        chain_ok = mir.contains(t2s, lambda x: x[0] == 'call' and cname(x[1]) == 'slice::last') and \
            mir.contains(t2s, lambda x: x[0] == 'call' and x[1] == step.path and strip(x[5]) == strip(step.op_term(t1['args'][3], (b1, None))))
        mid1 = strip(step.op_term(t1['args'][3], (b1, None)))
        mid2 = strip(step.op_term(t2['args'][2], (b2, None)))
        ipr = _interp_role(prog)
        mid_ok = mid1 == mid2 and len(ipr) == 1 and isinstance(mid1, tuple) and mid1[0] == 'call' and mid1[1] == ipr[0].path and \
            util.is_param(mid1[2], 3) and util.is_param(mid1[3], 4)
        ends_ok = util.is_param(step.op_term(t1['args'][2], (b1, None)), 3) and util.is_param(step.op_term(t2['args'][3], (b2, None)), 4) \
            and util.is_param(step.op_term(t1['args'][1], (b1, None)), 2)
        ok = depth_ok and inc_ok and chain_ok and mid_ok and ends_ok
        msg = 'depth-guard=%s depth+1=%s second-half-starts-at-last-of-first=%s same-midpose=%s endpoints=%s' % (depth_ok, inc_ok, chain_ok, mid_ok, ends_ok)
    ctx.check(ok, 'R12.4', 'bisection', step.where(rec[0][0]) if rec else step.where(0), step.path, 'bisection must be depth-bounded and chained: ' + msg, detail=msg)

    _poses(ctx, prog)
    probed = _probe_by_interpretation(ctx, prog, probe, step)
    _flags(ctx, prog, probe, step, probed)
    _stop_flag(ctx, prog, plan, probe, plan_cl)
    _search_outcome(ctx, prog, plan, probe, plan_cl)


def _single_vec_elem(t):
    """Ok(vec![x]) -> x"""
    v = strip(t[2])
    for _ in range(6):
        if isinstance(v, tuple) and v[0] == 'call':
            v = strip(v[2])
        elif isinstance(v, tuple) and v[0] == 'cast':
            v = strip(v[1])
        elif isinstance(v, tuple) and v[0] == 'agg' and v[1] in ('array', 'vec') and len(v) == 3:
            e = strip(v[2])
            while isinstance(e, tuple) and e[0] == 'call' and cname(e[1]) == 'Clone::clone':
                e = strip(e[2])
            return e
        else:
            break
    return None


def _root_local(b, op, bi):
    t = b.op_term(op, (bi, None))
    while isinstance(t, tuple):
        if t[0] in ('ref', 'deref'):
            t = t[1]
        elif t[0] == 'mutb':
            return t[1]
        elif t[0] == 'var':
            return t[2]
        else:
            return None
    return None


def _is_local_term(b, t, l):
    t = strip(t)
    while isinstance(t, tuple) and t[0] == 'call' and cname(t[1]) in ('Deref::deref', 'IntoParallelRefIterator::par_iter', 'slice::iter', 'IntoIterator::into_iter'):
        t = strip(t[2])
    tl = strip(b.term_local(l))
    return t == tl


def _cost_formula(ctx, prog, step):
    """R12.4: the cost the acceptance test relies on is sum_i |from[i] - to[i]| * coefficients[i] over all six joints, each joint
    with its own coefficient (the continuity bound of the property is stated in this weighted metric)"""
    from .. import algebra
    costs = {t['callee'].get('resolved') for b2 in [step] + list(util.closure_bodies(prog, step.path)) for bi, t in b2.calls() if cname(callee_name(t)).endswith('transition_costs')}
    costs = [prog.bodies[p] for p in costs if p in prog.bodies]
    if not ctx.check(len(costs) == 1, 'R12.4', 'cost-formula/helper', step.where(0), step.path, 'transition cost helper not found'):
        return
    cb = costs[0]
    ctx.fn(cb)
    rt = strip(cb.return_term())
    elems = mir.subterms(rt, lambda x: x[0] == 'agg' and x[1] == 'array')
    ok = False
    found = show(rt, maxdepth=4)
    E = None
    if len(elems) == 1 and len(elems[0]) == 3:
        E = elems[0][2]                      # max over a one-element array
    elif not elems and isinstance(rt, tuple) and rt[0] == 'bin':
        E = rt                               # the sum itself
    elif not elems and isinstance(rt, tuple) and rt[0] == 'var':
        # accumulator: total = 0.0; for i in 0..6 { total += |from[i] - to[i]| * coefficients[i] }
        defs = [d for d in cb.defs().get(rt[2], []) if d[4]]
        terms = [strip(cb._def_term(d)) for d in defs]
        zero = [t for t in terms if util.const_val(t) == 0.0]
        acc = [t for t in terms if isinstance(t, tuple) and t[0] == 'bin' and t[1] == 'Add' and rt in (strip(t[2]), strip(t[3]))]
        if len(terms) == 2 and len(zero) == 1 and len(acc) == 1:
            inc = strip(acc[0][3]) if strip(acc[0][2]) == rt else strip(acc[0][2])
            lv = [x for x in mir.subterms(inc, lambda y: y[0] == 'idx')]
            its = {strip(x[2]) for x in lv}
            if len(its) == 1:
                it = next(iter(its))
                src = util.loop_source(it)
                r = util.range_of(src) if src is not None else None
                if r is not None and util.const_val(r[0]) == 0 and util.const_val(r[1]) == 6 and r[2] in ([], ['into_iter']):
                    # unroll the loop symbolically: substitute the index by 0..5 and add up
                    def subst(t, k):
                        if not isinstance(t, tuple):
                            return t
                        if strip(t) == it:
                            return ('const', 'usize', k, None)
                        return (t[0],) + tuple(subst(y, k) if isinstance(y, tuple) else y for y in t[1:])
                    E = subst(inc, 0)
                    for k in range(1, 6):
                        E = ('bin', 'Add', E, subst(inc, k))
    if E is not None:

        def atomize(t):
            return None
        ring = algebra.Ring()
        P = ring.nf(algebra.canon(E))
        seen = {}
        good = True
        for k, v in P.m.items():
            if float(v) != 1.0 or len(k) != 2 or any(p != 1 for a, p in k):
                good = False
                break
            ab = [a for a, p in k if isinstance(a, tuple) and a[0] == 'call' and cname(a[1]) == 'f64::abs']
            co = [a for a, p in k if isinstance(a, tuple) and a[0] == 'idx']
            if len(ab) != 1 or len(co) != 1:
                good = False
                break
            ci = util.const_val(co[0][2])
            idxs = [util.const_val(x[2]) for x in _deep_idx(ab[0])]
            pars = sorted(_deep_param(ab[0]))
            if not (util.is_param(strip(co[0][1]), 3) and len(idxs) == 2 and idxs[0] == idxs[1] == ci and pars == [1, 2]):
                good = False
                break
            seen[ci] = True
        ok = good and sorted(seen) == [0, 1, 2, 3, 4, 5]
        found = P.show(lambda a: show(a, maxdepth=3)) if not ok else found
    ctx.check(ok, 'R12.4', 'cost-formula', cb.where(0), cb.path,
              'the transition cost must be the sum over all six joints of |from[i] - to[i]| * coefficients[i], joint i with coefficient i', found=found, detail='sum_i |d_i| * c_i')


def _deep_idx(t):
    out = []

    def f(x):
        if isinstance(x, tuple):
            if x and x[0] == 'idx' and len(x) == 3:
                out.append(x)
            for y in x:
                f(y)
    f(t)
    return out


def _deep_param(t):
    out = set()

    def f(x):
        if isinstance(x, tuple):
            if x and x[0] == 'param' and len(x) == 3 and isinstance(x[1], int):
                out.add(x[1])
            for y in x:
                f(y)
    f(t)
    return out


def _interp_role(prog):
    """the pose interpolation helper: fn(&AnnotatedPose, &AnnotatedPose, f64) -> AnnotatedPose using lerp and slerp"""
    out = []
    for p, b in prog.bodies.items():
        if not p.startswith('cartesian::') or b.kind == 'Closure' or b.arg_count != 3:
            continue
        tys = [b.local_ty(i) for i in range(0, 4)]
        if 'AnnotatedPose' in tys[0] and 'AnnotatedPose' in tys[1] and 'AnnotatedPose' in tys[2] and tys[3] == 'f64':
            names = {cname(callee_name(t)).split('::')[-1] for _, t in b.calls()}
            if {'lerp', 'slerp'} <= names:
                out.append(b)
    return out


def _provenance_params(prog, b, t, depth=0):
    """set of parameter indices of b that occur in term t (through crate-local call arguments)"""
    out = set()
    mir.walk(t, lambda x: out.add(x[1]) if x[0] in ('param', 'mparam') else None)
    return out


def _collect_self_fields(rv, acc, b):
    def place(p):
        if p['local'] == 1 or (b.kind == 'Closure'):
            names = [e.get('name') for e in p['proj'] if e['k'] == 'field']
            for n in names:
                if n:
                    acc.add(n)

    def op(o):
        if isinstance(o, dict) and o.get('k') in ('copy', 'move'):
            place(o['place'])
    k = rv.get('k')
    if k == 'use':
        op(rv['op'])
    elif k == 'bin':
        op(rv['a'])
        op(rv['b'])
    elif k in ('un', 'cast'):
        op(rv.get('a') or rv.get('op'))
    elif k in ('ref', 'discr'):
        place(rv['place'])
    elif k == 'agg':
        for o in rv['ops']:
            op(o)


def _pose_list_by_interpretation(ctx, prog, wp, ai, role_of):
    """R12.5 land-first / park-last / trace-from-steps, whatever way the list is built: the pose-list builder is interpreted
    for 0, 1, 2 and 3 stroke poses (symbolic poses, the interpolating helper scripted to append a marker (start, end)) and the
    list it returns must be LAND(land), [between], TRACE(s0), [between], .., PARK(park) with every `between` running from the
    pose before it to the pose after it.  None when the builder cannot be interpreted (the structural clauses apply then)."""
    from .. import absint
    from ..absint import Interp, Sym

    def val(I, st, a):
        while isinstance(a, tuple) and a and a[0] in ('ref', 'refval', 'mref'):
            a = I.deref(a, st)
        return a
    # parameters of the interpolating helper: the list and, in order, the two poses
    vecp = [k for k in range(1, ai.arg_count + 1) if ai.local_ty(k).replace('std::vec::', '') == '&mut Vec<cartesian::AnnotatedPose>']
    posep = [k for k in range(1, ai.arg_count + 1) if 'Isometry' in ai.local_ty(k) and ai.local_ty(k).startswith('&')]
    if len(vecp) != 1 or len(posep) != 2:
        return None

    def h_ai(I, st, a, t, b):
        cur = val(I, st, a[vecp[0] - 1])
        I._write_ref(st, a[vecp[0] - 1], tuple(cur) + (Sym(('between', val(I, st, a[posep[0] - 1]), val(I, st, a[posep[1] - 1]))),))
        return ()
    H = {cname(ai.path): h_ai, ai.path: h_ai}
    results = []
    for n in range(0, 4):
        steps = tuple(Sym('step%d' % k) for k in range(n))
        args = []
        for pos in range(1, wp.arg_count + 1):
            r = role_of.get(pos)
            args.append(('refval', steps, ()) if r == 'steps' else ('refval', Sym(r if r else 'arg%d' % pos), ()))
        I = Interp(prog, H, fuel=100000, max_paths=8)
        try:
            outs = I.run(wp.path, args)
        except (absint.Unsupported, absint.Undecided):
            return None
        if len(outs) != 1 or not isinstance(outs[0].ret, (tuple, list)):
            return None
        results.append((n, steps, outs[0].ret))
    for n, steps, got in results:
        anchors = [('LAND', Sym('land'))] + [('TRACE', x) for x in steps] + [('PARK', Sym('park'))]
        want = []
        for k, (fl, ps) in enumerate(anchors):
            want.append((fl, ps))
            if k + 1 < len(anchors):
                want.append(('between', ps, anchors[k + 1][1]))
        seen = []
        for x in got:
            if isinstance(x, Sym) and isinstance(x.tag, tuple) and x.tag[0] == 'between':
                seen.append(('between', x.tag[1], x.tag[2]))
            elif isinstance(x, dict) and 'pose' in x and 'flags' in x:
                fl = x['flags']
                nm = fl.tag[1].split('::')[-1] if isinstance(fl, Sym) and isinstance(fl.tag, tuple) and fl.tag[0] == 'const' else repr(fl)
                seen.append((nm, x['pose']))
            else:
                seen.append(('?', x))
        ok = seen == want
        first_bad = next((k for k in range(max(len(seen), len(want))) if k >= len(seen) or k >= len(want) or seen[k] != want[k]), None)
        if not ok and first_bad is not None and (first_bad == 0 or (seen and seen[0] != want[0])):
            key = 'land-first'
        elif not ok and (len(seen) == 0 or seen[-1] != want[-1]):
            key = 'park-last'
        else:
            key = 'trace-from-steps'
        if not ok:
            ctx.violation('R12.5', key, wp.where(0), wp.path,
                          'for %d stroke poses the pose list must be LAND(land), the stroke poses as TRACE in order, PARK(park), with the interpolated '
                          'poses between neighbours: entry %s is %s, expected %s' % (n, first_bad, seen[first_bad] if first_bad is not None and first_bad < len(seen) else 'missing',
                                                                                       want[first_bad] if first_bad is not None and first_bad < len(want) else 'nothing'),
                          found=repr(seen)[:300], expected=repr(want)[:300])
            return False
    for key in ('land-first', 'park-last', 'trace-from-steps'):
        ctx.ok('R12.5', key, wp.where(0), 'by interpretation for 0..3 stroke poses')
    return True


def _poses(ctx, prog):
    plan = body(ctx, 'plan')
    wp = util.find_role(ctx, 'pose-list builder of Cartesian: returns Vec<AnnotatedPose>',
                        lambda b, sg: sg[0].replace('std::vec::', '') == 'Vec<cartesian::AnnotatedPose>', module='cartesian::', called_from=[plan])
    ai = util.find_role(ctx, 'interpolating helper of Cartesian: takes &mut Vec<AnnotatedPose>',
                        lambda b, sg: any(x.replace('std::vec::', '') == '&mut Vec<cartesian::AnnotatedPose>' for x in sg[1:]), module='cartesian::', called_from=[plan])
    # which argument of the public plan(from, land, steps, park) each parameter of the builder receives (by position, not by name)
    role_of = {}
    api = {3: 'land', 4: 'steps', 5: 'park', 2: 'from'}
    for bi, t in plan.calls():
        if t['callee'].get('resolved') == wp.path:
            for pos, a in enumerate(t['args']):
                pi = util.param_index(plan.op_term(a, (bi, None)))
                if pi in api:
                    role_of[pos + 1] = api[pi]
    ctx.require(set(role_of.values()) >= {'land', 'steps', 'park'}, 'plan() hands its land, steps and park arguments to the pose-list builder')
    pushes = [(bi, t) for bi, t in wp.calls() if cname(callee_name(t)) == 'Vec::push']
    items = []
    for bi, t in pushes:
        it = strip(wp.op_term(t['args'][1], (bi, None)))
        if isinstance(it, tuple) and it[0] == 'agg' and len(it) == 4:
            ps = sorted(role_of.get(i, '#%d' % i) for i in _provenance_params(prog, wp, it[2]))
            items.append((bi, ' '.join(ps), show(it[3], maxdepth=3)))
    land = [x for x in items if 'LAND' in x[2]]
    park = [x for x in items if 'PARK' in x[2]]
    trace = [x for x in items if 'TRACE' in x[2]]
    listed = _pose_list_by_interpretation(ctx, prog, wp, ai, role_of)
    if listed is None:
        ok = len(land) == 1 and 'land' in land[0][1] and all(wp.dominates(land[0][0], x[0]) for x in items)
        ctx.check(ok, 'R12.5', 'land-first', wp.where(land[0][0]) if land else wp.where(0), wp.path, 'the LAND pose (caller\'s land) must be pushed first', found=land)
        rb = wp.return_blocks()
        ok = len(park) == 1 and 'park' in park[0][1] and all(wp.dominates(park[0][0], r) for r in rb) and not any(wp.reaches(park[0][0], x[0]) for x in items if x[0] != park[0][0])
        ctx.check(ok, 'R12.5', 'park-last', wp.where(park[0][0]) if park else wp.where(0), wp.path, 'the PARK pose (caller\'s park) must be pushed last on every path', found=park)
        ok = len(trace) >= 1 and all('steps' in x[1] for x in trace)
        ctx.check(ok, 'R12.5', 'trace-from-steps', wp.where(trace[0][0]) if trace else wp.where(0), wp.path, 'TRACE poses must be the caller\'s stroke poses', found=trace)
    # interpolation helper: LIN_INTERP flag, same fraction
    pushes = [(bi, t) for bi, t in ai.calls() if cname(callee_name(t)) == 'Vec::push']
    ok = False
    found = None
    if len(pushes) == 1:
        bi, t = pushes[0]
        it = strip(ai.op_term(t['args'][1], (bi, None)))
        found = show(it, maxdepth=9)
        ok = 'LIN_INTERP' in show(it[3], maxdepth=3)
        pose = show(it[2], maxdepth=12)
        pose_params = [i for i in range(2, ai.arg_count + 1) if 'Isometry' in ai.local_ty(i)]
        used = _provenance_params(prog, ai, it[2])
        ok = ok and 'slerp' in pose and len(pose_params) == 2 and set(pose_params) <= used
    ctx.check(ok, 'R12.5', 'interpolated', ai.where(pushes[0][0]) if pushes else ai.where(0), ai.path,
              'intermediate poses must be flagged LIN_INTERP and interpolate between start and end', found=found)
    if ok and len(pushes) == 1:
        # one fraction i/N for translation and rotation, i running over 1..N: every division inside the interpolated pose
        # divides by the same step count, and that count bounds the loop
        def uncast(t):
            t = strip(t)
            while isinstance(t, tuple) and t[0] == 'cast':
                t = strip(t[1])
            return t
        dens = set()
        idxs = set()

        loop_vars = [x for x in mir.subterms(it[2], lambda y: y[0] == 'fld' and y[2] == '0') if util.loop_source(x) is not None]
        pose_params = [i for i in range(2, ai.arg_count + 1) if 'Isometry' in ai.local_ty(i)]

        def is_fraction_numerator(n):
            # i (the loop index), or the difference of the two end poses: the divisions that define the interpolation fraction
            if any(mir.contains(n, lambda y, v=v: y == v) for v in loop_vars):
                return True
            used = {y[1] for y in mir.subterms(n, lambda y: y[0] == 'param')}
            return len(pose_params) == 2 and set(pose_params) <= used and not mir.contains(n, lambda y: y[0] == 'call' and cname(y[1]).split('::')[-1] in ('norm', 'angle'))

        def visit(x):
            if x[0] == 'bin' and x[1] == 'Div' and is_fraction_numerator(x[2]):
                dens.add(uncast(x[3]))
            if x[0] == 'call' and cname(x[1]).split('::')[-1] == 'div' and is_fraction_numerator(x[2]):
                dens.add(uncast(x[3]))
        mir.walk(it[2], visit)
        outer = dens
        rng_ok = False
        n_term = None
        if len(outer) == 1 and loop_vars:
            n_term = next(iter(outer))
            r = util.range_of(util.loop_source(loop_vars[0]))
            rng_ok = r is not None and util.const_val(r[0]) == 1 and uncast(r[1]) == n_term and r[2] in ([], ['into_iter']) and \
                all(util.loop_source(v) == util.loop_source(loop_vars[0]) for v in loop_vars)
        ctx.check(len(outer) == 1 and rng_ok, 'R12.5', 'interpolated/fraction', ai.where(pushes[0][0]), ai.path,
                  'translation and rotation of an intermediate pose must advance by the same fraction i/N with i in 1..N '
                  '(otherwise the waypoints leave the straight segment or overshoot its end)',
                  found='%d distinct step counts: %s' % (len(outer), [show(d, maxdepth=3) for d in outer]), detail='one step count N; i in 1..N')
    # interpolate(): flags LIN_INTERP, same p for lerp and slerp
    ip = _interp_role(prog)
    if ip:
        b = ip[0]
        ctx.fn(b)
        lerp = [(bi, t) for bi, t in b.calls() if cname(callee_name(t)).endswith('::lerp')]
        slerp = [(bi, t) for bi, t in b.calls() if cname(callee_name(t)).endswith('::slerp')]
        ok = len(lerp) == 1 and len(slerp) == 1 and util.is_param(b.op_term(lerp[0][1]['args'][2], (lerp[0][0], None)), 3) and \
            util.is_param(b.op_term(slerp[0][1]['args'][2], (slerp[0][0], None)), 3)
        ctx.check(ok, 'R12.5', 'interpolate-fraction', b.where(0), b.path, 'translation and rotation must be interpolated with the same fraction')


def _flag_names(t):
    """set of PathFlags constant names in a flag expression, with the operator skeleton"""
    t = strip(t)
    if isinstance(t, tuple) and t[0] == 'const' and len(t) > 3 and t[3]:
        return t[3].split('::')[-1]
    if isinstance(t, tuple) and t[0] == 'call':
        n = cname(t[1]).split('::')[-1]
        if n in ('bitor', 'bitand'):
            a, b = _flag_names(t[2]), _flag_names(t[3])
            return (n,) + tuple(sorted([a, b], key=str))
        if n == 'not':
            return ('not', _flag_names(t[2]))
        if n in ('union', 'intersection', 'difference', 'complement'):
            return (n,) + tuple(_flag_names(x) for x in t[2:])
    if isinstance(t, tuple) and t[0] == 'fld' and t[2] == 'flags':
        return 'TARGET.flags'
    return '?' + show(t, maxdepth=2)


def _linear(t):
    """integer term as {'len': a, 'idx': b, 'one': c} over (length of a sequence, an enumerate/loop index, 1); None if not of that shape"""
    t = strip(t)
    while isinstance(t, tuple) and t[0] == 'fld' and t[2] == '0' and isinstance(strip(t[1]), tuple) and strip(t[1])[0] == 'bin' and str(strip(t[1])[1]).endswith('WithOverflow'):
        t = strip(t[1])          # checked arithmetic: (a op b).0
    c = util.const_val(t)
    if isinstance(c, int) and not isinstance(c, bool):
        return {'len': 0, 'idx': 0, 'one': c}
    if isinstance(t, tuple) and t[0] == 'bin':
        op = str(t[1]).replace('WithOverflow', '').replace('Unchecked', '')
        if op in ('Add', 'Sub'):
            a, b = _linear(t[2]), _linear(t[3])
            if a is None or b is None:
                return None
            sg = 1 if op == 'Add' else -1
            return {k: a[k] + sg * b[k] for k in a}
        return None
    if isinstance(t, tuple) and t[0] == 'call' and cname(t[1]).split('::')[-1] == 'len':
        return {'len': 1, 'idx': 0, 'one': 0}
    if isinstance(t, tuple) and t[0] in ('fld', 'var', 'mutb', 'deref', 'ref'):
        return {'len': 0, 'idx': 1, 'one': 0}
    return None


def _last_element_test(g, truth):
    """True: the edge implies idx == len - 1 (given 0 <= idx < len); False: it implies idx < len - 1; None: neither recognised.
    The comparison is brought to `a*len + b*idx + c <= 0` over the integers."""
    g = strip(g)
    if truth not in (True, False):
        return None
    l, r = _linear(g[2]), _linear(g[3])
    if l is None or r is None:
        return None
    d = {k: l[k] - r[k] for k in l}          # lhs - rhs
    op = g[1]
    if op in ('Eq', 'Ne'):
        v = (d['len'], d['idx'], d['one'])
        if v in ((-1, 1, 1), (1, -1, -1)):   # idx == len - 1
            return (op == 'Eq') == truth
        return None
    if not truth:
        op = {'Le': 'Gt', 'Lt': 'Ge', 'Ge': 'Lt', 'Gt': 'Le'}[op]
    if op in ('Ge', 'Gt'):
        d = {k: -x for k, x in d.items()}
        op = {'Ge': 'Le', 'Gt': 'Lt'}[op]
    if op == 'Lt':
        d['one'] += 1                          # x < 0  <=>  x + 1 <= 0
    v = (d['len'], d['idx'], d['one'])
    if v == (-1, 1, 2):                        # idx + 2 <= len: not the last element
        return False
    if v == (1, -1, -1):                       # len - 1 <= idx: the last element
        return True
    return None


def _flags(ctx, prog, probe, step, probed=False):
    """R12.5b: waypoint flags in the strategy probe"""
    pushes = [(bi, t) for bi, t in probe.calls() if cname(callee_name(t)) == 'Vec::push']
    seen = {}
    for bi, t in pushes:
        item = strip(probe.op_term(t['args'][1], (bi, None)))
        while isinstance(item, tuple) and item[0] == 'call' and cname(item[1]) == 'Clone::clone':
            item = strip(item[2])
        if not (isinstance(item, tuple) and item[0] == 'agg' and len(item) == 4):
            continue
        joints, flags = strip(item[2]), item[3]
        cls = classify_source(prog, probe, joints)
        fl = strip(flags)
        if isinstance(fl, tuple) and fl[0] == 'var':
            # flags chosen per waypoint: the last element of a Cartesian extension carries the target's flags,
            # earlier ones (bisection waypoints) are LIN_INTERP versions without TRACE / PARK
            l = fl[2]
            kinds = {}
            for d in probe.defs().get(l, []):
                val = _flag_names(probe._def_term(d))
                gs = [(strip(g), opw.truth(k)) for g, k, sw in probe.guard_terms(d[1])]
                lt = [(g, v) for g, v in gs if isinstance(g, tuple) and g[0] == 'bin' and g[1] in ('Lt', 'Le', 'Ge', 'Gt', 'Eq', 'Ne')]
                last = None
                for g, v in lt:
                    r = _last_element_test(g, v)
                    if r is not None:
                        last = r
                kinds[last] = val
            want_mid = ('bitand', ('bitor', 'LIN_INTERP', 'TARGET.flags'), ('not', ('bitor', 'PARK', 'TRACE')))
            ok = kinds.get(True) == 'TARGET.flags' and kinds.get(False) == want_mid
            ctx.check(ok, 'R12.5', 'flags/cartesian-extension', probe.where(bi), probe.path,
                      'the final waypoint of a Cartesian step must carry the target pose\'s flags, intermediate ones (flags | LIN_INTERP) & !(TRACE | PARK)',
                      found=str(kinds), expected=str({True: 'TARGET.flags', False: want_mid}), detail=str(kinds))
            seen['ext'] = True
        else:
            v = _flag_names(flags)
            # which relocation the waypoint comes from: the one that starts at the caller's start configuration (a parameter)
            # is the onboarding, one that starts anywhere else closes a gap inside the stroke
            rrts = mir.subterms(joints, lambda x: x[0] == 'call' and cname(x[1]) == 'RRTPlanner::plan_rrt' and len(x) >= 5)
            from_start = bool(rrts) and all(util.param_index(x[3]) is not None for x in rrts)
            if cls == 'trusted' and rrts and not from_start or (isinstance(v, tuple) and v[0] == 'bitand' and 'TARGET.flags' in v):
                ok = v == ('bitand', ('not', 'LIN_INTERP'), 'TARGET.flags')
                ctx.check(ok, 'R12.5', 'flags/rrt-gap', probe.where(bi), probe.path, 'waypoints of an RRT gap closure carry the target flags without LIN_INTERP', found=str(v))
                seen['rrt'] = True
            elif v in ('LAND', 'ONBOARDING'):
                # LAND for the strategy point (a parameter), ONBOARDING for the relocation waypoints (plan_rrt result)
                okv = (v == 'LAND' and cls.startswith('param:')) or (v == 'ONBOARDING' and cls == 'trusted')
                ctx.check(okv, 'R12.5', 'flags/' + v.lower(), probe.where(bi), probe.path, '%s must flag %s' % (v, 'the strategy point' if v == 'LAND' else 'the relocation waypoints'), found='%s on %s' % (v, cls))
                seen[v] = True
    # (when the probe was interpreted as a whole - R12.8 - the flags of every waypoint it pushes have been compared already;
    #  the sites need not be in the shape read here)
    ctx.check((seen.get('ext') and seen.get('LAND')) or probed, 'R12.5', 'flags/sites', probe.where(0), probe.path, 'flag assignment sites not found (Cartesian extension, LAND)', found=str(sorted(seen)))


ATOMIC_WRITES = ('store', 'swap', 'fetch_or', 'fetch_and', 'fetch_xor', 'fetch_nand', 'fetch_update', 'compare_exchange', 'compare_exchange_weak', 'compare_and_swap')


def _stop_flag(ctx, prog, plan, probe, plan_cl):
    stores = []
    for p in prog.reachable_bodies([plan.path]):
        b = prog.bodies[p]
        for bi, t in b.calls():
            if cname(callee_name(t)).split('::')[-1] in ATOMIC_WRITES and 'Atomic' in callee_name(t):
                stores.append((b, bi, t))
    ok = len(stores) == 1
    msg = '%d writes of the stop flag (%s)' % (len(stores), ', '.join('%s at %s' % (cname(callee_name(t)).split('::')[-1], b.where(bi)) for b, bi, t in stores))
    if ok:
        b, bi, t = stores[0]
        val = util.const_val(b.op_term(t['args'][1], (bi, None)))
        gs = [(strip(g), k) for g, k, sw in b.guard_terms(bi)]
        pname = probe.path.split('::')[-1]
        after_ok = any(isinstance(g, tuple) and g[0] == 'discr' and mir.contains(g, lambda x: x[0] == 'call' and x[1] == probe.path) and k == 0 for g, k in gs)
        ok = val in (1, True) and after_ok
        msg = 'store(%s) after successful probe=%s' % (val, after_ok)
    ctx.check(ok, 'R12.6', 'store', stores[0][0].where(stores[0][1]) if stores else plan.where(0), stores[0][0].path if stores else plan.path,
              'the stop flag may be raised only after a probe returned Ok: ' + msg, detail=msg)
    # the flag handed to the probes and to RRT is the one created by plan()
    loads = [(bi, t) for bi, t in probe.calls() if cname(callee_name(t)).endswith('::load')]
    ok = all(util.param_index(probe.op_term(t['args'][0], (bi, None))) is not None for bi, t in loads)
    rrt = [(bi, t) for bi, t in probe.calls() if cname(callee_name(t)) == 'RRTPlanner::plan_rrt']
    ok = ok and all(util.param_index(probe.op_term(t['args'][4], (bi, None))) is not None for bi, t in rrt) and len(rrt) >= 1
    ctx.check(ok, 'R12.6', 'shared-flag', probe.where(0), probe.path, 'probes must load, and hand to RRT, the shared stop flag they were given')


def _flag_constants(ctx, prog):
    """R12.7: the waypoint flags can be told apart: every flag the planner assigns is a single bit of its own, and the mask
    CARTESIAN is LIN_INTERP | LAND | PARK"""
    ctx.rule('R12.7', 'the path flags assigned by the planner are distinct single bits; CARTESIAN = LIN_INTERP | LAND | PARK')

    def bits(t, depth=0):
        t = strip(t)
        c = util.const_val(t)
        if isinstance(c, int) and not isinstance(c, bool):
            return c
        if not isinstance(t, tuple) or depth > 6:
            return None
        if t[0] == 'call' and len(t) == 3 and cname(t[1]).split('::')[-1] in ('from_bits_retain', 'from_bits_truncate', 'bits'):
            return bits(t[2], depth + 1)
        if t[0] == 'bin' and t[1] in ('Shl', 'BitOr', 'ShlUnchecked'):
            a, b_ = bits(t[2], depth + 1), bits(t[3], depth + 1)
            if a is None or b_ is None:
                return None
            return (a << b_) if t[1].startswith('Shl') else (a | b_)
        if t[0] == 'const' and isinstance(t[2], str) and t[2] in prog.consts:
            return bits(prog.const_term(t[2]), depth + 1)
        if t[0] == 'fld':
            return bits(t[1], depth + 1)
        return None
    vals = {}
    for k in prog.consts:
        if '::PathFlags::' in k:
            vals[k.split('::')[-1]] = bits(prog.const_term(k))
    used = ['ONBOARDING', 'TRACE', 'LIN_INTERP', 'LAND', 'PARK']
    if not all(u in vals for u in used):
        return                               # the flags are not named constants of this shape: nothing to compare
    single = all(isinstance(vals[u], int) and vals[u] > 0 and vals[u] & (vals[u] - 1) == 0 for u in used)
    distinct = len({vals[u] for u in used}) == len(used)
    ctx.check(single and distinct, 'R12.7', 'distinct-bits', 'src/path_plan/cartesian.rs', 'cartesian::PathFlags',
              'ONBOARDING, TRACE, LIN_INTERP, LAND and PARK must be single bits of their own (a waypoint could not be told from another otherwise)',
              found=str({u: vals[u] for u in used}))
    if vals.get('CARTESIAN') is not None:
        want = vals['LIN_INTERP'] | vals['LAND'] | vals['PARK'] if single else None
        ctx.check(vals['CARTESIAN'] == want, 'R12.7', 'cartesian-mask', 'src/path_plan/cartesian.rs', 'cartesian::PathFlags',
                  'CARTESIAN must be LIN_INTERP | LAND | PARK', found=str(vals.get('CARTESIAN')), expected=str(want))


class _Flags(frozenset):
    def __repr__(self):
        return 'flags{%s}' % ','.join(sorted(self))


FLAG_NAMES = ('ONBOARDING', 'TRACE', 'LIN_INTERP', 'LAND', 'LANDING', 'PARK', 'PARKING', 'FORWARDS', 'BACKWARDS', 'ALTERED', 'ORIGINAL', 'DEBUG')


def _probe_by_interpretation(ctx, prog, probe, step):
    """R12.8: what the strategy probe assembles, decided by interpreting it with its collaborators scripted: the relocation
    planner returns [r1, r2, target], each linear transition returns three joint vectors (or fails, and the gap is then closed by
    a relocation to a solution of the target pose), nothing collides (or one chosen waypoint does).  The trace must be: the
    relocation without its last point as ONBOARDING, the strategy point once as LAND, then for every pair of poses the vectors
    of its transition - each transition continued from the last vector pushed - flagged (to | LIN_INTERP) & !(TRACE | PARK)
    except the last, which carries the target's flags; one colliding waypoint fails the probe; interpolated waypoints are
    dropped exactly when they were not asked for."""
    from .. import absint
    from ..absint import Interp, Sym, Iv
    ctx.rule('R12.8', 'the strategy probe, interpreted with scripted collaborators, returns onboarding + LAND + the transitions continued from one another with the documented flags; a colliding waypoint fails it; LIN_INTERP waypoints are dropped iff not requested')
    adt = [a for a in prog.adts if a.startswith('cartesian::Cartesian')]
    if len(adt) != 1:
        return
    cfields = [f['name'] for f in prog.adts[adt[0]]['variants'][0]['fields']]
    ALL = _Flags(FLAG_NAMES)

    def fl(x):
        if isinstance(x, _Flags):
            return x
        if isinstance(x, Sym) and isinstance(x.tag, tuple) and x.tag[0] == 'const' and '::PathFlags::' in x.tag[1]:
            nm = x.tag[1].split('::')[-1]
            if nm == 'CARTESIAN':
                return _Flags({'LIN_INTERP', 'LAND', 'PARK'})
            return _Flags() if nm == 'NONE' else _Flags({nm})
        raise absint.Unsupported('flags value %r' % (x,))

    def run(include, fail_pair=None, collide=None, gap_fails=False):
        log = {'rrt': [], 'step': [], 'ik': [], 'collides': []}
        counter = [0]

        def val(I, st, a):
            while isinstance(a, tuple) and a and a[0] in ('ref', 'refval', 'mref'):
                a = I.deref(a, st)
            return a

        def h_rrt(I, st, a, t, b):
            s0, g0 = val(I, st, a[1]), val(I, st, a[2])
            log['rrt'].append((s0, g0))
            if gap_fails and len(log['rrt']) > 1:
                return ('enum', 1, (Sym('rrt-failed'),))
            k = len(log['rrt'])
            return ('enum', 0, ((Sym('r%d.1' % k), Sym('r%d.2' % k), g0),))

        def h_step(I, st, a, t, b):
            prev, frm, to = val(I, st, a[1]), val(I, st, a[2]), val(I, st, a[3])
            log['step'].append((prev, frm, to))
            k = len(log['step'])
            if fail_pair == k:
                return ('enum', 1, (Sym(('transition', k)),))
            return ('enum', 0, ((Sym('x%d.1' % k), Sym('x%d.2' % k), Sym('x%d.3' % k)),))

        def h_ik(I, st, a, t, b):
            log['ik'].append((val(I, st, a[1]), val(I, st, a[2])))
            return (Sym('ik1'), Sym('ik2'))

        def h_collides(I, st, a, t, b):
            j = val(I, st, a[1])
            log['collides'].append(j)
            return j == collide

        def h_false(I, st, a, t, b):
            return False

        def h_unit(I, st, a, t, b):
            return ()
        H = {'RRTPlanner::plan_rrt': h_rrt, cname(step.path): h_step, step.path: h_step, 'Kinematics::inverse_continuing': h_ik,
             'KinematicsWithShape::collides': h_collides, 'Atomic::load': h_false, 'AtomicBool::load': h_false,
             'Cartesian::log_failed_transition': h_unit,
             'BitOr::bitor': lambda I, st, a, t, b: _Flags(fl(val(I, st, a[0])) | fl(val(I, st, a[1]))),
             'BitAnd::bitand': lambda I, st, a, t, b: _Flags(fl(val(I, st, a[0])) & fl(val(I, st, a[1]))),
             'Not::not': lambda I, st, a, t, b: _Flags(ALL - fl(val(I, st, a[0]))),
             'Sub::sub': lambda I, st, a, t, b: _Flags(fl(val(I, st, a[0])) - fl(val(I, st, a[1]))),
             'PathFlags::contains': lambda I, st, a, t, b: fl(val(I, st, a[1])) <= fl(val(I, st, a[0])),
             'PathFlags::intersects': lambda I, st, a, t, b: bool(fl(val(I, st, a[1])) & fl(val(I, st, a[0]))),
             'IntoParallelRefIterator::par_iter': absint.h_iter, 'ParallelIterator::any': absint.h_iter_any,
             'ParallelIterator::all': absint.h_iter_all, 'ParallelIterator::find_any': absint.h_iter_find}
        me = {'#adt': adt[0]}
        for f in cfields:
            me[f] = Sym(('self', f))
        me['include_linear_interpolation'] = include
        me['debug'] = False
        AP = 'cartesian::AnnotatedPose'
        poses = tuple({'#adt': AP, 'pose': Sym('P%d' % k), 'flags': _Flags(f)} for k, f in enumerate((['LAND'], ['LIN_INTERP'], ['TRACE'], ['LIN_INTERP'], ['PARK'])))
        I = Interp(prog, H, fuel=400000, max_paths=16)
        I.symbolic, I.oracle = True, (lambda o, x, y: None)
        outs = I.run(probe.path, [('refval', me, ()), ('refval', Sym('start'), ()), ('refval', Sym('strategy'), ()), ('refval', poses, ()), ('refval', Sym('stop'), ())])
        if len(outs) != 1:
            raise absint.Undecided('the probe forks')
        return outs[0].ret, log, poses

    def shown(tr):
        return [(repr(x.get('joints')), sorted(fl(x.get('flags')))) if isinstance(x, dict) else repr(x) for x in tr]

    def expected(poses, include, fail_pair=None):
        tr = [('r1.1', {'ONBOARDING'}), ('r1.2', {'ONBOARDING'}), ('strategy', {'LAND'})]
        nr = 1
        for k in range(1, len(poses)):
            to = set(poses[k]['flags'])
            if fail_pair == k:
                nr += 1
                for nm in ('r%d.1' % nr, 'r%d.2' % nr, 'ik1'):
                    tr.append((nm, to - {'LIN_INTERP'}))
                continue
            mid = (to | {'LIN_INTERP'}) - {'TRACE', 'PARK'}
            tr += [('x%d.1' % k, mid), ('x%d.2' % k, mid), ('x%d.3' % k, to)]
        if not include:
            tr = [x for x in tr if 'LIN_INTERP' not in x[1]]
        return [("sym'%s'" % n, sorted(f)) for n, f in tr]
    try:
        results = {}
        for include in (True, False):
            results[('plain', include)] = run(include)
        results[('gap', True)] = run(True, fail_pair=2)
        results[('gap-fails', True)] = run(True, fail_pair=2, gap_fails=True)
        results[('collision', True)] = run(True, collide=Sym('x3.2'))
    except (absint.Unsupported, absint.Undecided, KeyError, TypeError, AttributeError, IndexError) as e:
        ctx.extra['probe_interpretation'] = 'not interpreted: %s: %s' % (type(e).__name__, str(e)[:120])
        return False
    where = probe.where(0)
    n_before = len(ctx.violations)
    for (kind, include), (ret, log, poses) in results.items():
        key = '%s/%s' % (kind, 'with-interpolated' if include else 'without-interpolated')
        if kind in ('gap-fails', 'collision'):
            ok = isinstance(ret, tuple) and ret and ret[0] == 'enum' and ret[1] == 1
            ctx.check(ok, 'R12.8', key, where, probe.path,
                      'the probe must fail when %s' % ('a gap cannot be closed' if kind == 'gap-fails' else 'one waypoint of the assembled trace collides'),
                      found=repr(ret)[:160])
            continue
        fp = 2 if kind == 'gap' else None
        want = expected(poses, include, fp)
        got = shown(ret[2][0]) if isinstance(ret, tuple) and ret and ret[0] == 'enum' and ret[1] == 0 and ret[2] else None
        ctx.check(got == want, 'R12.8', key, where, probe.path,
                  'the assembled trace differs from the documented one at %s' % (
                      next((i for i in range(max(len(got or []), len(want))) if i >= len(got or []) or i >= len(want) or (got or [])[i] != want[i]), '?')),
                  found=str(got)[:400], expected=str(want)[:400])
        # each transition continues from the last vector pushed; a gap is closed towards the target pose, from there
        prevs = [repr(x[0]) for x in log['step']]
        wantp = ["sym'strategy'"]
        for k in range(1, len(poses) - 1):
            wantp.append("sym'%s'" % ('ik1' if fp == k else 'x%d.3' % k))
        ctx.check(prevs == wantp, 'R12.8', key + '/continued-from', where, probe.path,
                  'every transition must start from the joints of the waypoint pushed last', found=str(prevs), expected=str(wantp))
        ctx.check([(repr(a), repr(b_)) for a, b_ in log['rrt'][:1]] == [("sym'start'", "sym'strategy'")], 'R12.8', key + '/onboarding', where, probe.path,
                  'the onboarding relocation must lead from the start configuration to the strategy point', found=str(log['rrt'][:1]))
        if fp is not None:
            okg = [(repr(a), repr(b_)) for a, b_ in log['ik']] == [("sym'P%d'" % fp, "sym'x%d.3'" % (fp - 1))] and \
                [(repr(a), repr(b_)) for a, b_ in log['rrt'][1:]] == [("sym'x%d.3'" % (fp - 1), "sym'ik1'")]
            ctx.check(okg, 'R12.8', key + '/gap', where, probe.path,
                      'a failed transition must be closed by a relocation from the last waypoint to a solution of the TARGET pose continued from that waypoint',
                      found='ik %s rrt %s' % (log['ik'], log['rrt'][1:]))
        if kind == 'plain' and include:
            swept = [repr(x) for x in log['collides']]
            ctx.check(sorted(swept) == sorted(n for n, f in expected(poses, True)), 'R12.8', key + '/sweep', where, probe.path,
                      'every waypoint of the assembled trace must be checked for collisions', found=str(swept)[:300])
    return len(ctx.violations) == n_before


def _search_outcome(ctx, prog, plan, probe, plan_cl):
    """R12.9: the parallel search over the strategies ends only with a strategy that worked: the closure handed to the
    `find_map_any` answers Some(..) on the Ok edge of its probe and None on the Err edge - a failing strategy that ended the
    search would make the outcome depend on which strategy a thread happens to finish first."""
    ctx.rule('R12.9', 'the strategy search stops only on a strategy that worked (Some on the Ok edge of the probe, None on its Err edge)')
    for c in plan_cl:
        sites = [(bi, t) for bi, t in c.calls() if t['callee'].get('resolved') == probe.path]
        if len(sites) != 1:
            continue
        ctx.fn(c)
        bi, t = sites[0]
        res = strip(c.call_term(t, (bi, None)))
        bad = []
        some = 0
        for tv, d, rb in c.return_values():
            tv = strip(tv)
            if not (isinstance(tv, tuple) and tv[0] == 'agg'):
                bad.append('unrecognised return %s' % show(tv, maxdepth=3))
                continue
            edge = [k for g, k, sw in c.guard_terms(d[1]) if isinstance(strip(g), tuple) and strip(g)[0] == 'discr' and strip(strip(g)[1]) == res]
            if 'Some' in str(tv[1]):
                some += 1
                inner = strip(tv[2])
                # Some(Ok(outcome)), or Some(outcome) when the caller turns the Option into the Result afterwards
                wrapped = isinstance(inner, tuple) and inner[0] == 'agg' and 'Ok' in str(inner[1])
                payload = isinstance(inner, tuple) and inner[0] == 'fld' and isinstance(strip(inner[1]), tuple) and strip(inner[1])[0] == 'as' and \
                    strip(inner[1])[2] == 'Ok' and strip(strip(inner[1])[1]) == res
                if edge != [0] or not (wrapped or payload):
                    bad.append('Some(%s) on edge %s of the probe' % (show(inner, maxdepth=2), edge))
            elif 'None' in str(tv[1]):
                if edge != [1]:
                    bad.append('None on edge %s of the probe' % edge)
        ctx.check(not bad and some == 1, 'R12.9', 'search-outcome', c.where(bi), c.path,
                  'the search over the strategies must go on after a strategy that failed and stop with one that worked: ' + '; '.join(bad), found=str(bad))
