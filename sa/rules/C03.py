"""C03 - forward kinematics equals the OPW link chain, for the tool point and every link."""
from .. import algebra, mir, util, opw
from ..mir import cname, strip, callee_name, show

EXPLANATION = ('Decided from MIR terms: (R03.1) link dependence: element i of the array returned by forward_with_joint_poses depends on exactly '
               'joints[0..=i] and on the geometric parameters {c1} < {a1,b} < {c2} < {a2} < {c3} < {c4}; (R03.2) chain shape: pose_k = '
               'pose_(k-1) * (T_k, R(axis_k, q_k)) with the axis/offset table of the OPW model (spec/opw_chain.json), rotations built only by '
               'from_axis_angle on unit axes; (R03.3) the joint map q_i = joints[i]*sign[i] - offsets[i] is the same polynomial (ring normal '
               'form) in forward and in forward_with_joint_poses, with one index i per term; (R03.4) every geometric parameter occurs in the '
               'translation of forward.  That the closed-form matrix of forward equals the chain product is a trigonometric identity and is '
               'not decided.')
NOT_DECIDED = 'equality of the closed-form matrix in forward() with the product of the six elementary transforms (trigonometric identity); hence also "last link pose equals forward"'
ASSUMPTIONS = ['UnitQuaternion::from_axis_angle on a unit axis yields a proper unit rotation', 'spec/opw_chain.json is the OPW model (Brandstoetter et al.)']

CHAIN = [  # (axis, translation components as parameter names or 0)
    ('z', (0, 0, 'c1')),
    ('y', ('a1', 'b', 0)),
    ('y', (0, 0, 'c2')),
    ('z', ('a2', 0, 0)),
    ('y', (0, 0, 'c3')),
    ('z', (0, 0, 'c4')),
]
GEOM = ['a1', 'a2', 'b', 'c1', 'c2', 'c3', 'c4']


def sign_atom(a):
    return isinstance(a, tuple) and a[0] == 'cast' and 'sign_corrections' in show(a, maxdepth=6)


def expected_q(joints_t, i):
    SELF = ('param', 1, 'self')
    p = ('fld', SELF, 'parameters')
    s = ('cast', ('idx', ('fld', p, 'sign_corrections'), ('const', 'usize', i)), 'f64')
    o = ('idx', ('fld', p, 'offsets'), ('const', 'usize', i))
    j = ('idx', joints_t, ('const', 'usize', i))
    return ('bin', 'Sub', ('bin', 'Mul', j, s), o)


def inline(prog, t, depth=0):
    """Inline calls to straight-line crate-local functions / closures inside a term (for refactor robustness)."""
    if not isinstance(t, tuple) or depth > 4:
        return t
    t = (t[0],) + tuple(inline(prog, x, depth) if isinstance(x, tuple) else x for x in t[1:])
    if t[0] == 'call' and t[1] in prog.bodies:
        cb = prog.bodies[t[1]]
        rv = cb.return_values()
        if len(rv) == 1 and cb.n < 40:
            body_t = rv[0][0]
            args = list(t[2:])
            if cb.kind == 'Closure' and len(args) == 2 and isinstance(strip(args[1]), tuple) and strip(args[1])[0] == 'agg' and strip(args[1])[1] == 'tuple':
                args = [args[0]] + list(strip(args[1])[2:])
            env = strip(args[0]) if cb.kind == 'Closure' else None

            def sub(x):
                if not isinstance(x, tuple):
                    return x
                if x[0] == 'fld' and cb.kind == 'Closure' and util.is_param(x[1], 1) and isinstance(env, tuple) and env[0] == 'agg':
                    caps = cb.prog.facts and None
                    # captured operands are the aggregate's operands in capture order; field index unknown by name -> match by position
                    names = _capture_names(cb)
                    if x[2] in names and names.index(x[2]) < len(env) - 2:
                        return env[2 + names.index(x[2])]
                if x[0] in ('param', 'mparam') and x[1] - 1 < len(args):
                    return args[x[1] - 1]
                return (x[0],) + tuple(sub(y) if isinstance(y, tuple) else y for y in x[1:])
            return inline(prog, sub(body_t), depth + 1)
    return t


def _capture_names(cb):
    names = []
    for i, j, st in cb.stmts():
        pass
    seen = {}
    for blk in cb.blocks:
        for st in blk['stmts']:
            _collect_env_fields(st['rv'], seen)
        if blk['term']['k'] == 'call':
            for a in blk['term']['args']:
                _collect_env_fields({'k': 'use', 'op': a}, seen)
    return [n for i, n in sorted(seen.items())]


def _collect_env_fields(rv, seen):
    def place(p):
        if p['local'] == 1:
            for e in p['proj']:
                if e['k'] == 'field':
                    seen[e['i']] = e['name']
                    break
    k = rv.get('k')
    if k == 'use' and rv['op'].get('k') in ('copy', 'move'):
        place(rv['op']['place'])
    elif k == 'bin':
        for o in (rv['a'], rv['b']):
            if o.get('k') in ('copy', 'move'):
                place(o['place'])
    elif k in ('ref', 'discr'):
        place(rv['place'])
    elif k in ('un', 'cast'):
        o = rv.get('a') or rv.get('op')
        if o.get('k') in ('copy', 'move'):
            place(o['place'])


def joint_angles_fwd(ctx, b):
    """The six corrected joint angles of the closed-form forward: arguments of sin_cos / sin / cos, keyed by joint index."""
    out = {}
    for bi, t in b.calls():
        if cname(callee_name(t)) in ('f64::sin_cos', 'f64::sin', 'f64::cos'):
            a = inline(ctx.prog, b.op_term(t['args'][0], (bi, None)))
            js = {util.const_val(x[2]) for x in mir.subterms(a, lambda x: x[0] == 'idx' and util.is_param(x[1], 2))}
            if len(js) == 1:
                out.setdefault(js.pop(), a)
    return out


def run(ctx):
    prog = ctx.prog
    ctx.rule('R03.1', 'link pose i depends on exactly joints[0..=i] and the parameter sets {c1} < {a1,b} < {c2} < {a2} < {c3} < {c4}')
    ctx.rule('R03.2', 'pose_k = pose_(k-1) * (T_k, R(axis_k, q_k)) with the OPW axis/offset table; rotations only by from_axis_angle on unit axes')
    ctx.rule('R03.3', 'q_i == joints[i]*sign[i] - offsets[i] as polynomials, in forward and in forward_with_joint_poses')
    ctx.rule('R03.4', 'every geometric parameter occurs in the translation computed by forward')
    methods = opw.opw_methods(prog)
    fwd, fwp = methods['forward'], methods['forward_with_joint_poses']
    ctx.require(fwd is not None and fwp is not None, 'OPWKinematics::forward / forward_with_joint_poses')
    ctx.fn(fwd)
    ctx.fn(fwp)
    ring = algebra.Ring(unit_square=sign_atom)
    joints_t = algebra.canon(('param', 2, 'joints'))

    # ---- R03.3 forward
    qa = joint_angles_fwd(ctx, fwd)
    for i in range(6):
        ok = i in qa and ring.equal(algebra.canon(qa[i]), algebra.canon(expected_q(('param', 2, fwd.name_of(2)), i)))
        ctx.check(ok, 'R03.3', 'forward/q%d' % (i + 1), fwd.where(0), fwd.path,
                  'joint %d enters the closed form as %s, expected joints[%d]*sign[%d] - offsets[%d]' % (i + 1, show(qa.get(i), maxdepth=6), i, i, i),
                  found=show(qa.get(i), maxdepth=6), detail='j*s - o')

    # ---- chain
    ret = strip(fwp.return_term())
    ctx.require(isinstance(ret, tuple) and ret[0] == 'agg' and ret[1] == 'array' and len(ret) == 8, 'forward_with_joint_poses returns an array of six poses')
    elems = [strip(inline(prog, x)) for x in ret[2:]]
    prev = None
    for k, e in enumerate(elems):
        key = 'link%d' % (k + 1)
        # shape
        if k == 0:
            local = e
            chain_ok = True
        else:
            chain_ok = isinstance(e, tuple) and e[0] == 'call' and cname(e[1]).endswith('::mul') and strip(e[2]) == elems[k - 1]
            local = strip(e[3]) if chain_ok else None
        shape_ok = False
        found = show(e, maxdepth=4)
        if local is not None and isinstance(local, tuple) and local[0] == 'call' and cname(local[1]).endswith('::from_parts'):
            tr, rot = strip(local[2]), strip(local[3])
            while isinstance(tr, tuple) and tr[0] == 'call' and cname(tr[1]).split('::')[-1] in ('into', 'from'):
                tr = strip(tr[2])
            axis_w, comps_w = CHAIN[k]
            t_ok = isinstance(tr, tuple) and tr[0] == 'call' and cname(tr[1]).endswith('Translation::new') and len(tr) == 5
            if t_ok:
                for c, want in zip(tr[2:], comps_w):
                    c = strip(c)
                    if want == 0:
                        t_ok = t_ok and util.const_val(c) == 0.0
                    else:
                        t_ok = t_ok and isinstance(c, tuple) and c[0] == 'fld' and c[2] == want and 'parameters' in show(c, maxdepth=4)
            r_ok = isinstance(rot, tuple) and rot[0] == 'call' and cname(rot[1]).endswith('::from_axis_angle')
            if r_ok:
                ax = strip(rot[2])
                r_ok = isinstance(ax, tuple) and ax[0] == 'call' and cname(ax[1]).endswith('::%s_axis' % axis_w)
                q = rot[3]
                r_ok = r_ok and ring.equal(algebra.canon(q), algebra.canon(expected_q(('param', 2, fwp.name_of(2)), k)))
            shape_ok = t_ok and r_ok
            found = 'T=%s R=%s' % (show(tr, maxdepth=3), show(rot, maxdepth=3))
        ctx.check(chain_ok and shape_ok, 'R03.2', key, fwp.where(0), fwp.path,
                  'link %d is not pose_%d * (T=%s about %s by q%d): chained=%s local-transform=%s' % (k + 1, k, CHAIN[k][1], CHAIN[k][0], k + 1, chain_ok, shape_ok),
                  found=found, expected='T=%s axis=%s angle=joints[%d]*sign[%d]-offsets[%d]' % (CHAIN[k][1], CHAIN[k][0], k, k, k), detail=found)
        # R03.1 dependence
        js = {util.const_val(x[2]) for x in mir.subterms(e, lambda x: x[0] == 'idx' and util.is_param(x[1], 2))}
        ps = {x[2] for x in mir.subterms(e, lambda x: x[0] == 'fld' and x[2] in GEOM and 'parameters' in show(x, maxdepth=4))}
        want_p = set()
        for kk in range(k + 1):
            want_p |= {c for c in CHAIN[kk][1] if c != 0}
        ctx.check(js == set(range(k + 1)) and ps == want_p, 'R03.1', key, fwp.where(0), fwp.path,
                  'link pose %d depends on joints %s and parameters %s, expected joints %s and parameters %s' % (
                      k + 1, sorted(js), sorted(ps), list(range(k + 1)), sorted(want_p)), detail='joints %s params %s' % (sorted(js), sorted(ps)))

    # ---- R03.4
    rt = strip(fwd.return_term())
    ok = False
    missing = GEOM
    if isinstance(rt, tuple) and rt[0] == 'call' and cname(rt[1]).endswith('::from_parts'):
        tr = rt[2]
        ps = {x[2] for x in mir.subterms(tr, lambda x: x[0] == 'fld' and x[2] in GEOM)}
        missing = sorted(set(GEOM) - ps)
        ok = not missing
    ctx.check(ok, 'R03.4', 'forward/translation', fwd.where(0), fwd.path, 'geometric parameters %s do not influence the tool point computed by forward' % missing,
              detail='all of %s occur' % GEOM)
