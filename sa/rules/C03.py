"""C03 - forward kinematics equals the OPW link chain, for the tool point and every link."""
from .. import algebra, mir, util, opw
from ..mir import cname, strip, callee_name, show

EXPLANATION = ('Decided from MIR terms: (R03.1) link dependence: element i of the array returned by forward_with_joint_poses depends on exactly '
               'joints[0..=i] and on the geometric parameters {c1} < {a1,b} < {c2} < {a2} < {c3} < {c4}; (R03.2) chain shape: pose_k = '
               'pose_(k-1) * (T_k, R(axis_k, q_k)) with the axis/offset table of the OPW model (spec/opw_chain.json), rotations built only by '
               'from_axis_angle on unit axes; (R03.3) the joint map q_i = joints[i]*sign[i] - offsets[i] is the same polynomial (ring normal '
               'form) in forward and in forward_with_joint_poses, with one index i per term; (R03.4) every geometric parameter occurs in the '
               'translation of forward.  That the closed-form matrix of forward equals the chain product is a trigonometric identity and is '
               'not decided.')
EXPLANATION += (' (R03.5) the closed form of forward equals, entry by entry as polynomials over sin/cos atoms of the corrected joint angles, the '
                'published OPW forward kinematics (Brandstoetter et al. 2014): wrist centre (cx0, cy0, cz0), the rotation matrices R_0c and R_ce, '
                'pose = (wrist centre + c4 * R_0c * R_ce * z, R_0c * R_ce).')
NOT_DECIDED = 'equality of the closed-form matrix in forward() with the product of the six elementary transforms (trigonometric identity); hence also "last link pose equals forward"'
ASSUMPTIONS = ['UnitQuaternion::from_axis_angle on a unit axis yields a proper unit rotation', 'spec/opw_chain.json is the OPW model (Brandstoetter et al.)']

CHAIN = [  # (axis, translation components as parameter names or 0)
    ('z', (0, 0, 'c1')),
    ('y', ('a1', 'b', 0)),
    ('y', (0, 0, 'c2')),
    ('z', ('a2', 0, 0)),
    ('y', (0, 0, 'c3')),
    ('z', (0, 0, 'c4')),
]
GEOM = ['a1', 'a2', 'b', 'c1', 'c2', 'c3', 'c4']


def sign_atom(a):
    return isinstance(a, tuple) and a[0] == 'cast' and 'sign_corrections' in show(a, maxdepth=6)


def _link_poses_by_interpretation(prog, fwp):
    """[term of link pose 1..6] from a symbolic run of forward_with_joint_poses (library calls opaque, arithmetic symbolic),
    or None when the function cannot be interpreted or does not return six values"""
    from .. import absint
    from ..absint import Interp, Sym, Iv
    me = {'#adt': 'kinematics_impl::OPWKinematics'}
    adt = prog.adts.get('kinematics_impl::OPWKinematics')
    for f in (adt['variants'][0]['fields'] if adt else []):
        me[f['name']] = Sym(('self', f['name']))
    I = Interp(prog, {}, fuel=200000, max_paths=8)
    I.symbolic, I.oracle = True, (lambda o, a, c: None)
    try:
        outs = I.run(fwp.path, [('refval', me, ()), ('refval', Sym('joints'), ())])
    except (absint.Unsupported, absint.Undecided):
        return None
    if len(outs) != 1 or not isinstance(outs[0].ret, (tuple, list)) or len(outs[0].ret) != 6:
        return None
    jn = fwp.name_of(2)

    def pose_level(x):
        if isinstance(x, Sym) and isinstance(x.tag, tuple):
            if x.tag and x.tag[0] == 'call' and any(w in str(x.tag[1]) for w in ('from_parts', 'Isometry', 'identity')):
                return True
            return any(pose_level(y) for y in x.tag)
        return False

    def conv(x):
        if isinstance(x, Iv):
            return ('const', 'f64', x.lo, None) if x.is_point() else ('opaque', repr(x))
        if isinstance(x, bool) or isinstance(x, int):
            return ('const', 'usize', x, None)
        if isinstance(x, str):
            return ('const', 'str', x, None)
        if not isinstance(x, Sym):
            return ('opaque', repr(x)[:60])
        t = x.tag
        if t == 'joints':
            return ('param', 2, jn)
        if isinstance(t, tuple) and t and t[0] == 'self':
            return ('fld', ('param', 1, 'self'), t[1])
        if isinstance(t, tuple) and t:
            if t[0] == 'fld':
                return ('fld', conv(t[1]), t[2])
            if t[0] == 'idx':
                return ('idx', conv(t[1]), conv(t[2]) if not isinstance(t[2], int) else ('const', 'usize', t[2], None))
            if t[0] == 'bin':
                if t[1] == 'Mul' and (pose_level(t[2]) or pose_level(t[3])):
                    return ('call', 'std::ops::Mul::mul', conv(t[2]), conv(t[3]))
                return ('bin', t[1], conv(t[2]), conv(t[3]))
            if t[0] == 'neg':
                return ('un', 'Neg', conv(t[1]))
            if t[0] == 'cast':
                return ('cast', conv(t[1]), 'f64')
            if t[0] == 'deref':
                return conv(Sym(t[1])) if not isinstance(t[1], Sym) else conv(t[1])
            if t[0] == 'call':
                return ('call', t[1]) + tuple(conv(a) for a in t[2:])
        return ('opaque', repr(t)[:60])
    return [conv(x) for x in outs[0].ret]


def expected_q(joints_t, i):
    SELF = ('param', 1, 'self')
    p = ('fld', SELF, 'parameters')
    s = ('cast', ('idx', ('fld', p, 'sign_corrections'), ('const', 'usize', i)), 'f64')
    o = ('idx', ('fld', p, 'offsets'), ('const', 'usize', i))
    j = ('idx', joints_t, ('const', 'usize', i))
    return ('bin', 'Sub', ('bin', 'Mul', j, s), o)


def inline(prog, t, depth=0):
    """Inline calls to straight-line crate-local functions / closures inside a term (for refactor robustness)."""
    if not isinstance(t, tuple) or depth > 4:
        return t
    t = (t[0],) + tuple(inline(prog, x, depth) if isinstance(x, tuple) else x for x in t[1:])
    if t[0] == 'call' and t[1] in prog.bodies:
        cb = prog.bodies[t[1]]
        rv = cb.return_values()
        if len(rv) == 1 and cb.n < 40:
            body_t = rv[0][0]
            args = list(t[2:])
            if cb.kind == 'Closure' and len(args) == 2 and isinstance(strip(args[1]), tuple) and strip(args[1])[0] == 'agg' and strip(args[1])[1] == 'tuple':
                args = [args[0]] + list(strip(args[1])[2:])
            env = strip(args[0]) if cb.kind == 'Closure' else None

            def sub(x):
                if not isinstance(x, tuple):
                    return x
                if x[0] == 'fld' and cb.kind == 'Closure' and util.is_param(x[1], 1) and isinstance(env, tuple) and env[0] == 'agg':
                    caps = cb.prog.facts and None
                    # captured operands are the aggregate's operands in capture order; field index unknown by name -> match by position
                    names = _capture_names(cb)
                    if x[2] in names and names.index(x[2]) < len(env) - 2:
                        return env[2 + names.index(x[2])]
                if x[0] in ('param', 'mparam') and x[1] - 1 < len(args):
                    return args[x[1] - 1]
                return (x[0],) + tuple(sub(y) if isinstance(y, tuple) else y for y in x[1:])
            return inline(prog, sub(body_t), depth + 1)
    return t


def _capture_names(cb):
    names = []
    for i, j, st in cb.stmts():
        pass
    seen = {}
    for blk in cb.blocks:
        for st in blk['stmts']:
            _collect_env_fields(st['rv'], seen)
        if blk['term']['k'] == 'call':
            for a in blk['term']['args']:
                _collect_env_fields({'k': 'use', 'op': a}, seen)
    return [n for i, n in sorted(seen.items())]


def _collect_env_fields(rv, seen):
    def place(p):
        if p['local'] == 1:
            for e in p['proj']:
                if e['k'] == 'field':
                    seen[e['i']] = e['name']
                    break
    k = rv.get('k')
    if k == 'use' and rv['op'].get('k') in ('copy', 'move'):
        place(rv['op']['place'])
    elif k == 'bin':
        for o in (rv['a'], rv['b']):
            if o.get('k') in ('copy', 'move'):
                place(o['place'])
    elif k in ('ref', 'discr'):
        place(rv['place'])
    elif k in ('un', 'cast'):
        o = rv.get('a') or rv.get('op')
        if o.get('k') in ('copy', 'move'):
            place(o['place'])


def joint_angles_fwd(ctx, b):
    """The six corrected joint angles of the closed-form forward: arguments of sin_cos / sin / cos, keyed by joint index."""
    out = {}
    for bi, t in b.calls():
        if cname(callee_name(t)) in ('f64::sin_cos', 'f64::sin', 'f64::cos'):
            a = inline(ctx.prog, util.peval(ctx.prog, b.op_term(t['args'][0], (bi, None))))
            js = {util.const_val(x[2]) for x in mir.subterms(a, lambda x: x[0] == 'idx' and util.is_param(x[1], 2))}
            if len(js) == 1:
                out.setdefault(js.pop(), a)
    return out


def trig_atomize(t):
    """sin_cos(x).0 -> sin(x), sin_cos(x).1 -> cos(x) so that both spellings are one atom"""
    if isinstance(t, tuple) and t[0] == 'fld' and t[2] in ('0', '1') and isinstance(strip(t[1]), tuple) and strip(t[1])[0] == 'call' and cname(strip(t[1])[1]) == 'f64::sin_cos':
        return ('call', 'std::f64::<impl f64>::' + ('sin' if t[2] == '0' else 'cos'), algebra.canon(strip(t[1])[2]))
    return None


class TrigRing(algebra.Ring):
    def _nf(self, t):
        r = trig_atomize(t) if isinstance(t, tuple) else None
        if r is not None:
            return super()._nf(r)
        return super()._nf(t)


def spec_forward(q):
    """published closed form; q = [q1..q6] corrected joint angle terms.  Returns (wrist centre xyz, R_0c entries, R_ce entries)."""
    from .C02 import P_, _call, _b
    add, sub, mul = (lambda x, y: _b('Add', x, y)), (lambda x, y: _b('Sub', x, y)), (lambda x, y: _b('Mul', x, y))
    neg = lambda x: ('un', 'Neg', x)
    S = [None] + [_call('sin', x) for x in q]
    C = [None] + [_call('cos', x) for x in q]
    a1, a2, bb, c1, c2, c3 = P_('a1'), P_('a2'), P_('b'), P_('c1'), P_('c2'), P_('c3')
    psi3 = _call('atan2', a2, c3)
    k = _call('sqrt', add(mul(a2, a2), mul(c3, c3)))
    q23 = add(add(q[1], q[2]), psi3)
    cx1 = add(add(mul(c2, S[2]), mul(k, _call('sin', q23))), a1)
    cy1 = bb
    cz1 = add(mul(c2, C[2]), mul(k, _call('cos', q23)))
    centre = [sub(mul(cx1, C[1]), mul(cy1, S[1])), add(mul(cx1, S[1]), mul(cy1, C[1])), add(cz1, c1)]
    m3 = lambda x, y, z: mul(mul(x, y), z)
    zero = ('const', 'f64', 0.0)
    r0c = [sub(m3(C[1], C[2], C[3]), m3(C[1], S[2], S[3])), neg(S[1]), add(m3(C[1], C[2], S[3]), m3(C[1], S[2], C[3])),
           sub(m3(S[1], C[2], C[3]), m3(S[1], S[2], S[3])), C[1], add(m3(S[1], C[2], S[3]), m3(S[1], S[2], C[3])),
           sub(mul(neg(S[2]), C[3]), mul(C[2], S[3])), zero, add(mul(neg(S[2]), S[3]), mul(C[2], C[3]))]
    rce = [sub(m3(C[4], C[5], C[6]), mul(S[4], S[6])), sub(m3(neg(C[4]), C[5], S[6]), mul(S[4], C[6])), mul(C[4], S[5]),
           add(m3(S[4], C[5], C[6]), mul(C[4], S[6])), add(m3(neg(S[4]), C[5], S[6]), mul(C[4], C[6])), mul(S[4], S[5]),
           mul(neg(S[5]), C[6]), mul(S[5], S[6]), C[5]]
    return centre, r0c, rce


def closed_form(ctx, fwd, qa):
    """R03.5"""
    ring = TrigRing(unit_square=sign_atom)
    rt = strip(inline(ctx.prog, util.peval(ctx.prog, fwd.return_term())))      # helper methods / closures computing the joint convention are written out
    if not ctx.check(isinstance(rt, tuple) and rt[0] == 'call' and cname(rt[1]).endswith('::from_parts'), 'R03.5', 'shape', fwd.where(0), fwd.path, 'forward must return from_parts(translation, rotation)'):
        return
    tr, rot = strip(rt[2]), strip(rt[3])
    while isinstance(tr, tuple) and tr[0] == 'call' and cname(tr[1]).split('::')[-1] in ('from', 'into'):
        tr = strip(tr[2])
    mats = []

    def f(x):
        if x[0] == 'call' and cname(x[1]).endswith('Matrix::new') and len(x) == 11:
            if x not in mats:
                mats.append(x)
    mir.walk(rot, f)
    q = [algebra.canon(qa[i]) for i in range(6)]
    centre, r0c, rce = spec_forward(q)
    ok_shape = len(mats) == 2
    if ctx.check(ok_shape, 'R03.5', 'rotation-factors', fwd.where(0), fwd.path, 'the rotation must be the product of two explicit 3x3 matrices (R_0c * R_ce)', found=len(mats)):
        # product order: rot = ... Mul::mul(A, B)
        prod = [x for x in mir.subterms(rot, lambda x: x[0] == 'call' and cname(x[1]).endswith('::mul') and len(x) == 4 and strip(x[2]) in mats and strip(x[3]) in mats)]
        if ctx.check(len(prod) >= 1, 'R03.5', 'rotation-product', fwd.where(0), fwd.path, 'R_0c * R_ce product not found'):
            A, B = strip(prod[0][2]), strip(prod[0][3])
            for name, M, spec in (('R_0c', A, r0c), ('R_ce', B, rce)):
                for k in range(9):
                    ok = (ring.nf(algebra.canon(M[2 + k])) - ring.nf(algebra.canon(spec[k]))).is_zero()
                    ctx.check(ok, 'R03.5', '%s[%d][%d]' % (name, k // 3, k % 3), fwd.where(0), fwd.path,
                              'entry (%d,%d) of %s differs from the published closed form' % (k // 3, k % 3, name), found=show(M[2 + k], maxdepth=5), expected=show(spec[k], maxdepth=5), detail='matches')
            # translation = centre + c4 * (A*B) * unit_z
            ok = False
            if isinstance(tr, tuple) and tr[0] == 'call' and cname(tr[1]).endswith('::add'):
                cen, tip = strip(tr[2]), strip(tr[3])
                if isinstance(cen, tuple) and cen[0] == 'call' and cname(cen[1]).endswith('Matrix::new') and len(cen) == 5:
                    for k in range(3):
                        okc = (ring.nf(algebra.canon(cen[2 + k])) - ring.nf(algebra.canon(centre[k]))).is_zero()
                        ctx.check(okc, 'R03.5', 'wrist-centre[%s]' % 'xyz'[k], fwd.where(0), fwd.path,
                                  'the %s coordinate of the wrist centre differs from the published closed form' % 'xyz'[k], found=show(cen[2 + k], maxdepth=6), expected=show(centre[k], maxdepth=6), detail='matches')
                    w = algebra.word(tip)
                    names = [show(a, maxdepth=2) for a, e in w]
                    # the scalar c4 commutes: it may stand anywhere in the product, the matrix factors may not move
                    scal = [i for i, (a, e) in enumerate(w) if isinstance(a, tuple) and a[0] == 'fld' and a[2] == 'c4']
                    rest = [x for i, x in enumerate(w) if i not in scal]
                    ok = len(scal) == 1 and len(rest) == 3 and all(e == 1 for a, e in w) and rest[0][0] == algebra.canon(A) and rest[1][0] == algebra.canon(B) \
                        and 'unit_z' in show(rest[2][0], maxdepth=2)
            ctx.check(ok, 'R03.5', 'flange-offset', fwd.where(0), fwd.path, 'the tool flange must be wrist centre + c4 * R_0c * R_ce * z', found=show(tr, maxdepth=3))


def run(ctx):
    prog = ctx.prog
    ctx.rule('R03.5', 'closed form of forward == published OPW forward kinematics (wrist centre, R_0c, R_ce, flange offset), as polynomials over sin/cos atoms')
    ctx.rule('R03.1', 'link pose i depends on exactly joints[0..=i] and the parameter sets {c1} < {a1,b} < {c2} < {a2} < {c3} < {c4}')
    ctx.rule('R03.2', 'pose_k = pose_(k-1) * (T_k, R(axis_k, q_k)) with the OPW axis/offset table; rotations only by from_axis_angle on unit axes')
    ctx.rule('R03.3', 'q_i == joints[i]*sign[i] - offsets[i] as polynomials, in forward and in forward_with_joint_poses')
    ctx.rule('R03.4', 'every geometric parameter occurs in the translation computed by forward')
    methods = opw.opw_methods(prog)
    fwd, fwp = methods['forward'], methods['forward_with_joint_poses']
    ctx.require(fwd is not None and fwp is not None, 'OPWKinematics::forward / forward_with_joint_poses')
    ctx.fn(fwd)
    ctx.fn(fwp)
    # sign corrections are -1, 0 or +1 (0 blocks J6 of a 5-DOF robot): s^3 = s holds for all of them, s^2 = 1 does not, so two
    # joint maps that agree only under s^2 = 1 (e.g. s*(j - s*o) versus j*s - o) are told apart
    ring = algebra.Ring(unit_square=lambda a: 'cube' if sign_atom(a) else False)
    joints_t = algebra.canon(('param', 2, 'joints'))

    # ---- R03.3 forward
    qa = joint_angles_fwd(ctx, fwd)
    for i in range(6):
        ok = i in qa and ring.equal(algebra.canon(qa[i]), algebra.canon(expected_q(('param', 2, fwd.name_of(2)), i)))
        ctx.check(ok, 'R03.3', 'forward/q%d' % (i + 1), fwd.where(0), fwd.path,
                  'joint %d enters the closed form as %s, expected joints[%d]*sign[%d] - offsets[%d]' % (i + 1, show(qa.get(i), maxdepth=6), i, i, i),
                  found=show(qa.get(i), maxdepth=6), detail='j*s - o')

    if len(qa) == 6:
        closed_form(ctx, fwd, qa)

    # ---- chain
    ret = strip(fwp.return_term())
    elems = None
    if not (isinstance(ret, tuple) and ret[0] == 'agg' and ret[1] == 'array' and len(ret) == 8):
        # the six poses are not one literal (a table of links and a loop filling the array ..): the value of every element by
        # symbolic interpretation of the function, written back as terms
        elems = _link_poses_by_interpretation(prog, fwp)
    ctx.require(elems is not None or (isinstance(ret, tuple) and ret[0] == 'agg' and ret[1] == 'array' and len(ret) == 8), 'forward_with_joint_poses returns an array of six poses')
    if elems is None:
        elems = [strip(inline(prog, util.peval(prog, x))) for x in ret[2:]]
    prev = None
    for k, e in enumerate(elems):
        key = 'link%d' % (k + 1)
        # shape
        if k == 0:
            local = e
            chain_ok = True
        else:
            chain_ok = isinstance(e, tuple) and e[0] == 'call' and cname(e[1]).endswith('::mul') and strip(e[2]) == elems[k - 1]
            local = strip(e[3]) if chain_ok else None
        shape_ok = False
        found = show(e, maxdepth=4)
        if local is not None and isinstance(local, tuple) and local[0] == 'call' and cname(local[1]).endswith('::from_parts'):
            tr, rot = strip(local[2]), strip(local[3])
            while isinstance(tr, tuple) and tr[0] == 'call' and cname(tr[1]).split('::')[-1] in ('into', 'from'):
                tr = strip(tr[2])
            axis_w, comps_w = CHAIN[k]
            t_ok = isinstance(tr, tuple) and tr[0] == 'call' and cname(tr[1]).endswith('Translation::new') and len(tr) == 5
            if t_ok:
                for c, want in zip(tr[2:], comps_w):
                    c = strip(c)
                    if want == 0:
                        t_ok = t_ok and util.const_val(c) == 0.0
                    else:
                        t_ok = t_ok and isinstance(c, tuple) and c[0] == 'fld' and c[2] == want and 'parameters' in show(c, maxdepth=4)
            r_ok = isinstance(rot, tuple) and rot[0] == 'call' and cname(rot[1]).endswith('::from_axis_angle')
            if r_ok:
                ax = strip(rot[2])
                r_ok = isinstance(ax, tuple) and ax[0] == 'call' and cname(ax[1]).endswith('::%s_axis' % axis_w)
                q = rot[3]
                r_ok = r_ok and ring.equal(algebra.canon(q), algebra.canon(expected_q(('param', 2, fwp.name_of(2)), k)))
            shape_ok = t_ok and r_ok
            found = 'T=%s R=%s' % (show(tr, maxdepth=3), show(rot, maxdepth=3))
        ctx.check(chain_ok and shape_ok, 'R03.2', key, fwp.where(0), fwp.path,
                  'link %d is not pose_%d * (T=%s about %s by q%d): chained=%s local-transform=%s' % (k + 1, k, CHAIN[k][1], CHAIN[k][0], k + 1, chain_ok, shape_ok),
                  found=found, expected='T=%s axis=%s angle=joints[%d]*sign[%d]-offsets[%d]' % (CHAIN[k][1], CHAIN[k][0], k, k, k), detail=found)
        # R03.1 dependence
        js = {util.const_val(x[2]) for x in mir.subterms(e, lambda x: x[0] == 'idx' and util.is_param(x[1], 2))}
        ps = {x[2] for x in mir.subterms(e, lambda x: x[0] == 'fld' and x[2] in GEOM and 'parameters' in show(x, maxdepth=4))}
        want_p = set()
        for kk in range(k + 1):
            want_p |= {c for c in CHAIN[kk][1] if c != 0}
        ctx.check(js == set(range(k + 1)) and ps == want_p, 'R03.1', key, fwp.where(0), fwp.path,
                  'link pose %d depends on joints %s and parameters %s, expected joints %s and parameters %s' % (
                      k + 1, sorted(js), sorted(ps), list(range(k + 1)), sorted(want_p)), detail='joints %s params %s' % (sorted(js), sorted(ps)))

    # ---- R03.4
    rt = strip(fwd.return_term())
    ok = False
    missing = GEOM
    if isinstance(rt, tuple) and rt[0] == 'call' and cname(rt[1]).endswith('::from_parts'):
        tr = util.inline_calls(ctx.prog, rt[2], depth=2)          # a part of the closed form kept in a helper (`self.wrist_center(q1, q2, q3)`) is written out
        ps = {x[2] for x in mir.subterms(tr, lambda x: x[0] == 'fld' and x[2] in GEOM)}
        missing = sorted(set(GEOM) - ps)
        ok = not missing
    ctx.check(ok, 'R03.4', 'forward/translation', fwd.where(0), fwd.path, 'geometric parameters %s do not influence the tool point computed by forward' % missing,
              detail='all of %s occur' % GEOM)
    if ctx.pid == 'C03':
        # "for the tool point and every link" is observed through whatever wraps the robot: how Tool / Base / Frame pass link
        # poses and the flange pose on is C09's subject; its clauses are re-checked here (not when C03 itself is re-run by
        # C01 / C02, which concern the bare solver)
        from . import C09
        C09.run(ctx)
