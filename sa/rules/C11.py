"""C11 - collision-aware IK returns exactly the non-colliding solutions, in order."""
from .. import mir, util, opw
from ..mir import cname, strip, callee_name, show

EXPLANATION = ('Decides from MIR: (R11.1) every inverse method of KinematicsWithShape is remove_collisions(inner.same_method(same args)) and '
               'forward / link poses / limits / singularity return the inner result; (R11.2) the collision filter pushes an element exactly on the '
               'false edge of RobotBody::collides for that same element, iterating the input sequentially, and applies no re-ordering or removing '
               'operation; (R11.3) stack construction Tool{Base{OPWKinematics::new_with_constraints}} from the constructor parameters, identical in '
               'both public constructors; (R11.4) positioned_robot pairs mesh i with link pose i and the tool with pose J6.  (R11.5) the four collision queries of the robot with shape (collides, near, collision_details, non_colliding_offsets) return the query of the same name of the body, on the own body and kinematics of the robot, with the arguments of the caller in order - the planners and the neighbour enumeration ask through them, so C12, C13 and C14 re-check this clause.  Mesh geometry is not decided.')
NOT_DECIDED = 'geometry of the collision queries (C10)'
ASSUMPTIONS = ['Vec::push appends at the end; vec::IntoIter yields elements in order']
KWS = 'kinematics_with_shape::KinematicsWithShape'

ORDER_SAFE_VEC = {'push', 'with_capacity', 'new', 'len', 'into_iter', 'iter', 'extend', 'reserve', 'capacity', 'is_empty', 'clone', 'next', 'as_ref', 'deref', 'collides'}


def subset_filter_role(ctx, b):
    """Check that body b(self, solutions) returns the sub-sequence of `solutions` on the false edge of collides.
    Returns list of problems (empty = holds)."""
    def pred(body, g, elem):
        if cname(g[1]) != 'RobotBody::collides':
            # the wrapper's own collides(joints) is body.collides(joints, kinematics): written out
            g = strip(util.peval(ctx.prog, g))
            if not (isinstance(g, tuple) and g[0] == 'call' and cname(g[1]) == 'RobotBody::collides' and len(g) == 5):
                return None
        e = strip(g[3])
        while isinstance(e, tuple) and e[0] in ('ref', 'deref'):
            e = e[1]
        el = elem
        while isinstance(el, tuple) and el[0] in ('ref', 'deref'):
            el = el[1]
        same = e == el
        body_ok = _is_self_field_path(_unenv(g[2]), 'body')
        g4 = g[4]
        if mir.contains(g4, lambda y: y[0] == 'call' and 'KinematicsWithShape::' in y[1]):
            g4 = strip(util.inline_calls(ctx.prog, g4, depth=1))         # an accessor of the wrapper reads as what it returns
        kin_ok = util.is_self_field(_unenv(g4), 'kinematics')
        return False if (same and body_ok and kin_ok) else None
    ok, desc = util.subsequence_filter(ctx.prog, b, 2, pred)
    return [] if ok else [desc]


def _unenv(t):
    """closure upvar `self` -> the method's self"""
    def f(x):
        if not isinstance(x, tuple):
            return x
        if x[0] == 'fld' and x[2] in ('*self', 'self') and util.is_param(x[1], 1):
            return ('param', 1, 'self')
        return (x[0],) + tuple(f(y) if isinstance(y, tuple) else y for y in x[1:])
    return f(t)


def _is_self_field_path(t, field):
    t = strip(t)
    return isinstance(t, tuple) and t[0] == 'fld' and t[2] == field and util.is_param(t[1], 1)


def run(ctx):
    prog = ctx.prog
    shape_wrappers(ctx, prog)
    ctx.rule('R11.1', 'each inverse method = remove_collisions(inner.same_method(same args)); the other trait methods return the inner result unchanged')
    ctx.rule('R11.2', 'the filter pushes exactly on the false edge of RobotBody::collides(body, &sol, kinematics) for the same sol, sequentially, without re-ordering')
    ctx.rule('R11.3', 'kinematic stack = Tool{Base{OPWKinematics::new_with_constraints(params, constraints), base}, tool}; BaseBody.base_pose from the same base transform; both constructors agree')
    ctx.rule('R11.4', 'positioned_robot pairs joint_meshes[i] with link pose i and the tool with link pose J6 of one forward_with_joint_poses call')
    rc = util.find_role(ctx, 'collision filter of KinematicsWithShape: fn(&self, Vec<[f64; 6]>) -> Vec<[f64; 6]>',
                        lambda b, sg: b.raw.get('impl_self') == KWS and not b.raw.get('impl_trait') and len(sg) == 3 and
                        sg[0].replace('std::vec::', '') == 'Vec<[f64; 6]>' and sg[2].replace('std::vec::', '') == 'Vec<[f64; 6]>')
    probs = subset_filter_role(ctx, rc)
    ctx.check(not probs, 'R11.2', 'remove_collisions', rc.where(0), rc.path, '; '.join(probs), detail='push on !collides(sol), sequential')

    for m in util.KIN_METHODS:
        b = prog.trait_impl_method(KWS, 'Kinematics', m)
        ctx.require(b is not None, 'impl Kinematics for KinematicsWithShape::' + m)
        ctx.fn(b)
        vv = util.virtual_calls(b)
        key = 'KinematicsWithShape/' + m
        if len(vv) != 1 or vv[0][2] != m:
            ctx.violation('R11.1', key, b.where(0), b.path, 'does not delegate once to the same inner method', found=[v[2] for v in vv], expected=m)
            continue
        bi, t, _ = vv[0]
        inner = strip(b.call_term(t, (bi, None)))
        args_ok = all(util.is_param(b.op_term(a, (bi, None)), i + 2) for i, a in enumerate(t['args'][1:]))
        rvs = [strip(x[0]) for x in b.return_values()]
        if m in util.INVERSE_METHODS:
            ok = len(rvs) == 1 and isinstance(rvs[0], tuple) and rvs[0][0] == 'call' and rvs[0][1] == rc.path \
                and util.is_param(rvs[0][2], 1) and strip(rvs[0][3]) == inner
            ctx.check(ok and args_ok, 'R11.1', key, b.where(bi), b.path,
                      'result is not remove_collisions(inner.%s(same args))' % m, found=show(rvs[0], maxdepth=4) if rvs else None,
                      detail='remove_collisions(inner.%s(..))' % m)
        else:
            ctx.check(len(rvs) == 1 and rvs[0] == inner and args_ok, 'R11.1', key, b.where(bi), b.path,
                      'inner result is not returned unchanged', found=show(rvs[0], maxdepth=4) if rvs else None)

    _stack(ctx, prog)
    _positioned(ctx, prog)
    # "non-colliding" is RobotBody::collides: its mode handling and pair table (C10) are re-checked here
    from . import C10
    C10.run(ctx)


def _stack(ctx, prog):
    cs = prog.find(suffix=KWS + '::create_robot_with_base_and_tool')
    news = prog.find(suffix=KWS + '::new') + prog.find(suffix=KWS + '::with_safety')
    ctx.require(len(news) == 2, 'KinematicsWithShape::new / with_safety')
    builders = {}
    for b in news:
        ctx.fn(b)
        # the public constructors are positional API: (parameters, constraints, joint meshes, base mesh, base transform,
        # tool mesh, tool transform, environment, first_collision_only | safety)
        order = ['opw_parameters', 'constraints', 'joint_meshes', 'base_mesh', 'base_transform', 'tool_mesh', 'tool_transform', 'collision_environment',
                 'safety' if b.path.endswith('with_safety') else 'first_collision_only']
        ctx.require(b.arg_count == 9, 'nine constructor parameters of ' + b.path)
        tys = [b.local_ty(i) for i in range(1, 10)]
        ctx.require('Parameters' in tys[0] and 'Constraints' in tys[1] and 'TriMesh; 6]' in tys[2] and 'TriMesh' in tys[3] and 'Isometry' in tys[4] and
                    'TriMesh' in tys[5] and 'Isometry' in tys[6] and 'CollisionBody' in tys[7], 'constructor parameter types of ' + b.path)
        params = {n: i + 1 for i, n in enumerate(order)}
        ret = strip(b.return_term())
        key = b.path.split('::')[-1]
        other = [x for x in news if x.path != b.path]
        if isinstance(ret, tuple) and ret[0] == 'call' and other and ret[1] == other[0].path:
            # one constructor may delegate to the other: the first eight arguments are then passed on position by position
            # (two of them are meshes of the same type, two are transforms of the same type: a swap compiles)
            args = [util.param_index(_unclone(a)) for a in ret[2:]]
            ok = args[:8] == list(range(1, 9))
            ctx.check(ok, 'R11.3', key + '/stack', b.where(0), b.path,
                      'the constructor hands its arguments to %s in the order %s, expected 1..8 (parameters, constraints, joint meshes, base mesh, base transform, '
                      'tool mesh, tool transform, environment)' % (other[0].path.split('::')[-1], args[:8]), found=str(args), detail='delegates position by position')
            if key != 'with_safety':
                last = strip(ret[10]) if len(ret) > 10 else None
                modes = {}
                okm = isinstance(last, tuple) and last[0] == 'call' and cname(last[1]) == 'SafetyDistances::standard'
                if okm:
                    for d in _defs_of_operand_local(b, last):
                        for g, k, sw in b.guard_terms(d[1]):
                            if util.param_index(g) == params.get('first_collision_only'):
                                modes[opw.truth(k)] = show(b._def_term(d))
                okm = okm and 'FirstCollisionOnly' in modes.get(True, '') and 'AllCollsions' in modes.get(False, '')
                ctx.check(okm, 'R11.3', key + '/mode', b.where(0), b.path, 'first_collision_only must select FirstCollisionOnly / AllCollsions', found=modes)
            continue
        ctx.require(isinstance(ret, tuple) and ret[0] == 'agg' and ret[1].endswith('KinematicsWithShape'), 'constructor returns a KinematicsWithShape aggregate')
        fields = dict(zip([f['name'] for f in prog.adts[KWS]['variants'][0]['fields']], ret[2:]))
        kin = strip(fields['kinematics'])
        # Arc::new(stack) possibly unsized
        while isinstance(kin, tuple) and kin[0] == 'cast':
            kin = strip(kin[1])
        ok_arc = isinstance(kin, tuple) and kin[0] == 'call' and cname(kin[1]) == 'Arc::new'
        stack = strip(kin[2]) if ok_arc else None
        shape = _stack_shape(prog, b, stack, params) if ok_arc else 'not Arc::new(..)'
        ctx.check(shape == 'ok', 'R11.3', key + '/stack', b.where(0), b.path, 'kinematic stack is not Tool{Base{OPW(params, constraints), base}, tool}: %s' % shape,
                  detail='Tool{Base{OPW}}')
        body = strip(fields['body'])
        bf = dict(zip([f['name'] for f in prog.adts['collisions::RobotBody']['variants'][0]['fields']], body[2:])) if isinstance(body, tuple) and body[0] == 'agg' else {}
        base = strip(bf.get('base'))
        ok = False
        if isinstance(base, tuple) and base[0] == 'agg' and 'Some' in base[1]:
            bb = strip(base[2])
            if isinstance(bb, tuple) and bb[0] == 'agg' and bb[1].endswith('BaseBody'):
                mesh, pose = strip(bb[2]), strip(bb[3])
                ok = util.param_index(mesh) == params['base_mesh'] and isinstance(pose, tuple) and pose[0] == 'call' and cname(pose[1]).endswith('::cast') \
                    and util.param_index(pose[2]) == params['base_transform']
        ctx.check(ok, 'R11.3', key + '/base-body', b.where(0), b.path, 'BaseBody is not {base_mesh, base_transform.cast()}', found=show(base, maxdepth=5))
        tool = strip(bf.get('tool'))
        ok = isinstance(tool, tuple) and tool[0] == 'agg' and 'Some' in tool[1] and util.param_index(tool[2]) == params['tool_mesh']
        ok = ok and util.param_index(bf.get('joint_meshes')) == params['joint_meshes'] and util.param_index(bf.get('collision_environment')) == params['collision_environment']
        ctx.check(ok, 'R11.3', key + '/meshes', b.where(0), b.path, 'tool / joint meshes / environment are not the constructor parameters')
        if key == 'with_safety':
            ctx.check(util.param_index(bf.get('safety')) == params.get('safety'), 'R11.3', key + '/safety', b.where(0), b.path, 'safety is not the constructor parameter')
        else:
            sf = strip(bf.get('safety'))
            ok = isinstance(sf, tuple) and sf[0] == 'call' and cname(sf[1]) == 'SafetyDistances::standard'
            # mode chosen by first_collision_only: true -> FirstCollisionOnly
            modes = {}
            if ok:
                # the argument local has two defs guarded by the flag
                arg_defs = _defs_of_operand_local(b, sf)
                for d in arg_defs:
                    for g, k, sw in b.guard_terms(d[1]):
                        if util.param_index(g) == params.get('first_collision_only'):
                            modes[opw.truth(k)] = show(b._def_term(d))
            ok = ok and 'FirstCollisionOnly' in modes.get(True, '') and 'AllCollsions' in modes.get(False, '')
            ctx.check(ok, 'R11.3', key + '/mode', b.where(0), b.path, 'first_collision_only must select FirstCollisionOnly / AllCollsions', found=modes)


def _defs_of_operand_local(b, call_term):
    # find the call site of SafetyDistances::standard and the local used as its argument
    for bi, t in b.calls():
        if cname(callee_name(t)) == 'SafetyDistances::standard':
            a = t['args'][0]
            if a['k'] in ('copy', 'move') and not a['place']['proj']:
                l = a['place']['local']
                for _ in range(4):
                    ds = [d for d in b.defs().get(l, [])]
                    # a plain copy of another local (`let mode = match flag {..}; standard(mode)`): the definitions of that one count
                    if len(ds) == 1 and ds[0][0] == 'st' and ds[0][3]['rv']['k'] == 'use' and ds[0][3]['rv']['op'].get('k') in ('copy', 'move') \
                            and not ds[0][3]['rv']['op']['place']['proj']:
                        l = ds[0][3]['rv']['op']['place']['local']
                        continue
                    return ds
                return ds
    return []


def _stack_shape(prog, b, stack, params):
    """stack term inside constructor b: either inline aggregates or a call to a local helper with positional params."""
    if isinstance(stack, tuple) and stack[0] == 'call' and stack[1] in prog.bodies:
        h = prog.bodies[stack[1]]
        hp = {n: l for l, n in h.names.items() if 1 <= l <= h.arg_count}
        # map helper params to constructor params by position
        actual = {}
        for i, a in enumerate(stack[2:]):
            actual[i + 1] = util.param_index(a)
        inner = _tool_base_opw(h, strip(h.return_term()))
        if isinstance(inner, str):
            return inner
        tool_p, base_p, par_p, con_p = inner
        want = (params['tool_transform'], params['base_transform'], params['opw_parameters'], params['constraints'])
        got = tuple(actual.get(x) for x in (tool_p, base_p, par_p, con_p))
        return 'ok' if got == want else 'helper arguments are routed %s, expected %s' % (got, want)
    inner = _tool_base_opw(b, stack)
    if isinstance(inner, str):
        return inner
    want = (params['tool_transform'], params['base_transform'], params['opw_parameters'], params['constraints'])
    return 'ok' if tuple(inner) == want else 'fields are routed %s, expected %s' % (inner, want)


def _unclone(t):
    t = strip(t)
    while isinstance(t, tuple) and t[0] == 'call' and cname(t[1]).split('::')[-1] in ('clone', 'into', 'from'):
        t = strip(t[2])
    return t


def _unarc(t):
    t = strip(t)
    while isinstance(t, tuple) and t[0] == 'cast':
        t = strip(t[1])
    if isinstance(t, tuple) and t[0] == 'call' and cname(t[1]) == 'Arc::new':
        return strip(t[2])
    return None


def _tool_base_opw(b, t):
    """Return (tool_param, base_param, params_param, constraints_param) or an error string."""
    if not (isinstance(t, tuple) and t[0] == 'agg' and t[1].endswith('tool::Tool') and len(t) == 4):
        return 'outermost wrapper is not Tool: ' + show(t, maxdepth=2)
    tool_p = util.param_index(_unclone(t[3]))
    base = _unarc(t[2])
    if not (isinstance(base, tuple) and base[0] == 'agg' and base[1].endswith('tool::Base') and len(base) == 4):
        return 'Tool.robot is not Arc::new(Base{..})'
    base_p = util.param_index(_unclone(base[3]))
    opwk = _unarc(base[2])
    if not (isinstance(opwk, tuple) and opwk[0] == 'call' and cname(opwk[1]) == 'OPWKinematics::new_with_constraints'):
        return 'Base.robot is not Arc::new(OPWKinematics::new_with_constraints(..)): ' + show(opwk, maxdepth=2)
    return (tool_p, base_p, util.param_index(opwk[2]), util.param_index(opwk[3]))


def _positioned(ctx, prog):
    r = prog.find(suffix=KWS + '::positioned_robot')
    ctx.require(len(r) == 1, 'KinematicsWithShape::positioned_robot')
    b = r[0]
    ctx.fn(b)
    vv = util.virtual_calls(b)
    if not ctx.check(len(vv) == 1 and vv[0][2] == 'forward_with_joint_poses', 'R11.4', 'positioned_robot/fk', b.where(0), b.path,
                     'expected exactly one inner forward_with_joint_poses call', found=[v[2] for v in vv]):
        return
    fk = strip(b.call_term(vv[0][1], (vv[0][0], None)))
    # closures building PositionedJoint{joint_body, transform}: the one mapped over joint_meshes.iter().enumerate() pairs mesh i
    # with pose i; the tool is placed either in the function itself (if let Some(tool)) or by Option::map over body.tool
    cl = [c for c in util.closure_bodies(prog, b.path) if any(st['rv']['k'] == 'agg' and 'PositionedJoint' in str(st['rv']['kind']) for _, _, st in c.stmts())]
    users = {}
    for bi, t in b.calls():
        for a in t['args']:
            cb, caps = util.closure_of_term(prog, b.op_term(a, (bi, None)))
            if cb is not None:
                users[cb.path] = (bi, t)
    ok = False
    chain_ok = False
    tool_ok = False
    detail = ''
    for c in cl:
        use = users.get(c.path)
        if use is None:
            continue
        bi, ut = use
        un = cname(callee_name(ut))
        recv = b.op_term(ut['args'][0], (bi, None))
        for i, j, st in c.stmts():
            if not (st['rv']['k'] == 'agg' and 'PositionedJoint' in str(st['rv']['kind'])):
                continue
            t = c.rv_term(st['rv'], (i, j))
            jb, tr = strip(t[2]), strip(t[3])
            if un == 'Option::map':
                src = strip(recv)
                while isinstance(src, tuple) and src[0] == 'call' and cname(src[1]) in ('Option::as_ref',):
                    src = strip(src[2])
                from_tool = isinstance(src, tuple) and src[0] == 'fld' and src[2] == 'tool'
                tool_ok = from_tool and util.is_param(jb, 2) and isinstance(tr, tuple) and tr[0] == 'idx' and util.const_val(tr[2]) == 5
            elif un.endswith('::map'):
                # closure param 2 is the tuple (i, joint_body)
                ok = (isinstance(jb, tuple) and jb[0] == 'fld' and util.is_param(jb[1], 2) and jb[2] == '1'
                      and isinstance(tr, tuple) and tr[0] == 'idx' and isinstance(strip(tr[2]), tuple) and strip(tr[2])[0] == 'fld'
                      and util.is_param(strip(tr[2])[1], 2) and strip(tr[2])[2] == '0')
                detail = show(t, maxdepth=5)
                base, ad = util.iter_chain(recv)
                base = strip(base)
                chain_ok = ad == ['iter', 'enumerate'] and isinstance(base, tuple) and base[0] == 'fld' and base[2] == 'joint_meshes'
                # ... or mesh k zipped with pose k: joint_meshes.iter().zip(<the link poses>)
                z = strip(recv)
                while isinstance(z, tuple) and z[0] == 'call' and cname(z[1]).split('::')[-1] == 'into_iter':
                    z = strip(z[2])
                if not (ok and chain_ok) and isinstance(z, tuple) and z[0] == 'call' and cname(z[1]) == 'Iterator::zip' and len(z) == 4:
                    lb, lad = util.iter_chain(z[2])
                    rb2, rad = util.iter_chain(z[3])
                    lb = strip(lb)
                    zipped = isinstance(jb, tuple) and jb[0] == 'fld' and util.is_param(jb[1], 2) and jb[2] == '0' and \
                        isinstance(tr, tuple) and tr[0] == 'fld' and util.is_param(tr[1], 2) and tr[2] == '1'
                    if zipped and lad == ['iter'] and isinstance(lb, tuple) and lb[0] == 'fld' and lb[2] == 'joint_meshes' and \
                            all(a in ('into_iter', 'iter', 'copied', 'cloned', 'map') for a in rad) and mir.contains(z[3], lambda x: x == fk):
                        ok = chain_ok = True
    ctx.check(ok and chain_ok, 'R11.4', 'positioned_robot/links', b.where(0), b.path,
              'link meshes are not paired with the link pose of the same index (pair ok=%s, iteration over joint_meshes.iter().enumerate()=%s)' % (ok, chain_ok), found=detail, detail=detail)
    # tool transform = global_transforms[J6]
    for i, j, st in b.stmts():
        if st['rv']['k'] == 'agg' and 'PositionedJoint' in str(st['rv']['kind']):
            t = b.rv_term(st['rv'], (i, j))
            tr = strip(t[3])
            tool_ok = isinstance(tr, tuple) and tr[0] == 'idx' and util.const_val(tr[2]) == 5
    ctx.check(tool_ok, 'R11.4', 'positioned_robot/tool', b.where(0), b.path, 'tool is not placed at link pose J6')


SHAPE_WRAPPERS = ('collides', 'near', 'collision_details', 'non_colliding_offsets')


def shape_wrappers(ctx, prog):
    """R11.5: the collision queries of the robot with shape are its body's queries of the same name on its own kinematics:
    `self.body.<name>(joints.., self.kinematics.as_ref(), ..)` with the caller's arguments in order, returned as it is
    (the planners, the IK filter and the neighbour enumeration all ask through these four methods)."""
    ctx.rule('R11.5', 'KinematicsWithShape::{collides, near, collision_details, non_colliding_offsets} return RobotBody::<same name>(self.body; the caller\'s arguments in order; self.kinematics)')
    n = 0
    for name in SHAPE_WRAPPERS:
        bs = [b for p, b in prog.bodies.items() if p.endswith('kinematics_with_shape::KinematicsWithShape::' + name)]
        if len(bs) != 1:
            continue
        b = bs[0]
        ctx.fn(b)
        n += 1
        rv = [strip(x[0]) for x in b.return_values()]
        ok = False
        found = [show(x, maxdepth=4) for x in rv]
        if len(rv) == 1 and isinstance(rv[0], tuple) and rv[0][0] == 'call' and rv[0][1].endswith('RobotBody::' + name):
            # (an accessor of the wrapper such as `fn plain_kinematics(&self) -> &dyn Kinematics` reads as what it returns)
            args = [strip(a) for a in rv[0][2:]]
            args = [strip(util.inline_calls(prog, a, depth=1)) if mir.contains(a, lambda y: y[0] == 'call' and 'KinematicsWithShape::' in y[1]) else a for a in args]
            recv_ok = util.is_self_field(args[0], 'body')
            rest = args[1:]
            kin = [k for k, a in enumerate(rest) if mir.contains(a, lambda y: y[0] == 'fld' and y[2] == 'kinematics' and util.is_param(strip(y[1]), 1))]
            params = [util.param_index(a) for k, a in enumerate(rest) if k not in kin]
            ok = recv_ok and len(kin) == 1 and params == list(range(2, 2 + len(params))) and len(params) == b.arg_count - 1
        ctx.check(ok, 'R11.5', 'KinematicsWithShape::' + name, b.where(0), b.path,
                  'the query must be answered by RobotBody::%s of the robot\'s own body and kinematics with the caller\'s arguments unchanged and in order, and returned as it is' % name,
                  found=found, detail='-> RobotBody::' + name)
    ctx.floor('R11.5 shape queries', n, 4)
