"""C19 - parameter YAML round-trips and every documented syntax variant parses."""
import re

from .. import absint, census, mir, util, opw
from ..facts import MachineryError
from ..mir import cname, strip, callee_name, show
from .C03 import inline

EXPLANATION = ('Decided from MIR by table extraction: (R19.1) key tables agree: the writer skeleton (decoded fmt::Arguments template of to_yaml: keys, '
               'indentation nesting, placeholder <-> field by argument provenance) and the reader accesses (Index<&str> chains with literal keys <-> '
               'field of the constructed Parameters) name the same key path for all ten entries, and both arrays are printed whole (or shortened only by the entry the reader\'s padding restores); (R19.2) lexical compatibility: a `{}`-formatted '
               'f64 may print an integer-looking token, so every numeric entry\'s reader must accept Integer as well as Real; offsets: writer '
               '`deg(` + to_degrees + `)` <-> reader strip `deg(`/`)` + to_radians, plain Real and Integer accepted; (R19.3) 5 -> 6 padding and '
               'the != 6 error for both arrays; (R19.4) panic-site census from from_yaml_file (an error value, never a panic); (R19.5) the scalar reader, '
               'interpreted with the answers of as_f64 / as_i64 scripted, returns the real, or the integer as that same number, and an error value otherwise.  The YAML '
               'library\'s own parsing of arbitrary bytes is assumed.')
NOT_DECIDED = 'the YAML library\'s parsing of arbitrary byte strings; equality of offsets up to the printed precision (numerical)'
ASSUMPTIONS = ['yaml_rust2 parses `0` as Integer and `0.5` as Real, and Yaml::index(&str) returns BadValue for a missing key',
               'f64 Display prints integral values without a decimal point']

FIELDS = ['a1', 'a2', 'b', 'c1', 'c2', 'c3', 'c4', 'offsets', 'sign_corrections', 'dof']


def decode_template(hexs):
    b = bytes.fromhex(hexs)
    i = 0
    out = []
    nxt = 0
    while i < len(b):
        c = b[i]
        if c == 0:
            break
        if c < 0x80:
            out.append(('lit', b[i + 1:i + 1 + c].decode('utf-8', 'replace')))
            i += 1 + c
        elif c == 0x80:
            n = b[i + 1] | (b[i + 2] << 8)
            out.append(('lit', b[i + 3:i + 3 + n].decode('utf-8', 'replace')))
            i += 3 + n
        elif c & 0xC0 == 0xC0:
            i += 1
            flags = width = prec = None
            idx = None
            if c & 0x01:
                flags = int.from_bytes(b[i:i + 4], 'little')
                i += 4
            if c & 0x02:
                width = int.from_bytes(b[i:i + 2], 'little')
                i += 2
            if c & 0x04:
                prec = int.from_bytes(b[i:i + 2], 'little')
                i += 2
            if c & 0x08:
                idx = int.from_bytes(b[i:i + 2], 'little')
                i += 2
            if idx is None:
                idx = nxt
            nxt = idx + 1
            out.append(('ph', idx, prec))
        else:
            raise ValueError('unknown template byte 0x%02x' % c)
    return out


_STR_WRAPPERS = ('Deref::deref', 'String::as_str', 'AsRef::as_ref', 'Borrow::borrow', 'hint::must_use', 'fmt::format', 'String::as_ref')
_APPENDERS = ('String::push_str', 'AddAssign::add_assign', 'Write::write_fmt', 'Write::write_str')


def _string_piece(b, t):
    """A term appended to the text: ('fmt', parts, [arg terms]) | ('lit', text) | ('val', term)."""
    t = strip(t)
    while isinstance(t, tuple) and t[0] == 'call' and len(t) == 3 and cname(t[1]) in _STR_WRAPPERS:
        t = strip(t[2])
    if isinstance(t, tuple) and t[0] == 'const' and t[1] == 'str':
        return ('lit', t[2])
    if isinstance(t, tuple) and t[0] == 'call' and cname(t[1]) == 'Arguments::new' and len(t) == 4:
        tmpl, args = strip(t[2]), strip(t[3])
        if isinstance(tmpl, tuple) and tmpl[0] == 'const' and tmpl[1] == 'bytes' and isinstance(args, tuple) and args[0] == 'agg' and args[1] == 'array':
            return ('fmt', decode_template(tmpl[2]), [strip(x) for x in args[2:]])
        return None
    if isinstance(t, tuple) and t[0] == 'call' and cname(t[1]) == 'Arguments::from_str' and len(t) == 3:
        c = strip(t[2])
        if isinstance(c, tuple) and c[0] == 'const' and c[1] == 'str':
            return ('lit', c[2])
        return None
    return ('val', t)


def writer_pieces(ctx, b):
    """The text the writer returns, as an ordered list of pieces.  Either the function returns one format!(..), or it builds
    a String by appending (push_str / += / write! / writeln!) in straight-line code: then the append calls on the returned
    local, which must be totally ordered by dominance, lie outside loops and be the only mutable uses of that local."""
    sites = [(bi, t) for bi, t in b.calls() if cname(callee_name(t)) == 'Arguments::new']
    if len(sites) == 1:
        bi, t = sites[0]
        ret = strip(b.return_term())
        whole = _string_piece(b, ret)
        if whole is not None and whole[0] == 'fmt':
            return [whole]
    ret_defs = b.defs().get(0, [])
    ctx.require(len(ret_defs) == 1 and ret_defs[0][0] == 'st' and ret_defs[0][3]['rv']['k'] == 'use' and
                not ret_defs[0][3]['rv']['op'].get('place', {}).get('proj', [1]), 'to_yaml returns one format!(..) or a String local built by appending')
    R = ret_defs[0][3]['rv']['op']['place']['local']
    mut_refs = {st['lhs']['local'] for i, j, st in b.stmts() if st['rv']['k'] == 'ref' and st['rv'].get('mut') and st['rv']['place']['local'] == R}
    events = []
    for bi, t in b.calls():
        a0 = t['args'][0] if t['args'] else None
        if a0 and a0.get('k') in ('move', 'copy') and not a0['place']['proj'] and a0['place']['local'] in mut_refs:
            n = cname(callee_name(t))
            ctx.require(n in _APPENDERS and len(t['args']) == 2, 'the text under construction is only appended to (found %s)' % n)
            events.append((bi, t))
            mut_refs.discard(a0['place']['local'])
    ctx.require(not mut_refs and events, 'every mutable borrow of the text under construction is an append')
    for x in range(len(events)):
        ctx.require(not b.reaches(b.blocks[events[x][0]]['term'].get('target'), events[x][0]), 'appends lie outside loops')
        for y in range(x + 1, len(events)):
            ctx.require(b.dominates(events[x][0], events[y][0]) or b.dominates(events[y][0], events[x][0]), 'appends are totally ordered')
    events.sort(key=lambda e: sum(1 for o in events if b.dominates(o[0], e[0])))
    pieces = []
    for bi, t in events:
        p = _string_piece(b, b.op_term(t['args'][1], (bi, None)))
        ctx.require(p is not None, 'appended value is a literal, a format!(..) or a string value')
        pieces.append(p)
    return pieces


class _Ph(str):
    """placeholder inside an interpreted string: what is printed there (a symbolic value) and how (precision)"""


def _writer_by_interpretation(ctx, b):
    """The text to_yaml returns, obtained by abstract interpretation with every field of `self` a distinct symbol: string
    operations are evaluated on text in which each printed symbol leaves a placeholder.  Used when the writer is not one
    format!(..) or a straight line of appends (loops over (key, value) tables, helper functions that join lists, ..).
    -> [pieces as writer_pieces]"""
    from ..absint import Interp, Sym
    prog = ctx.prog
    fields = [f['name'] for f in prog.adts['parameters::opw_kinematics::Parameters']['variants'][0]['fields']]
    me = {'#adt': 'parameters::opw_kinematics::Parameters'}
    for f in fields:
        me[f] = tuple(Sym((f, i)) for i in range(6)) if f in ('offsets', 'sign_corrections') else Sym((f,))
    phs = []

    def ph(value, how, prec):
        phs.append((value, how, prec))
        return '\x01%d\x02' % (len(phs) - 1)

    def val(I, st, a):
        while isinstance(a, tuple) and a and a[0] in ('ref', 'refval', 'mref'):
            a = I.deref(a, st)
        return a

    def h_str(I, st, a, t, b2):
        v = val(I, st, a[0])
        if isinstance(v, str):
            return v
        if isinstance(v, Sym):
            return ph(v, 'to_string', None)
        raise absint.Unsupported('string from %r' % (v,))

    def h_new(I, st, a, t, b2):
        return ''

    def h_push_str(I, st, a, t, b2):
        cur = val(I, st, a[0])
        add = val(I, st, a[1])
        if not (isinstance(cur, str) and isinstance(add, str)):
            raise absint.Unsupported('push_str %r %r' % (cur, add))
        I._write_ref(st, a[0], cur + add)
        return ()

    def h_add(I, st, a, t, b2):
        x, y = val(I, st, a[0]), val(I, st, a[1])
        if isinstance(x, str) and isinstance(y, str):
            return x + y
        raise absint.Unsupported('string + %r %r' % (x, y))

    def h_arg(how):
        def h(I, st, a, t, b2):
            return ('fmtarg', val(I, st, a[0]), how)
        return h

    def h_arguments(I, st, a, t, b2):
        tm = val(I, st, a[0])
        args = val(I, st, a[1]) if len(a) > 1 else ()
        if not (isinstance(tm, tuple) and tm and tm[0] == 'bytes'):
            raise absint.Unsupported('format template %r' % (tm,))
        out = ''
        for p in decode_template(tm[1]):
            if p[0] == 'lit':
                out += p[1]
            else:
                fa = args[p[1]]
                v, how = fa[1], fa[2]
                out += v if (isinstance(v, str) and how == 'display' and p[2] is None) else ph(v, how, p[2])
        return out

    def h_identity(I, st, a, t, b2):
        return val(I, st, a[0])

    def h_deg(I, st, a, t, b2):
        return ph(val(I, st, a[0]), 'deg', None)

    def h_join(I, st, a, t, b2):
        items = val(I, st, a[0])
        sep = val(I, st, a[1])
        return sep.join(items)

    def h_from_str_args(I, st, a, t, b2):
        return val(I, st, a[0])

    def h_unwrap(I, st, a, t, b2):
        return ()

    def h_write_fmt(I, st, a, t, b2):
        cur = val(I, st, a[0])
        I._write_ref(st, a[0], cur + val(I, st, a[1]))
        return ('enum', 0, ((),))
    degs = [p for p in prog.bodies if p == 'utils::deg']
    H = {'String::new': h_new, 'String::with_capacity': h_new, 'String::from': h_str, 'From::from': h_str, 'ToString::to_string': h_str, 'ToOwned::to_owned': h_str,
         'str::to_string': h_str, 'String::push_str': h_push_str, 'String::push': h_push_str, 'Add::add': h_add, 'AddAssign::add_assign': h_push_str,
         'Argument::new_display': h_arg('display'), 'Argument::new_debug': h_arg('debug'), 'Argument::new_lower_exp': h_arg('exp'),
         'Arguments::new': h_arguments, 'Arguments::from_str': h_from_str_args, 'fmt::format': h_identity, 'hint::must_use': h_identity,
         'String::as_str': h_identity, 'slice::join': h_join, 'Vec::join': h_join, 'Result::unwrap': h_unwrap, 'Write::write_fmt': h_write_fmt,
         'Write::write_str': h_push_str, 'i8::to_string': h_str}
    for dp in degs:
        H[dp] = h_deg
        H[cname(dp)] = h_deg
    I = Interp(prog, H, fuel=400000, max_paths=8)
    try:
        outs = I.run(b.path, [('refval', me, ())])
    except (absint.Unsupported, absint.Undecided) as e:
        raise MachineryError('to_yaml could not be interpreted (%s): %s' % (type(e).__name__, e))
    if len(outs) != 1 or not isinstance(outs[0].ret, str):
        raise MachineryError('to_yaml does not evaluate to one text (%d outcomes)' % len(outs))
    text = outs[0].ret
    # back to pieces: literals and one synthetic argument term per placeholder
    SELF = ('param', 1, 'self')
    pieces = []
    pos = 0
    for m in re.finditer('\x01(\\d+)\x02', text):
        if m.start() > pos:
            pieces.append(('lit', text[pos:m.start()]))
        v, how, prec = phs[int(m.group(1))]
        tag = v.tag if isinstance(v, Sym) else None
        if isinstance(tag, tuple) and len(tag) == 1:
            term = ('fld', SELF, tag[0])
        elif isinstance(tag, tuple) and len(tag) == 2:
            term = ('idx', ('fld', SELF, tag[0]), ('const', 'usize', tag[1], None))
        else:
            raise MachineryError('to_yaml prints a value that is not a field of self: %r' % (v,))
        if how == 'display':
            term = ('call', 'core::fmt::rt::Argument::new_display', term)
        elif how == 'deg':
            term = ('call', 'utils::deg', term)
        elif how == 'to_string':
            term = ('call', 'alloc::string::ToString::to_string', term)
        else:
            term = ('call', 'core::fmt::rt::Argument::new_' + how, term)
        pieces.append(('fmt', [('ph', 0, prec)], [term]))
        pos = m.end()
    if pos < len(text):
        pieces.append(('lit', text[pos:]))
    return pieces


def _entries_printed(table_arg_terms, f):
    """indices of self.f printed, in order, from the synthetic argument terms of the interpreted writer"""
    out = []
    for a in table_arg_terms:
        for x in mir.subterms(a, lambda x: x[0] == 'idx' and util.is_self_field(x[1], f)):
            out.append(util.const_val(x[2]))
    return out


def writer_table(ctx, b):
    """-> {field: (key path tuple, precision, wrapper)}"""
    prog = ctx.prog
    parts = []
    arg_terms = []
    try:
        pieces = writer_pieces(ctx, b)
        ctx.extra['writer'] = 'format / straight-line appends'
    except MachineryError:
        pieces = _writer_by_interpretation(ctx, b)
        ctx.extra['writer'] = 'interpreted'
    for p in pieces:
        if p[0] == 'lit':
            parts.append(('lit', p[1]))
        elif p[0] == 'val':
            parts.append(('ph', len(arg_terms), None))
            arg_terms.append(p[1])
        else:
            base = len(arg_terms)
            parts += [x if x[0] == 'lit' else ('ph', base + x[1], x[2]) for x in p[1]]
            arg_terms += p[2]
    text = ''
    for p in parts:
        text += p[1] if p[0] == 'lit' else '\x00%d\x00' % p[1]
    table = {}
    printed = {}
    ctx._printed = printed
    stack = []   # (indent, key)
    for line in text.split('\n'):
        if not line.strip():
            continue
        indent = len(line) - len(line.lstrip(' '))
        m = re.match(r'^\s*([A-Za-z0-9_]+):\s*(.*)$', line)
        if not m:
            continue
        key, rest = m.group(1), m.group(2)
        while stack and stack[-1][0] >= indent:
            stack.pop()
        path = tuple(k for _, k in stack) + (key,)
        phs = re.findall('\x00(\\d+)\x00', rest)
        if not phs:
            stack.append((indent, key))
            continue
        for ph in phs:
            a = arg_terms[int(ph)]
            field = _field_of(a)
            wrap = rest.replace('\x00%s\x00' % ph, '{}')
            prec = [p[2] for p in parts if p[0] == 'ph' and p[1] == int(ph)][0]
            table[field] = (path, prec, wrap, a)
            printed.setdefault(field, []).append(a)
    return table


def _field_of(a):
    fs = mir.subterms(a, lambda x: x[0] == 'fld' and util.is_param(x[1], 1))
    names = sorted({x[2] for x in fs})
    if len(names) > 1:
        # an argument that mentions several fields prints one of them and uses the others as parameters (a count passed to
        # take(), say): the printed one is the array that is iterated
        arrays = [n for n in names if n in ('offsets', 'sign_corrections')]
        if len(arrays) == 1:
            return arrays[0]
    return names[0] if len(names) == 1 else str(names)


def key_paths(t):
    """all literal key paths of Index<&str> chains inside term t (outermost key last)"""
    paths = set()

    def chain(x):
        x = strip(x)
        if isinstance(x, tuple) and x[0] == 'call' and cname(x[1]) == 'Index::index' and isinstance(strip(x[3]), tuple) and strip(x[3])[0] == 'const' and strip(x[3])[1] == 'str':
            return chain(x[2]) + (strip(x[3])[2],)
        return ()

    def f(x):
        if x[0] == 'call' and cname(x[1]) == 'Index::index':
            c = chain(x)
            if c:
                paths.add(c)
    mir.walk(t, f)
    # keep maximal chains only: doc[a] is an intermediate of doc[a][b], not an access of its own
    return {p for p in paths if not any(len(q) > len(p) and q[:len(p)] == p for q in paths)}


def run(ctx):
    prog = ctx.prog
    ctx.rule('R19.1', 'writer key path == reader key path for each of the ten entries (keys, nesting, field)')
    ctx.rule('R19.2', 'every token the writer can print for an entry is accepted by the reader of that entry (integer-looking lengths, deg(..) offsets)')
    ctx.rule('R19.3', 'offset / sign arrays: 5 -> 6 padding, length != 6 is an error value')
    ctx.rule('R19.4', 'panic-site census of from_yaml_file')
    _number_reader(ctx, prog)
    wr = [b for p, b in prog.bodies.items() if p.endswith('Parameters::to_yaml')]
    rd = [b for p, b in prog.bodies.items() if p.endswith('::from_yaml_file')]
    ctx.require(len(wr) == 1 and len(rd) == 1, 'Parameters::to_yaml and Parameters::from_yaml_file')
    wr, rd = wr[0], rd[0]
    ctx.fn(wr)
    ctx.fn(rd)
    wt = writer_table(ctx, wr)
    ctx.floor('R19.1 writer entries', len(wt), 5)          # ten on the confirmed tree; a field that is not written at all is reported below
    oks = [strip(t) for t, d, rb in rd.return_values() if isinstance(strip(t), tuple) and strip(t)[0] == 'agg' and 'Ok' in strip(t)[1]]
    ctx.require(len(oks) == 1, 'Ok(Parameters{..}) return of from_yaml_file')
    agg = strip(oks[0][2])
    names = [f['name'] for f in prog.adts['parameters::opw_kinematics::Parameters']['variants'][0]['fields']]
    rfields = dict(zip(names, agg[2:]))
    for f in FIELDS:
        if not ctx.check(f in wt, 'R19.1', f, wr.where(0), wr.path, 'to_yaml does not write `%s` (another field is printed in its place, or nothing)' % f, found=sorted(wt)):
            continue
        wpath, prec, wrap, warg = wt[f]
        rt = rfields[f]
        rt_full = _expand(prog, rd, rt)
        rpaths = key_paths(rt_full)
        ok = wpath in rpaths
        ctx.check(ok, 'R19.1', f, rd.where(0), rd.path,
                  'to_yaml writes `%s` at %s but from_yaml_file reads it from %s' % (f, '/'.join(wpath), sorted('/'.join(p) for p in rpaths)),
                  found=sorted('/'.join(p) for p in rpaths), expected='/'.join(wpath), detail='/'.join(wpath))
        # R19.2 lexical classes
        calls = {cname(x[1]) for x in mir.subterms(rt_full, lambda x: x[0] == 'call')}
        # what a local reader helper accepts: the accessors it calls and the Yaml variants it takes apart (`Yaml::Integer(v) => v as f64`)
        variants_taken = set()
        for hx in mir.subterms(rt_full, lambda x: x[0] == 'call' and x[1] in prog.bodies and prog.bodies[x[1]].kind != 'Closure'):
            hb = prog.bodies[hx[1]]
            for hbb in [hb] + util.closure_bodies(prog, hb.path):
                calls |= {cname(callee_name(ct)) for _, ct in hbb.calls()}
                for i2, j2, st2 in hbb.stmts():
                    for pl in (st2['rv'].get('place'), (st2['rv'].get('op') or {}).get('place') if isinstance(st2['rv'].get('op'), dict) else None):
                        for e in (pl or {}).get('proj', []):
                            if e.get('k') == 'downcast':
                                variants_taken.add(e.get('name'))
        if f in ('a1', 'a2', 'b', 'c1', 'c2', 'c3', 'c4'):
            is_display_f64 = isinstance(warg, tuple) and warg[0] == 'call' and cname(warg[1]).endswith('new_display') and prec is None
            accepts_int = 'Yaml::as_i64' in calls or 'Yaml::into_i64' in calls or 'Integer' in variants_taken
            accepts_real = 'Yaml::as_f64' in calls or 'Yaml::into_f64' in calls or ('Real' in variants_taken and 'str::parse' in calls)
            ctx.check(accepts_real and (accepts_int or not is_display_f64), 'R19.2', f, rd.where(0), rd.path,
                      '`%s` is written with `{}` (an integral value such as 0 prints as `0`, an Integer token) but the reader accepts only %s' % (
                          f, 'Real' if accepts_real else 'nothing numeric'), found=sorted(c for c in calls if c.startswith('Yaml::')), expected='as_f64 or as_i64',
                      detail='Real and Integer accepted')
            # the scalar is printed in full: `{}` of the field itself (Display of f64 prints the shortest text that parses back
            # to the same value); a precision or a width/flag changes the text, a computed argument changes the value
            direct = isinstance(warg, tuple) and warg[0] == 'call' and len(warg) == 3 and cname(warg[1]).endswith('new_display') and \
                isinstance(strip(warg[2]), tuple) and strip(warg[2])[0] == 'fld' and strip(warg[2])[2] == f and util.is_param(strip(warg[2])[1], 1)
            plain = prec is None and wrap.strip() == '{}'
            ctx.check(direct and plain, 'R19.2', f + '/printed-in-full', wr.where(0), wr.path,
                      '`%s` must be written as `{}` of the field itself (found precision %s, text `%s`, argument %s): a rounded or decorated number does not read back equal' % (
                          f, prec, wrap, show(warg, maxdepth=4)), found='%s / %s' % (wrap, show(warg, maxdepth=4)), detail='{} of self.' + f)
        if f == 'dof':
            ctx.check('Yaml::as_i64' in calls, 'R19.2', f, rd.where(0), rd.path, 'dof is written as an integer and must be read with as_i64', found=sorted(calls))
    _offsets(ctx, prog, wt, rd)
    pads = _arrays(ctx, prog)
    _whole_arrays(ctx, wr, wt, pads)
    n, nd, na = census.census(ctx, 'R19.4', [rd.path])
    ctx.extra['census'] = {'sites': n, 'discharged_by_bounds_or_guards': nd, 'allow_listed': na}
    ctx.floor('R19.4 census sites', n, 8)


def _expand(prog, b, t):
    """expand `var` locals (single whole definition + later element writes) and inline straight-line helpers"""
    seen = set()

    def f(x):
        if not isinstance(x, tuple):
            return x
        if x[0] == 'var' and x[1] == b.path:
            whole = [d for d in b.defs().get(x[2], []) if d[4]]
            if len(whole) == 1:
                return f(b._def_term(whole[0]))
            if len(whole) > 1 and x[2] not in seen:
                # a value chosen by a match / if: every alternative and the tests that choose between them
                seen.add(x[2])
                alts = [f(b._def_term(d)) for d in whole]
                tests = [f(strip(g)) for d in whole for g, k, sw in b.guard_terms(d[1])]
                return ('bundle',) + tuple(alts) + tuple(tests)
        return (x[0],) + tuple(f(y) if isinstance(y, tuple) else y for y in x[1:])
    t = f(t)
    # inline local helper calls (e.g. read_number(&params["a1"], "a1")) and calls of local closures (e.g. a
    # `|key| Self::read_number(&params[key], key)`), arguments and captured values substituted, up to three levels deep
    out = [t]
    work = [(t, 0)]

    def g_at(depth):
        def g(x):
            if x[0] != 'call' or x[1] not in prog.bodies or depth >= 3:
                return
            cb = prog.bodies[x[1]]
            if cb.kind == 'Closure':
                env = strip(x[2]) if len(x) > 2 else None
                args = strip(x[3]) if len(x) > 3 else None
                if not (isinstance(env, tuple) and env[0] == 'agg' and isinstance(args, tuple) and args[0] == 'agg'):
                    return
                for rt, d, rb in cb.return_values():
                    y = _subst_closure(cb, rt, env[2:], args[2:])
                    out.append(y)
                    work.append((y, depth + 1))
                return
            for rt, d, rb in cb.return_values():
                y = _subst_params(rt, x[2:])
                out.append(y)
                work.append((y, depth + 1))
            for cl in util.closure_bodies(prog, cb.path):
                for rt, d, rb in cl.return_values():
                    out.append(rt)
        return g
    while work:
        y, depth = work.pop()
        mir.walk(y, g_at(depth))
    return ('bundle',) + tuple(out)


_upvar_index = util.upvar_index
_subst_closure = util.subst_closure
_subst_params = util.subst_params


def _offsets(ctx, prog, wt, rd):
    # writer: deg(x) helper -> "deg(" + to_degrees + ")"   (or the literal "0")
    degs = [b for p, b in prog.bodies.items() if p == 'utils::deg']
    pd = [b for p, b in prog.bodies.items() if p.startswith('parameters_from_file::') and b.kind != 'Closure' and util.sig(b)[1:] == ['&str'] and 'Result<f64' in util.sig(b)[0]]
    ro = [b for p, b in prog.bodies.items() if p.startswith('parameters_from_file::') and b.kind != 'Closure' and 'Result<[f64; 6]' in util.sig(b)[0]]
    if not ctx.check(len(degs) == 1 and len(pd) == 1 and len(ro) == 1, 'R19.2', 'offsets/helpers', rd.where(0), rd.path, 'deg() / parse_degrees / read_offsets helpers not found'):
        return
    dg, pd, ro = degs[0], pd[0], ro[0]
    for b in (dg, pd, ro):
        ctx.fn(b)
    lits = []
    conv = set()
    for bi, t in dg.calls():
        n = cname(callee_name(t))
        if n == 'Arguments::new':
            tm = strip(dg.op_term(t['args'][0], (bi, None)))
            lits += [p[1] for p in decode_template(tm[2]) if p[0] == 'lit']
        if n in ('f64::to_degrees', 'f64::to_radians'):
            conv.add(n)
    strs = []
    for c in [pd] + util.closure_bodies(prog, pd.path):
        for bi, t in c.calls():
            if cname(callee_name(t)) in ('str::strip_prefix', 'str::strip_suffix'):
                for a in t['args']:
                    x = strip(c.op_term(a, (bi, None)))
                    if isinstance(x, tuple) and x[0] == 'const' and x[1] == 'str':
                        strs.append(x[2])
    # every path of the writer helper that does not print `deg(<degrees>)` must be the exact-zero path: any other shortcut
    # (a rounding threshold, say) writes a non-zero offset as a different number
    short_ok = True
    short_found = []
    for t, d, rb in dg.return_values():
        if mir.contains(t, lambda x: x[0] == 'call' and cname(x[1]) == 'Arguments::new'):
            continue
        gs = [(strip(g), opw.truth(k)) for g, k, sw in dg.guard_terms(d[1])]
        def is_zero_test(g, v):
            # x == 0.0 on its true edge, x != 0.0 on its false edge; operator form or PartialEq::eq / ne on references
            if not isinstance(g, tuple):
                return False
            if g[0] == 'bin' and g[1] in ('Eq', 'Ne'):
                op, a, b = g[1], g[2], g[3]
            elif g[0] == 'call' and cname(g[1]) in ('PartialEq::eq', 'PartialEq::ne') and len(g) == 4:
                op, a, b = ('Eq' if cname(g[1]).endswith('eq') else 'Ne'), g[2], g[3]
            else:
                return False
            sides = [(a, b), (b, a)]
            zero = any(util.param_index(x) == 1 and util.const_val(y) == 0.0 for x, y in sides)
            return zero and ((op == 'Eq') == (v is True)) and v in (True, False)
        exact = any(is_zero_test(g, v) for g, v in gs)
        lit = mir.subterms(t, lambda x: x[0] == 'const' and x[1] == 'str')
        zero_lit = [x[2] for x in lit] in (['0'], ['0.0'], ['deg(0)'], ['deg(0.0)'])
        short_found.append('%s when %s' % ([x[2] for x in lit], [show(g, maxdepth=4) + '=' + str(v) for g, v in gs]))
        if not (exact and zero_lit):
            short_ok = False
    ctx.check(short_ok, 'R19.2', 'offsets/zero-shortcut', dg.where(0), dg.path,
              'the writer may abbreviate an offset to `0` only when it is exactly 0.0: %s' % short_found, found=str(short_found), detail=str(short_found))
    rconv = {cname(callee_name(t)) for bi, t in pd.calls()} | {cname(callee_name(t)) for c in util.closure_bodies(prog, pd.path) for bi, t in c.calls()}
    rconv |= {cname(f) for f in pd.fn_refs()}          # `.map(f64::to_radians)`: the conversion passed as a function item
    ok = lits[:1] == ['deg('] and lits[-1:] == [')'] and 'deg(' in strs and ')' in strs and conv == {'f64::to_degrees'} and 'f64::to_radians' in rconv
    ctx.check(ok, 'R19.2', 'offsets/deg-syntax', pd.where(0), pd.path,
              'writer `deg(<degrees>)` and reader (strip `deg(` / `)`, to_radians) must agree', found='writer %s %s; reader strips %s, converts %s' % (lits, sorted(conv), strs, sorted(x for x in rconv if 'radians' in x or 'degrees' in x)),
              detail='deg( .. ) <-> to_radians')
    # the degree conversion belongs to the deg(..) syntax only: a plain number is radians
    conv_paths = plain_paths = 0
    bad_paths = []
    for t, d, rb in pd.return_values():
        tt = strip(t)
        if isinstance(tt, tuple) and tt[0] == 'call' and cname(tt[1]) == 'FromResidual::from_residual':
            continue
        gs = [(strip(g), k) for g, k, sw in pd.guard_terms(d[1])]
        on_deg = [k for g, k in gs if isinstance(g, tuple) and g[0] == 'discr' and mir.contains(g, lambda x: x[0] == 'call' and cname(x[1]) == 'str::strip_prefix')]
        converts = _converts_to_radians(prog, tt)
        if converts and on_deg == [1]:
            conv_paths += 1
        elif not converts and on_deg in ([0], ['otherwise']):
            plain_paths += 1
        else:
            bad_paths.append('%s on the %s edge' % ('to_radians' if converts else 'no conversion', {(): 'unconditional', (1,): 'deg(..)', (0,): 'plain-number', ('otherwise',): 'plain-number'}.get(tuple(on_deg), str(on_deg))))
    if not (conv_paths >= 1 and plain_paths >= 1 and not bad_paths):
        # not written as one conversion per edge of the prefix test (a flag carried to a shared parse, say): decided by
        # interpreting the reader with the string operations scripted
        by_run = _parse_degrees_by_interpretation(prog, pd)
        if by_run is not None and not by_run:
            conv_paths, plain_paths, bad_paths = 1, 1, []
        elif by_run:
            bad_paths = by_run
    ctx.check(conv_paths >= 1 and plain_paths >= 1 and not bad_paths, 'R19.2', 'offsets/plain-radians', pd.where(0), pd.path,
              'deg(x) must be converted to radians and a plain number must be taken as radians (the documented format mixes `0.0` and `deg(-90.0)`): ' + '; '.join(bad_paths),
              found='converting paths=%d plain paths=%d other=%s' % (conv_paths, plain_paths, bad_paths), detail='deg(..) -> to_radians; plain -> as is')
    # the per-entry reader: closures of the array reader, or a function it maps over the entries / calls with an entry
    item_readers = list(util.closure_bodies(prog, ro.path))
    for c in [ro] + list(item_readers):
        for f in list(c.fn_refs()) + [t['callee'].get('resolved') for _, t in c.calls() if t['callee'].get('local')]:
            fb = prog.bodies.get(f)
            if fb is not None and fb is not pd and fb not in item_readers and fb is not ro and any('Yaml' in x for x in util.sig(fb)[1:]):
                item_readers.append(fb)
                ctx.fn(fb)
    # the Real variant of an offset entry must not pass through a degree conversion either
    for c in item_readers:
        for t, d, rb in c.return_values():
            tt = strip(t)
            downs = set()
            for g, k, sw in c.guard_terms(d[1]):
                pass
            if mir.contains(tt, lambda x: x[0] == 'as' and x[2] == 'Real'):
                ctx.check(not _converts_to_radians(prog, tt) and not mir.contains(tt, lambda x: x[0] == 'call' and x[1] == pd.path), 'R19.2', 'offsets/real-is-radians', c.where(0), c.path,
                          'a Real offset entry is a plain radian value and must be parsed as such', found=show(tt, maxdepth=5))
    # reader variants per item: String -> parse_degrees, Real -> parse, Integer -> as f64
    variants = set()
    for c in [ro] + item_readers:
        for i, j, st in c.stmts():
            for e in st['rv'].get('place', {}).get('proj', []) if st['rv']['k'] in ('use', 'ref', 'discr') and 'place' in st['rv'] else []:
                if e['k'] == 'downcast':
                    variants.add(e['name'])
            if st['rv']['k'] == 'use' and st['rv']['op'].get('k') in ('copy', 'move'):
                for e in st['rv']['op']['place']['proj']:
                    if e['k'] == 'downcast':
                        variants.add(e['name'])
            if st['rv']['k'] == 'ref':
                for e in st['rv']['place']['proj']:
                    if e['k'] == 'downcast':
                        variants.add(e['name'])
    ctx.check({'String', 'Real', 'Integer'} <= variants, 'R19.2', 'offsets/variants', ro.where(0), ro.path,
              'offset entries must be accepted as deg(..) strings, reals and integers (the writer prints `0` for a zero offset)', found=sorted(variants), detail=str(sorted(variants)))


def _converts_to_radians(prog, t):
    """term t (possibly through map closures) applies f64::to_radians"""
    hit = []

    def f(x):
        if x[0] == 'call' and cname(x[1]) == 'f64::to_radians':
            hit.append(1)
        if x[0] == 'const' and x[1] == 'fn' and cname(str(x[2])) == 'f64::to_radians':
            hit.append(1)
        if x[0] == 'agg' and str(x[1]).startswith('closure:'):
            cb = prog.bodies.get(x[1][len('closure:'):])
            if cb is not None and any(cname(callee_name(c)) == 'f64::to_radians' for _, c in cb.calls()):
                hit.append(1)
    mir.walk(t, f)
    return bool(hit)


def _whole_arrays(ctx, wr, wt, pads):
    """R19.1b: the writer prints every entry of the two arrays, or omits exactly the entry the reader's padding restores"""
    if ctx.extra.get('writer') == 'interpreted':
        # the entries that were printed are known one by one
        for f in ('offsets', 'sign_corrections'):
            idxs = _entries_printed(getattr(ctx, '_printed', {}).get(f, []), f)
            ok = idxs == [0, 1, 2, 3, 4, 5]
            ctx.check(ok, 'R19.1', f + '/all-entries', wr.where(0), wr.path,
                      'to_yaml must print all six entries of `%s` in order (printed: %s)' % (f, idxs), found=str(idxs), detail='entries 0..5 printed')
        return
    for f in ('offsets', 'sign_corrections'):
        arg = wt[f][3]
        its = mir.subterms(arg, lambda x: x[0] == 'call' and cname(x[1]) in ('slice::iter', 'IntoIterator::into_iter', 'slice::into_iter', 'array::iter'))
        drops = sorted({cname(x[1]) for x in mir.subterms(arg, lambda x: x[0] == 'call' and cname(x[1]).split('::')[-1] in opw.ITER_DROPPERS)})
        slices = mir.subterms(arg, lambda x: x[0] == 'call' and cname(x[1]) == 'Index::index' and 'Range' in show(x[3], maxdepth=2))
        whole = len(its) == 1 and not drops and not slices and util.is_self_field(_uncast(its[0][2]), f)
        ok, why = whole, 'every entry printed'
        if not whole and len(slices) == 1 and not drops:
            # a shortened form: accepted only when the omitted sixth entry is the value the reader pads with
            c = _omitted_value(wr, slices[0], f)
            ok = c is not None and f in pads and pads[f] is not None and c == pads[f]
            why = 'sixth entry omitted when it equals %r; the reader pads a five-entry array with %r' % (c, pads.get(f))
        ctx.check(ok, 'R19.1', f + '/all-entries', wr.where(0), wr.path,
                  'to_yaml must print all six entries of `%s` (or omit only what the reader restores): %s' % (f, why if not whole else ''),
                  found=show(arg, maxdepth=9), detail=why)


def _uncast(t):
    t = strip(t)
    while isinstance(t, tuple) and t[0] in ('cast', 'as') and isinstance(t[1], tuple):
        t = strip(t[1])
    return t


def _omitted_value(wr, sl, f):
    """sl == self.f[..n] with n == 5 exactly on the edge self.f[5] == C (6 otherwise) -> C"""
    rng = strip(sl[3])
    if not (isinstance(rng, tuple) and rng[0] == 'agg' and str(rng[1]).endswith('RangeTo') and util.is_self_field(_uncast(sl[2]), f)):
        return None
    n = strip(rng[2])
    if not (isinstance(n, tuple) and n[0] == 'var'):
        return None
    defs = [d for d in wr.defs().get(n[2], []) if d[4]]
    vals = {}
    for d in defs:
        v = util.const_val(wr._def_term(d))
        cond = None
        for g, k, sw in wr.guard_terms(d[1]):
            g = strip(g)
            if isinstance(g, tuple) and g[0] == 'bin' and g[1] in ('Eq', 'Ne'):
                a, c = strip(g[2]), util.const_val(g[3])
                if isinstance(a, tuple) and a[0] == 'idx' and util.const_val(a[2]) == 5 and util.is_self_field(a[1], f) and c is not None:
                    cond = (c, (g[1] == 'Eq') == (opw.truth(k) is True))
        vals[v] = cond
    if set(vals) == {5, 6} and vals[5] is not None and vals[6] is not None and vals[5][0] == vals[6][0] and vals[5][1] is True and vals[6][1] is False:
        return vals[5][0]
    return None


def _len_calls_feeding(b, sw):
    """the len() call sites whose result (possibly through a named local) is compared in switch block sw"""
    t = b.blocks[sw]['term']
    op = t['discr']
    if op.get('k') not in ('copy', 'move'):
        return []
    out = []
    seen = set()
    work = [op['place']['local']]
    while work:
        l = work.pop()
        if l in seen:
            continue
        seen.add(l)
        for d in b.defs().get(l, []):
            if d[0] == 'st':
                rv = d[3]['rv']
                for k in ('a', 'b', 'op'):
                    o = rv.get(k)
                    if isinstance(o, dict) and o.get('k') in ('copy', 'move') and not o['place']['proj']:
                        work.append(o['place']['local'])
            elif d[0] == 'call':
                ct = b.blocks[d[1]]['term']
                if cname(callee_name(ct)).split('::')[-1] == 'len':
                    out.append((d[1], ct))
    return out


def _parse_degrees_by_interpretation(prog, pd):
    """The angle reader run on a symbolic string with the string operations scripted: strip_prefix("deg(") / strip_suffix(")")
    match or do not, the number parses or does not.  `deg(<x>)` must read as to_radians(parse(<x>)), anything else as
    parse(<the string>) unchanged, a failed parse as an error value.  Returns the list of disagreements, None when the
    reader cannot be interpreted."""
    from .. import absint
    from ..absint import Interp, Sym, SOME, NONE, enum, _call_f, _deref_arg
    OK_, ERR_ = (lambda v: enum(0, v)), (lambda v: enum(1, v))
    problems = []

    def untrim(x):
        while isinstance(x, Sym) and isinstance(x.tag, tuple) and x.tag[0] == 'trim':
            x = x.tag[1]
        return x
    S = Sym('s')
    INNER = Sym(('strip_suffix', Sym(('strip_prefix', S, 'deg(')), ')'))
    for prefix, suffix, parses in ((True, True, True), (False, False, True), (True, False, True), (True, True, False), (False, False, False)):
        def val(I, st, a):
            return _deref_arg(I, st, a)

        def h_prefix(I, st, a, t, b):
            return SOME(Sym(('strip_prefix', val(I, st, a[0]), val(I, st, a[1])))) if prefix and val(I, st, a[1]) == 'deg(' else NONE

        def h_suffix(I, st, a, t, b):
            return SOME(Sym(('strip_suffix', val(I, st, a[0]), val(I, st, a[1])))) if suffix and val(I, st, a[1]) == ')' else NONE

        def h_trim(I, st, a, t, b):
            return Sym(('trim', val(I, st, a[0])))

        def h_parse(I, st, a, t, b):
            return OK_(Sym(('parsed', val(I, st, a[0])))) if parses else ERR_(Sym('parse-error'))

        def h_rad(I, st, a, t, b):
            return Sym(('to_radians', val(I, st, a[0])))

        def h_deg(I, st, a, t, b):
            return Sym(('to_degrees', val(I, st, a[0])))

        def h_and_then(I, st, a, t, b):
            o = absint._opt(I, st, a[0])
            return NONE if o[1] == 0 else _call_f(I, st, a[1], [o[2][0]])

        def h_map_err(I, st, a, t, b):
            v = val(I, st, a[0])
            return v if v[1] == 0 else ERR_(_call_f(I, st, a[1], [v[2][0]]))

        def h_map(I, st, a, t, b):
            v = val(I, st, a[0])
            return OK_(_call_f(I, st, a[1], [v[2][0]])) if v[1] == 0 else v

        def h_sym(name):
            return lambda I, st, a, t, b: Sym(name)
        H = {'str::strip_prefix': h_prefix, 'str::strip_suffix': h_suffix, 'str::trim': h_trim, 'str::trim_start': h_trim, 'str::trim_end': h_trim,
             'str::parse': h_parse, 'FromStr::from_str': h_parse, 'f64::to_radians': h_rad, 'f64::to_degrees': h_deg, 'Option::and_then': h_and_then,
             'Result::map_err': h_map_err, 'Result::map': h_map, 'fmt::format': h_sym('message'), 'Arguments::new': h_sym('fmt-args'),
             'Argument::new_display': h_sym('fmt-arg'), 'Argument::new_debug': h_sym('fmt-arg'), 'hint::must_use': (lambda I, st, a, t, b: a[0]),
             'Into::into': h_sym('message'), 'From::from': h_sym('message'), 'ToString::to_string': h_sym('message'), 'String::from': h_sym('message')}
        I = Interp(prog, H, fuel=20000, max_paths=8)
        I.symbolic, I.oracle = True, (lambda o, x, y: None)
        try:
            outs = I.run(pd.path, [S])
        except (absint.Unsupported, absint.Undecided, KeyError, TypeError, AttributeError, IndexError):
            return None
        if len(outs) != 1:
            return None
        r = outs[0].ret
        what = 'deg(..) %s, number %s' % ('matched' if prefix and suffix else 'not matched', 'parses' if parses else 'does not parse')
        if not (isinstance(r, tuple) and r and r[0] == 'enum' and len(r[2]) == 1):
            return None
        if not parses:
            if r[1] != 1:
                problems.append('%s: Ok(%r) instead of an error value' % (what, r[2][0]))
            continue
        v = r[2][0]
        if r[1] != 0:
            problems.append('%s: an error value' % what)
        elif prefix and suffix:
            ok = isinstance(v, Sym) and isinstance(v.tag, tuple) and v.tag[0] == 'to_radians' and isinstance(v.tag[1], Sym) and isinstance(v.tag[1].tag, tuple) and \
                v.tag[1].tag[0] == 'parsed' and untrim(v.tag[1].tag[1]) == INNER
            if not ok:
                problems.append('%s: read as %r, expected to_radians(parse(<the text between `deg(` and `)`>))' % (what, v))
        else:
            ok = isinstance(v, Sym) and isinstance(v.tag, tuple) and v.tag[0] == 'parsed' and untrim(v.tag[1]) == S
            if not ok:
                problems.append('%s: read as %r, expected parse(<the string>) as it is' % (what, v))
    return problems


YAML_VARIANTS = ('Real', 'Integer', 'String', 'Boolean', 'Array', 'Hash', 'Alias', 'Null', 'BadValue')     # yaml-rust2, declaration order


def _array_reader_by_interpretation(prog, b, name):
    """An array reader run on a node holding 0 .. 8 integer entries and on a missing node.  Six entries must come back as they
    are, five with one pad value appended, any other count as an error value, a missing node as an Ok default.
    Returns (problems, pad value), None when the reader cannot be interpreted."""
    from .. import absint
    from ..absint import Interp, Sym, Iv, SOME, NONE, enum, _call_f, _deref_arg
    OK_, ERR_ = (lambda v: enum(0, v)), (lambda v: enum(1, v))
    V = {n: k for k, n in enumerate(YAML_VARIANTS)}
    problems = []
    padv = None

    def num(x):
        if isinstance(x, Iv) and x.is_point():
            return float(x.lo)
        if isinstance(x, (int, float)) and not isinstance(x, bool):
            return float(x)
        return x

    def val(I, st, a):
        a = _deref_arg(I, st, a)
        while isinstance(a, tuple) and a and a[0] in ('ref', 'refval', 'mref'):
            a = I.deref(a, st)
        return a

    def h_as_vec(I, st, a, t, b_):
        v = val(I, st, a[0])
        return SOME(('refval', v[2][0], ())) if isinstance(v, tuple) and v[:2] == ('enum', V['Array']) else NONE

    def h_as_i64(I, st, a, t, b_):
        v = val(I, st, a[0])
        return SOME(v[2][0]) if isinstance(v, tuple) and v[:2] == ('enum', V['Integer']) else NONE

    def h_as_f64(I, st, a, t, b_):
        return NONE

    def h_from_elem(I, st, a, t, b_):
        n = a[1]
        if not isinstance(n, int):
            raise absint.Unsupported('vec![x; n] with n unknown')
        return tuple(a[0] for _ in range(n))

    def h_try_into(I, st, a, t, b_):
        v = val(I, st, a[0])
        if not isinstance(v, tuple) or (v and v[0] == 'enum'):
            raise absint.Unsupported('try_into of %r' % (v,))
        return OK_(v) if len(v) == 6 else ERR_(v)

    def h_unwrap(I, st, a, t, b_):
        v = val(I, st, a[0])
        if v[1] != 0:
            raise absint.Undecided('unwrap of an error value')
        return v[2][0]

    def h_copy_from_slice(I, st, a, t, b_):
        src = val(I, st, a[1])
        if isinstance(a[0], dict) and '#subslice' in a[0]:
            base, lo, hi = a[0]['#subslice']
            whole = I.deref(base, st)
            if not isinstance(src, tuple) or len(src) != hi - lo:
                raise absint.Undecided('copy_from_slice of different lengths')
            I._write_ref(st, base, tuple(whole[:lo]) + tuple(src) + tuple(whole[hi:]))
            return ()
        dst = val(I, st, a[0])
        if not isinstance(src, tuple) or not isinstance(dst, tuple) or len(src) != len(dst):
            raise absint.Undecided('copy_from_slice of different lengths')
        I._write_ref(st, a[0], tuple(src))
        return ()

    def h_sym(nm):
        return lambda I, st, a, t, b_: Sym(nm)
    H = {'Yaml::as_vec': h_as_vec, 'Yaml::as_i64': h_as_i64, 'Yaml::as_f64': h_as_f64, 'vec::from_elem': h_from_elem, 'TryInto::try_into': h_try_into,
         'TryFrom::try_from': h_try_into, 'Result::unwrap': h_unwrap, 'Result::expect': h_unwrap, 'slice::copy_from_slice': h_copy_from_slice,
         'Vec::as_slice': absint.BUILTINS['Deref::deref'], 'Into::into': h_sym('message'), 'From::from': h_sym('message'), 'ToString::to_string': h_sym('message'),
         'String::from': h_sym('message'), 'str::to_string': h_sym('message'), 'ToOwned::to_owned': h_sym('message')}
    default = {'read_offsets': 0.0, 'read_sign_corrections': 1.0}[name]
    for n in (None, 0, 1, 4, 5, 6, 7, 8):
        if n is None:
            node = enum(V['BadValue'])
        else:
            node = enum(V['Array'], tuple(enum(V['Integer'], 10 + k) for k in range(n)))
        I = Interp(prog, H, fuel=40000, max_paths=8)
        try:
            outs = I.run(b.path, [('refval', node, ())])
        except (absint.Unsupported, absint.Undecided, KeyError, TypeError, AttributeError, IndexError):
            return None
        if len(outs) != 1:
            return None
        r = outs[0].ret
        if not (isinstance(r, tuple) and r and r[0] == 'enum' and len(r[2]) == 1):
            return None
        what = 'a missing array' if n is None else 'an array of %d entries' % n
        got = [num(x) for x in r[2][0]] if r[1] == 0 and isinstance(r[2][0], (tuple, list)) else None
        if n is None:
            if got != [default] * 6:
                problems.append('%s reads as %s, expected the default %s six times' % (what, got if r[1] == 0 else 'an error value', default))
        elif n == 6:
            if got != [float(10 + k) for k in range(6)]:
                problems.append('%s reads as %s, expected its entries as they are' % (what, got if r[1] == 0 else 'an error value'))
        elif n == 5:
            if not (got is not None and len(got) == 6 and got[:5] == [float(10 + k) for k in range(5)] and got[5] == 0.0):
                problems.append('%s reads as %s, expected its entries and a sixth entry of 0' % (what, got if r[1] == 0 else 'an error value'))
            else:
                padv = got[5]
        elif r[1] != 1:
            problems.append('%s reads as Ok(%s), expected an error value' % (what, got))
    return problems, padv


def _arrays(ctx, prog):
    pads = {}

    def pad_and_err(b):
        """(pads five entries to six?, every other length -> InvalidLength?, term of the pad value).
        Decided by following the length: the value returned as Ok is converted from a Vec whose length is 6 on every path
        from the last test of it (a five-entry vector having received exactly one push), and InvalidLength is returned on
        the edge(s) of a length test that exclude 6 (and 5 when measured before the padding)."""
        pad = err = False
        padv = None
        grow = [(bi, t) for bi, t in b.calls() if cname(callee_name(t)) in ('Vec::push', 'Vec::resize', 'Vec::insert', 'Vec::extend_from_slice')]
        vecs = {util._ref_root(b, t['args'][0]) for bi, t in grow} - {None}
        for vec in vecs:
            tests = util.len_switches(b, vec)
            for bi, t in grow:
                if util._ref_root(b, t['args'][0]) != vec:
                    continue
                n = cname(callee_name(t))
                if not (n == 'Vec::push' or (n == 'Vec::resize' and util.const_val(strip(b.op_term(t['args'][1], (bi, None)))) == 6)):
                    continue
                ls = util.lengths_reaching(b, vec, bi)
                if ls == {5}:
                    pad = True
                    padv = strip(b.op_term(t['args'][-1], (bi, None)))
            for t, d, rb in b.return_values():
                t = strip(t)
                if not (isinstance(t, tuple) and t[0] == 'agg' and 'Err' in t[1] and 'InvalidLength' in show(t, maxdepth=4)):
                    continue
                for sw, edges in tests:
                    other = edges.get('otherwise')
                    kk = [key for key, tg in b.switch_edges(sw) if tg == other]
                    if other is None or len(kk) != 1 or d[1] not in b.edge_dominated(sw, kk[0]):
                        continue
                    named = {k for k in edges if isinstance(k, int)}
                    # lengths that do not end in this error: they must be exactly those that arrive as 6 at the conversion
                    before = util.lengths_reaching(b, vec, sw)
                    if named == {6}:
                        # tested after the padding: the length compared must not be stale (a len() taken before a push that can
                        # still run on the way to this test)
                        lens = _len_calls_feeding(b, sw)
                        stale = any(lt.get('target') is not None and b.reaches(lt['target'], gbi, avoid=(lbi,)) and b.reaches(gbi, sw, avoid=(lbi,))
                                    for lbi, lt in lens for gbi, _ in grow)
                        if lens and not stale:
                            err = True
                    elif named == {5, 6} and not before:
                        # tested before the padding: 5 and 6 are the accepted lengths, the 5-arm pads (checked above)
                        err = True
            # no length test at all: the sized conversion of the (padded) vector is the test - `<[T; 6]>::try_from(vec)` fails for
            # every length but 6 - and its failure is mapped to InvalidLength
            if not err:
                for t, d, rb in b.return_values():
                    t = strip(t)
                    if not (isinstance(t, tuple) and t[0] == 'call' and cname(t[1]) == 'Result::map_err' and len(t) == 4):
                        continue
                    conv = strip(t[2])
                    cb, caps = util.closure_of_term(prog, t[3])
                    if cb is None or not (isinstance(conv, tuple) and conv[0] == 'call' and cname(conv[1]) in ('TryFrom::try_from', 'TryInto::try_into')):
                        continue
                    src = conv[2]
                    while isinstance(src, tuple) and src[0] in ('ref', 'deref') and isinstance(src[1], tuple):
                        src = src[1]
                    from_vec = isinstance(src, tuple) and ((src[0] == 'var' and src[2] == vec) or (src[0] == 'mutb' and src[1] == vec))
                    crv = [strip(x[0]) for x in cb.return_values()]
                    to_err = len(crv) == 1 and isinstance(crv[0], tuple) and crv[0][0] == 'agg' and 'InvalidLength' in show(crv[0], maxdepth=3)
                    sized = '; 6]' in b.local_ty(0)
                    if from_vec and to_err and sized:
                        err = True
        return pad, err, padv

    for name, rty in (('read_offsets', 'Result<[f64; 6]'), ('read_sign_corrections', 'Result<[i8; 6]')):
        bs = [b for p, b in prog.bodies.items() if p.startswith('parameters_from_file::') and b.kind != 'Closure' and rty in util.sig(b)[0]]
        if not ctx.check(len(bs) == 1, 'R19.3', name + '/exists', '', name, 'array reader not found'):
            continue
        b = bs[0]
        ctx.fn(b)
        pad, err, padv = pad_and_err(b)
        where = b
        if not (pad or err):
            # padding and length check may live in a helper shared by both readers: fn(Vec<T>, fill) -> Result<[T; 6], _>
            for bi, t in b.calls():
                cb = prog.bodies.get(t['callee'].get('resolved'))
                if cb is None or cb.kind == 'Closure' or not (cb.arg_count >= 1 and 'Vec<' in cb.local_ty(1) and '; 6]' in cb.local_ty(0)):
                    continue
                rvs = [strip(x[0]) for x in b.return_values()]
                if strip(b.call_term(t, (bi, None))) not in rvs:
                    continue
                ctx.fn(cb)
                pad, err, padv = pad_and_err(cb)
                where = cb
                pi = util.param_index(padv) if padv is not None else None
                if pi is not None and pi - 1 < len(t['args']):
                    padv = strip(b.op_term(t['args'][pi - 1], (bi, None)))
        pads[name.replace('read_', '')] = util.const_val(padv) if padv is not None else None
        if not (pad and err):
            # neither shape read above (slice patterns, a zeroed array filled from the entries, ..): the reader interpreted on
            # arrays of 0 .. 8 integer entries and on a missing node
            by_run = _array_reader_by_interpretation(prog, b, name)
            if by_run is not None and not by_run[0]:
                pad = err = True
                pads[name.replace('read_', '')] = by_run[1]
            elif by_run is not None:
                ctx.check(False, 'R19.3', name, b.where(0), b.path, 'a five-entry array must be padded to six and any other length must yield InvalidLength: ' + '; '.join(by_run[0][:3]),
                          found=str(by_run[0][:3]))
                continue
        ctx.check(pad and err, 'R19.3', name, where.where(0), where.path, 'a five-entry array must be padded to six and any other length must yield InvalidLength', found='pad=%s error=%s' % (pad, err))
    return pads


def _number_reader(ctx, prog):
    """R19.5: a length written as a real or as an integer reads as that number; anything else is an error value.  The scalar
    reader (fn(&Yaml, &str) -> Result<f64, ..>) is interpreted with the answers of Yaml::as_f64 / as_i64 scripted."""
    from .. import absint
    from ..absint import Interp, Iv, Sym, SOME, NONE
    ctx.rule('R19.5', 'the scalar reader returns the real, or the integer as that same number, and an error value for anything else')
    rd = [b for p_, b in prog.bodies.items() if p_.startswith('parameters_from_file::') and b.kind != 'Closure' and b.arg_count == 2 and
          'Yaml' in b.local_ty(1) and 'str' in b.local_ty(2) and 'Result<f64' in b.local_ty(0).replace('std::result::', '')]
    if len(rd) != 1:
        return
    b = rd[0]
    ctx.fn(b)
    for real, integer, want in ((2.5, None, 2.5), (None, 3, 3.0), (None, -7, -7.0), (None, 0, 0.0), (None, None, None)):
        def h_f64(I, st, a, t, b_, real=real):
            return NONE if real is None else SOME(Iv(real))

        def h_i64(I, st, a, t, b_, integer=integer):
            return NONE if integer is None else SOME(integer)
        def h_err(I, st, a, t, b_):
            return Sym('error-value')
        I = Interp(prog, {'Yaml::as_f64': h_f64, 'Yaml::as_i64': h_i64, 'Into::into': h_err, 'From::from': h_err, 'ToString::to_string': h_err,
                          'ToOwned::to_owned': h_err, 'str::to_string': h_err, 'String::from': h_err}, fuel=20000, max_paths=8)
        try:
            outs = I.run(b.path, [('refval', Sym('node'), ()), 'name'])
        except (absint.Unsupported, absint.Undecided):
            return
        if len(outs) != 1:
            return
        r = outs[0].ret
        if want is None:
            ok = isinstance(r, tuple) and r[0] == 'enum' and r[1] == 1
        else:
            ok = isinstance(r, tuple) and r[0] == 'enum' and r[1] == 0 and isinstance(r[2][0], Iv) and r[2][0].is_point() and r[2][0].lo == want
        key = 'number(real=%s,int=%s)' % (real, integer)
        ctx.check(ok, 'R19.5', key, b.where(0), b.path,
                  'a node that is the real %s / the integer %s must read as %s' % (real, integer, 'an error value' if want is None else want),
                  found=repr(r)[:120], expected='Err' if want is None else 'Ok(%s)' % want, detail='by interpretation')
