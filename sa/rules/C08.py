"""C08 - a constrained solver returns exactly the compliant solutions."""
from .. import mir, util, opw
from ..mir import cname, strip, callee_name, show
from . import C11, C07

EXPLANATION = ('Decides from MIR: (R08.1) on every return path of the four inverse entry points of OPWKinematics the outermost producer of the '
               'returned vector is the limits filter (role: Some(c) -> Constraints::filter(c, x), None -> x) or a sibling entry point for which '
               'the same holds; (R08.2) no other element-removing operation touches solution vectors in the solver; (R08.3) the singular candidate '
               'is pushed only on the true edge of the limits check for that same candidate; (R08.4) every wrapper returns the inner constraints() '
               'and applies no element-wise write to the solutions after the inner (filtered) call.  (R08.5) the constructor with limits stores Some(its limits argument), the one without stores None, and constraints() returns that field (the limits filtered by are the limits given and the limits reported).  With C07 deciding what the filter accepts, '
               'the acceptance predicate itself (arc membership) is re-checked with the rules of C07 (R07.E, R07.2a, R07.2c, R07.3).')
NOT_DECIDED = 'behaviour inside the excluded margin around the arc ends (see C07); nothing else'
ASSUMPTIONS = ['Constraints::filter keeps exactly the compliant elements (R07.3, checked under C07)']


def run(ctx):
    prog = ctx.prog
    ctx.rule('R08.1', 'every return path of every inverse entry point of OPWKinematics ends in the limits filter')
    ctx.rule('R08.2', 'only the limits filter and the FK gate remove solutions: no retain/truncate/pop/dedup/drain/take/skip on solution vectors (a search that yields one element - find, nth - removes nothing)')
    ctx.rule('R08.3', 'the singular candidate is pushed only on the true edge of the limits check for that candidate')
    ctx.rule('R08.4', 'wrappers return the inner constraints() and do not modify solutions after the inner call (except a pure sub-sequence filter)')
    fr = opw.filter_role(prog)
    # (the helper may also be written out at each use: a return path then either passes Constraints::filter or lies on the
    #  edge where self.constraints is None)
    fpaths = {b.path for b in fr}
    for b in fr:
        ctx.fn(b)
    methods = opw.opw_methods(prog)
    entry_paths = {methods[m].path: m for m in util.INVERSE_METHODS}
    n = 0
    for m in util.INVERSE_METHODS:
        b = methods[m]
        ctx.require(b is not None, 'OPWKinematics::' + m)
        ctx.fn(b)
        rvs = b.return_values()
        ctx.require(len(rvs) >= 1, 'return values of ' + m)
        for t, d, rb in rvs:
            t = strip(t)
            n += 1
            guards = ' && '.join('%s=%s' % (show(g, maxdepth=3), k) for g, k, sw in b.guard_terms(d[1])) if d else ''
            key = '%s/return@%s' % (m, _guard_key(b, d))
            ok = isinstance(t, tuple) and t[0] == 'call' and (t[1] in fpaths or (cname(t[1]) == 'Constraints::filter') or
                                                              (t[1] in entry_paths and util.is_param(t[2], 1)))
            if not ok and d and any(opw._is_discr_of_self_constraints(g) and k == 0 for g, k, sw in b.guard_terms(d[1])):
                ok = True            # no limits configured on this path: there is nothing to filter
            if not ok and isinstance(t, tuple) and t[0] == 'call' and len(t) > 2 and util.is_param(t[2], 1) and _tail_helper_filters(prog, t[1], fpaths, entry_paths):
                ok = True            # the tail lives in a helper method every return path of which ends in the limits filter
                ctx.fn(prog.bodies[t[1]])
            ctx.check(ok, 'R08.1', key, b.where(d[1], d[2]) if d else b.where(0), b.path,
                      'a return path delivers solutions that did not pass the joint-limit filter (path condition: %s)' % (guards or 'always'),
                      found=show(t, maxdepth=3), expected='filter_constraints_compliant(..) / a filtered sibling entry point',
                      detail='%s <- %s' % (guards or 'always', show(t, maxdepth=2)))
    ctx.floor('R08.1 return paths', n, 4)

    # R08.2 element-removing operations in the solver
    six, five = opw.intern_solvers(prog)
    ctx.require(six is not None and five is not None, 'internal 6-DOF and 5-DOF solvers')
    scope = [methods[m] for m in util.INVERSE_METHODS] + [six, five] + fr
    sort_helpers = [prog.bodies[t['callee']['resolved']] for b in scope for _, t in b.calls()
                    if t['callee'].get('local') and t['callee'].get('resolved') in prog.bodies and 'sort' in t['callee']['resolved'].split('::')[-1]]
    seen = set()
    for b in scope + sort_helpers:
        if b.path in seen:
            continue
        seen.add(b.path)
        ctx.fn(b)
        bad = []
        for bi, t in b.calls():
            nm = cname(callee_name(t))
            last = nm.split('::')[-1]
            owner = nm.split('::')[0]
            if (last in opw.VEC_REMOVERS and owner in ('Vec', 'slice', 'VecDeque')) or \
                    (last in (opw.ITER_DROPPERS - {'find', 'find_map', 'nth', 'last'}) and owner in ('Iterator', 'ParallelIterator', 'IndexedParallelIterator')):
                bad.append((bi, nm))
        if b in fr:
            # the limits filter itself may remove in place (its retain was matched as the filter: kept iff compliant)
            bad = [(bi, nm) for bi, nm in bad if nm != 'Vec::retain']
        if bad and b in (six, five) and all(nm.split('::')[-1] in ('filter', 'filter_map', 'flat_map', 'take_while', 'skip_while') for bi, nm in bad):
            # the validation of the candidates written as an iterator filter: it is the FK gate iff, over all scenarios of the
            # symbolic run, the solver returns exactly the candidates that are finite and pass the gate
            f, tail = opw.solver_tail(ctx, b, b is five)
            if f is not None and not f:
                for bi, nm in bad:
                    ctx.ok('R08.2', '%s/%s' % (b.path.split('::')[-1], nm), b.where(bi), 'removes exactly the candidates that are not finite or fail the gate (%d scenarios)' % getattr(tail, 'n_scenarios', 0))
                bad = []
        for bi, nm in bad:
            ctx.violation('R08.2', '%s/%s' % (b.path.split('::')[-1], nm), b.where(bi), b.path, 'element-removing operation `%s` on the solution path' % nm)
        if not bad:
            ctx.ok('R08.2', b.path.split('::')[-1], b.where(0), 'no element-removing call', nontrivial=len(list(b.calls())) > 0)

    # R08.3 singular candidate gate
    cr = opw.compliant_role(prog)
    ctx.require(len(cr) >= 1, 'limits-check helper of OPWKinematics (role: Some(c) => c.compliant(&x), None => true)')
    cpaths = {b.path for b in cr}
    ic = methods['inverse_continuing']
    pushes = [(bi, t) for bi, t in ic.calls() if cname(callee_name(t)) == 'Vec::push']
    for bi, t in pushes:
        elem = strip(ic.op_term(t['args'][1], (bi, None)))
        gated = False
        for g, k, sw in ic.guard_terms(bi):
            g = strip(g)
            if isinstance(g, tuple) and g[0] == 'call' and (g[1] in cpaths or cname(g[1]) == 'Constraints::compliant') and opw.truth(k) is True:
                cand = strip(g[3]) if g[1] in cpaths else strip(g[3])
                if _same_value(ic, cand, elem, t['args'][1], bi):
                    gated = True
        ctx.check(gated, 'R08.3', 'inverse_continuing/push@%s' % ic.where(bi).split(':')[-1] if False else 'inverse_continuing/singular-push', ic.where(bi), ic.path,
                  'a candidate is pushed into the result without passing the limits check for that candidate', found=show(elem, maxdepth=3))
        # ... and the candidate is not modified between that check and the push
        root = elem
        while isinstance(root, tuple) and root[0] in ('idx', 'fld', 'ref', 'deref'):
            root = root[1]
        if gated and isinstance(root, tuple) and root[0] == 'var':
            stale = []
            for cbi, ct in ic.calls():
                if (ct['callee'].get('resolved') in cpaths or cname(callee_name(ct)) == 'Constraints::compliant') and \
                        any(mir.contains(ic.op_term(a, (cbi, None)), lambda x: x == root) for a in ct['args']):
                    stale += util.stores_between(ic, cbi, ct, root[2], bi)
            ctx.check(not stale, 'R08.3', 'inverse_continuing/singular-push/fresh', ic.where(bi), ic.path,
                      'the candidate is modified between its limits check and the push (%s)' % ', '.join(stale), found=', '.join(stale))
    # a solver rewritten without a singular push has nothing to gate; then the instance count is 0 and that is fine

    _limits_storage(ctx, prog)
    run_dependencies(ctx)

    # R08.4 wrappers
    kf = util.kin_fields(prog)
    wrappers = [w for w in util.kin_impls(prog) if w in kf]
    ctx.floor('R08.4 wrappers', len(wrappers), 5)
    for w in wrappers:
        b = prog.trait_impl_method(w, 'Kinematics', 'constraints')
        ctx.fn(b)
        vv = util.virtual_calls(b)
        rvs = [strip(x[0]) for x in b.return_values()]
        ok = len(vv) == 1 and vv[0][2] == 'constraints' and len(rvs) == 1 and rvs[0] == strip(b.call_term(vv[0][1], (vv[0][0], None)))
        ctx.check(ok, 'R08.4', w + '/constraints', b.where(0), b.path, 'the limits a wrapper reports must be those of the robot it wraps',
                  found=show(rvs[0], maxdepth=3) if rvs else None)
        for m in util.INVERSE_METHODS:
            b = prog.trait_impl_method(w, 'Kinematics', m)
            if b is None:
                ctx.violation('R08.4', '%s/%s' % (w, m), '', w, 'no body found for this solver entry point (neither an override nor a provided trait method)')
                continue
            ctx.fn(b)
            vv = util.virtual_calls(b)
            if not vv:
                # a provided trait method (used when the wrapper does not override it) reaches the solver through `self`
                vv = [(bi, t, t['callee']['resolved'].split('::')[-1]) for bi, t in b.calls()
                      if t['callee'].get('kind') == 'unresolved' and (t['callee'].get('trait') or '').endswith('Kinematics')
                      and t['callee']['resolved'].split('::')[-1] in util.INVERSE_METHODS]
            if len(vv) != 1:
                continue  # reported under C09
            inner = strip(b.call_term(vv[0][1], (vv[0][0], None)))
            rv = b.return_values()
            ok = True
            why = ''
            for t, d, rb in rv:
                t0 = t
                t = strip(t)
                if t == inner and not _is_mutb(t0):
                    continue
                if isinstance(t, tuple) and t[0] == 'call' and t[1] in prog.bodies and strip(t[3]) == inner if len(t) > 3 else False:
                    probs = C11.subset_filter_role(ctx, prog.bodies[t[1]])
                    if not probs:
                        continue
                    why = 'post-filter %s is not a pure sub-sequence filter: %s' % (t[1], '; '.join(probs))
                else:
                    why = 'solutions are modified after the inner solver applied the joint limits: ' + _describe_mods(b)
                ok = False
            ctx.check(ok, 'R08.4', '%s/%s' % (w, m), b.where(vv[0][0]), b.path, why, detail='inner result returned as filtered')


def _tail_helper_filters(prog, path, fpaths, entry_paths, depth=0):
    """path names an inherent method of the solver whose every return value is the limits filter applied to something (or, one
    level further, such a helper again)"""
    hb = prog.bodies.get(path)
    if hb is None or hb.kind == 'Closure' or hb.raw.get('impl_self') != opw.OPW or hb.raw.get('impl_trait') or depth > 2:
        return False
    rvs = hb.return_values()
    if not rvs:
        return False
    for t, d, rb in rvs:
        t = strip(t)
        ok = isinstance(t, tuple) and t[0] == 'call' and (t[1] in fpaths or cname(t[1]) == 'Constraints::filter' or
                                                          (len(t) > 2 and util.is_param(t[2], 1) and _tail_helper_filters(prog, t[1], fpaths, entry_paths, depth + 1)))
        if not ok and d and any(opw._is_discr_of_self_constraints(g) and k == 0 for g, k, sw in hb.guard_terms(d[1])):
            ok = True
        if not ok:
            return False
    return True


def run_dependencies(ctx):
    """R08.5: what the limits filter accepts is arc membership - the clauses of C07 that C08 relies on are re-checked here
    (a change that breaks the acceptance predicate breaks C08 as much as C07)."""
    C07.run(ctx)


def _is_mutb(t):
    while isinstance(t, tuple) and t[0] in ('ref', 'deref'):
        t = t[1]
    return isinstance(t, tuple) and t[0] == 'mutb'


def _describe_mods(b):
    ops = []
    for bi, t in b.calls():
        nm = cname(callee_name(t))
        if nm.split('::')[-1] in ('for_each', 'iter_mut', 'index_mut', 'map', 'push', 'insert', 'extend'):
            ops.append('%s at %s' % (nm, b.where(bi)))
    return ', '.join(ops) or 'value differs from the inner call result'


def _guard_key(b, d):
    if not d:
        return 'entry'
    parts = []
    for g, k, sw in b.guard_terms(d[1]):
        g = strip(g)
        if isinstance(g, tuple) and g[0] == 'bin':
            parts.append('%s%s' % (show(g, maxdepth=4).replace(' ', ''), '' if mir_truth(k) else '=false'))
    return '&'.join(parts) or 'always'


def mir_truth(k):
    return opw.truth(k) is not False


def _same_value(b, cand, elem, operand, bi):
    """candidate checked == element pushed (same local at both points)."""
    if cand == elem:
        return True
    return False


def _limits_storage(ctx, prog):
    """R08.5: the limits a solver filters by are the limits it was constructed with, and the limits it reports are those"""
    ctx.rule('R08.5', 'the constructor with limits stores Some(its limits argument), the one without stores None, and constraints() returns that field')
    ctors = [b for p, b in prog.bodies.items() if b.kind != 'Closure' and b.local_ty(0).endswith('kinematics_impl::OPWKinematics') and
             (b.raw.get('impl_self') or '').endswith('OPWKinematics') and not b.raw.get('impl_trait')]
    n = 0
    flds = None
    for b in ctors:
        for i, j, st in b.stmts():
            if st['rv']['k'] == 'agg' and isinstance(st['rv'].get('kind'), dict) and (st['rv']['kind'].get('adt') or '').endswith('kinematics_impl::OPWKinematics'):
                flds = flds or st['rv']['kind'].get('fields')
    ctx.require(bool(flds), 'a constructor of the solver that builds it from its fields')
    for b in ctors:
        tys = [b.local_ty(i) for i in range(1, b.arg_count + 1)]
        ctx.fn(b)
        name = b.path.split('::')[-1]
        cpos = [k + 1 for k, ty in enumerate(tys) if ty.endswith('constraints::Constraints')]
        opos = [k + 1 for k, ty in enumerate(tys) if ty.endswith('constraints::Constraints>') and 'Option<' in ty]
        ppos = [k + 1 for k, ty in enumerate(tys) if ty.endswith('Parameters')]
        for t0, d, rb in b.return_values():
            # a constructor that delegates to a shared one is read with the shared one substituted
            t = strip(util.inline_calls(prog, t0, depth=3))
            if not (isinstance(t, tuple) and t[0] == 'agg' and str(t[1]).endswith('kinematics_impl::OPWKinematics') and len(t) - 2 == len(flds)):
                raise MachineryError('the value returned by the constructor %s is not readable as the solver built from its fields: %s' % (name, show(t, maxdepth=3)))
            vals = dict(zip(flds, t[2:]))
            n += 1
            c = strip(vals.get('constraints'))
            if cpos:
                ok = isinstance(c, tuple) and c[0] == 'agg' and 'Some' in str(c[1]) and util.is_param(c[2], cpos[0])
                want = 'Some(the limits argument)'
            elif opos:
                ok = util.is_param(c, opos[0])
                want = 'the optional limits argument as it is'
            else:
                ok = isinstance(c, tuple) and c[0] == 'agg' and 'None' in str(c[1])
                want = 'None'
            ctx.check(ok, 'R08.5', name + '/limits-stored', b.where(0), b.path, 'the constructor must store %s as the limits of the solver' % want,
                      found=show(c, maxdepth=3), expected=want)
            if ppos:
                pv = strip(vals.get('parameters'))
                ctx.check(util.is_param(pv, ppos[0]), 'R08.5', name + '/parameters-stored', b.where(0), b.path,
                          'the constructor must store the parameters it is given', found=show(pv, maxdepth=3))
    ctx.floor('R08.5 constructors', n, 2)
    acc = prog.trait_impl_method('kinematics_impl::OPWKinematics', 'Kinematics', 'constraints')
    ctx.require(acc is not None, 'OPWKinematics::constraints')
    ctx.fn(acc)
    rv = [strip(x[0]) for x in acc.return_values()]
    ok = len(rv) == 1 and isinstance(rv[0], tuple) and rv[0][0] == 'fld' and rv[0][2] == 'constraints' and util.is_param(rv[0][1], 1)
    ctx.check(ok, 'R08.5', 'constraints()', acc.where(0), acc.path, 'constraints() must return the limits the solver filters by (self.constraints)',
              found=[show(x, maxdepth=3) for x in rv])
