"""C05 - wrist singularity is detected geometrically and does not make J4/J6 jump."""
import math

from .. import absint, algebra, mir, util, opw
from ..absint import Iv, Interp, NONE
from ..facts import MachineryError
from ..mir import cname, strip, callee_name, show

EXPLANATION = ('(R05.1/R05.2/R05.3) kinematic_singularity of OPWKinematics is abstractly interpreted over interval cells of J5 for several '
               'sign/offset conventions: cells whose corrected angle j5*s5 - o5 lies within the documented 0.01 degree band around a multiple '
               'of pi (either side) must yield Some(A), cells outside must yield None - a for-all statement over each cell; '
               '(R05.2b) the J5~0 / J5~pi discriminator of the recovery is applied to the corrected angle (ring normal form, s*s = 1); '
               '(R05.4) recovery structure: J4 and J6 of the recovered candidate are previous + the same increment, which is half of the '
               'reduced sum difference, and the candidate is gated by the FK check against the unshifted pose and by the limits.  '
               '(R05.7) every wrapper (Tool, Base, Frame, Parallelogram, robot with shape) answers kinematic_singularity with the answer of the '
               'robot it wraps.  Continuity of the first answer on well-conditioned postures is numerical and not decided.')
NOT_DECIDED = 'that the first continuation answer equals the previous joints on well-conditioned postures (numerics of the shifted re-solve)'
ASSUMPTIONS = ['f64::rem_euclid, abs and comparisons follow IEEE-754 (interval transfer functions are outward rounded)']

THR = 0.01 * math.pi / 180.0


def opw_model(sign5, off5):
    params = {'#adt': 'parameters::opw_kinematics::Parameters', 'a1': Iv(0.1), 'a2': Iv(-0.1), 'b': Iv(0.0), 'c1': Iv(0.5), 'c2': Iv(0.7), 'c3': Iv(0.7),
              'c4': Iv(0.1), 'offsets': tuple([Iv(0.0)] * 4 + [Iv(off5), Iv(0.0)]), 'sign_corrections': (1, 1, 1, 1, sign5, 1), 'dof': 6}
    return {'#adt': opw.OPW, 'parameters': params, 'constraints': NONE, 'unit_z': absint.Sym('unit_z')}


def run(ctx):
    prog = ctx.prog
    ctx.rule('R05.1', 'kinematic_singularity: Some(A) for every J5 whose corrected angle is inside the 0.01 deg band of k*pi (both sides), None outside (abstract interpretation over cells)')
    ctx.rule('R05.2', 'the J5~0 discriminator of the singular recovery tests the corrected angle j5*s5 - o5')
    ctx.rule('R05.5', 'the halved sum difference is confined to [-pi, pi] for any winding of the wrist (control-flow bound, or helper interpreted over +-16*pi)')
    ctx.rule('R05.4', 'recovery: new4 - prev4 == new6 - prev6 == half of the reduced sum difference; candidate gated by FK check on the unshifted pose and by the limits')
    ks = prog.trait_impl_method(opw.OPW, 'Kinematics', 'kinematic_singularity')
    ctx.require(ks is not None, 'OPWKinematics::kinematic_singularity')
    ctx.fn(ks)
    # the report is asked through whatever wraps the robot: every wrapper hands the question on, unchanged, and returns the answer
    ctx.rule('R05.7', 'every wrapper answers kinematic_singularity with the inner robot\'s answer for the same joints')
    kf = util.kin_fields(prog)
    nw = 0
    for w in [x for x in util.kin_impls(prog) if x in kf]:
        wb = prog.trait_impl_method(w, 'Kinematics', 'kinematic_singularity')
        if wb is None:
            continue
        ctx.fn(wb)
        nw += 1
        v = util.virtual_calls(wb)
        ok = False
        found = None
        if len(v) == 1:
            bi, t, name = v[0]
            rt = strip(wb.return_term())
            ct = strip(wb.call_term(t, (bi, None)))
            found = show(rt, maxdepth=3)
            ok = name == 'kinematic_singularity' and util.is_self_field(wb.op_term(t['args'][0], (bi, None)), kf[w]) and rt == ct
        ctx.check(ok, 'R05.7', w + '/kinematic_singularity', wb.where(0), wb.path,
                  'the wrapper must return the inner robot\'s kinematic_singularity(..)', found=found)
    ctx.floor('R05.7 wrappers', nw, 5)
    ctx.rule('R05.6', 'constants of the singularity helpers that stand for pi, 2*pi or pi/180 are exact')
    util.pi_constants(ctx, 'R05.6', [ks] + [prog.bodies[t['callee']['resolved']] for _, t in ks.calls() if t['callee'].get('local') and t['callee'].get('resolved') in prog.bodies])
    n = 0
    for (s5, o5) in ((1, 0.0), (-1, 0.0), (1, 0.5), (-1, -1.3)):
        model = opw_model(s5, o5)
        for k in (-2, -1, 0, 1, 2):
            for side in (1, -1):
                cells = [('in', 0.05 * THR, 0.95 * THR, True), ('edge-out', 1.05 * THR, 3 * THR, False), ('far', 0.01, math.pi / 2, False)]
                for name, lo, hi, want in cells:
                    a, b = k * math.pi + side * lo, k * math.pi + side * hi
                    qlo, qhi = min(a, b), max(a, b)
                    # joints[J5] such that j*s - o in [qlo,qhi]
                    jlo, jhi = sorted((s5 * (qlo + o5), s5 * (qhi + o5)))
                    joints = tuple([Iv(0.1)] * 4 + [Iv(jlo, jhi), Iv(0.2)])
                    I = Interp(prog, {})
                    try:
                        outs = I.run(ks.path, [('refval', model, ()), ('refval', joints, ())])
                    except absint.Unsupported as e:
                        raise MachineryError('kinematic_singularity could not be interpreted: %s' % e)
                    except absint.Undecided as e:
                        outs = None
                    key = 's5=%+d,o5=%g/k=%d/%s%s' % (s5, o5, k, '+' if side > 0 else '-', name)
                    n += 1
                    if outs is None:
                        ctx.note('undecided cell ' + key)
                        continue
                    res = set()
                    for o in outs:
                        r = o.ret
                        res.add(True if (isinstance(r, tuple) and r[0] == 'enum' and r[1] == 1) else False)
                    if len(res) > 1:
                        ctx.note('cell %s: indefinite (%s)' % (key, res))
                        ctx.ok('R05.1', key, ks.where(0), 'indefinite (cell straddles a decision boundary)', nontrivial=False)
                        continue
                    got = res.pop()
                    ctx.check(got == want, 'R05.1', key, ks.where(0), ks.path,
                              'J5 in [%.9g, %.9g] (corrected angle within [%.9g, %.9g] = %d*pi %+.3g..%+.3g) is reported %s, expected %s' % (
                                  jlo, jhi, qlo, qhi, k, side * lo, side * hi, 'singular' if got else 'regular', 'singular' if want else 'regular'),
                              found='Some(A)' if got else 'None', expected='Some(A)' if want else 'None', detail='%s' % ('Some(A)' if got else 'None'))
    ctx.floor('R05.1 cells', n, 100)

    # ---- R05.2b discriminator in inverse_continuing
    ic = prog.trait_impl_method(opw.OPW, 'Kinematics', 'inverse_continuing')
    ctx.fn(ic)
    disc = []
    for bi, t in ic.calls():
        c = t['callee']
        if c.get('local') and c.get('resolved') in prog.bodies and len(t['args']) == 2:
            cb = prog.bodies[c['resolved']]
            if cb.local_ty(0) == 'bool' and cb.local_ty(1) == 'f64' and cb.local_ty(2) == 'f64' and util.const_val(ic.op_term(t['args'][1], (bi, None))) == 0.0:
                disc.append((bi, t))
    if ctx.check(len(disc) >= 1, 'R05.2', 'discriminator/exists', ic.where(0), ic.path, 'no J5~0 discriminator found in the singular recovery (a call f(angle, 0.0) -> bool)'):
        def unit_square(a):
            return isinstance(a, tuple) and a[0] == 'cast' and 'sign_corrections' in show(a, maxdepth=6)
        ring = algebra.Ring(unit_square=unit_square)
        for bi, t in disc:
            T = util.peval(prog, ic.op_term(t['args'][0], (bi, None)))       # a helper computing the corrected angle is written out
            # the joint vector being tested: any idx(X, 4) atom inside T
            js = mir.subterms(T, lambda x: x[0] == 'idx' and util.const_val(x[2]) == 4 and 'sign_corrections' not in show(x, maxdepth=5) and 'offsets' not in show(x, maxdepth=5))
            ok = False
            found = show(T, maxdepth=6)
            if js:
                j = js[0]
                SELF = ('param', 1, 'self')
                s = ('cast', ('idx', ('fld', ('fld', SELF, 'parameters'), 'sign_corrections'), ('const', 'usize', 4, None)), 'f64')
                o = ('idx', ('fld', ('fld', SELF, 'parameters'), 'offsets'), ('const', 'usize', 4, None))
                P = ring.nf(algebra.canon(T))
                Q = ring.nf(algebra.canon(('bin', 'Sub', ('bin', 'Mul', j, s), o)))
                S = ring.nf(algebra.canon(s))
                cands = [Q, -Q, Q.mul(S, unit_square), (-Q).mul(S, unit_square)]
                ok = any((P - c).is_zero() for c in cands)
            ctx.check(ok, 'R05.2', 'discriminator/corrected-angle', ic.where(bi), ic.path,
                      'the J5~0 / J5~pi discriminator is applied to the raw joint value, ignoring the J5 offset and sign convention',
                      found=found, expected='joints[J5] * sign_corrections[J5] - offsets[J5]', detail=found)

    # ---- R05.7 the discriminator itself: f(x, 0.0) is true exactly when x is within the band of a multiple of 2*pi
    # (the corrected J5 computed from a returned joint value can be any representative: offsets of a turn or more, wound joints)
    ctx.rule('R05.7', 'the J5~0 discriminator answers true for angles within the singularity band of any multiple of 2*pi and false otherwise (abstract interpretation over cells)')
    helpers = {prog.bodies[t['callee']['resolved']].path for bi, t in disc}
    for hp in sorted(helpers):
        hb = prog.bodies[hp]
        ctx.fn(hb)
        util.pi_constants(ctx, 'R05.6', [hb])
        nd = 0
        for k in (-2, -1, 0, 1, 2):
            for side in (1, -1):
                for name, lo, hi, want in (('in', 0.05 * THR, 0.9 * THR, True), ('out', 1.2 * THR, 4 * THR, False), ('far', 0.05, math.pi - 0.05, False)):
                    a, b2 = 2 * k * math.pi + side * lo, 2 * k * math.pi + side * hi
                    cell = (min(a, b2), max(a, b2))
                    I = Interp(prog, {})
                    try:
                        outs = I.run(hp, [Iv(*cell), Iv(0.0)])
                    except absint.Undecided:
                        continue
                    except absint.Unsupported as e:
                        raise MachineryError('discriminator could not be interpreted: %s' % e)
                    vals = {(o.ret.res if isinstance(o.ret, absint.Cmp) else o.ret) for o in outs}
                    if None in vals:
                        continue          # indefinite over the cell: not decided
                    nd += 1
                    key = 'discriminator/k=%d/%s%s' % (k, '+' if side > 0 else '-', name)
                    got = vals == {True} if want else vals == {False}
                    ctx.check(got, 'R05.7', key, hb.where(0), hb.path,
                              'for every angle in [%.6g, %.6g] (%s the band around %d*2*pi) the discriminator answers %s, expected %s: a wrist-singular '
                              'posture is then recovered with the wrong J4/J6 combination' % (cell[0], cell[1], 'inside' if want else 'outside', k, sorted(map(str, vals)), want),
                              found=sorted(map(str, vals)), expected=str(want), detail=str(sorted(map(str, vals))))
        ctx.floor('R05.7 discriminator cells', nd, 20)

    # ---- R05.4 recovery structure
    # the recovered candidate: a named [f64; 6] local with element writes at constant slots 3 and 5
    now_l = []
    for l in util.locals_of_type(ic, lambda t: t == '[f64; 6]'):
        if l not in ic.names:
            continue
        idxs = set()
        for d in ic.defs().get(l, []):
            if d[0] == 'st' and not d[4] and len(d[3]['lhs']['proj']) == 1 and d[3]['lhs']['proj'][0]['k'] == 'index':
                idxs.add(util.const_val(ic.term_local(d[3]['lhs']['proj'][0]['local'], (d[1], d[2]))))
        if {3, 5} <= idxs:
            now_l.append(l)
    ctx.require(len(now_l) == 1, 'the recovered candidate of the singular branch (a [f64;6] local whose slots J4 and J6 are rewritten)')
    from .C16 import partial_writes
    ws = partial_writes(ic, lambda lhs, i, j: lhs['local'] == now_l[0] and len(lhs['proj']) == 1)
    by_idx = {}
    for i, j, it, v in ws:
        c = util.const_val(it)
        by_idx.setdefault(c, []).append((i, j, v))
    ring = algebra.Ring()
    ok = 3 in by_idx and 5 in by_idx and len(by_idx[3]) == 1 and len(by_idx[5]) == 1
    found = None
    if ok:
        (i4, j4, v4), (i6, j6, v6) = by_idx[3][0], by_idx[5][0]
        p4 = _prev_idx(ic, v4, 3)
        p6 = _prev_idx(ic, v6, 5)
        ok = p4 is not None and p6 is not None
        if ok:
            d4 = ring.nf(algebra.canon(v4)) - ring.nf(algebra.canon(p4))
            d6 = ring.nf(algebra.canon(v6)) - ring.nf(algebra.canon(p6))
            ok = (d4 - d6).is_zero() and not d4.is_zero()
            found = 'new4 - prev4 = %s ; new6 - prev6 = %s' % (d4.show(lambda a: show(a, maxdepth=3)), d6.show(lambda a: show(a, maxdepth=3)))
            # the increment is angle / 2
            incs = mir.subterms(v4, lambda x: x[0] == 'bin' and x[1] == 'Div' and util.const_val(x[3]) == 2.0)
            from fractions import Fraction
            half = len(d4.m) == 1 and list(d4.m.values())[0] == Fraction(1, 2) and sum(e for a, e in list(d4.m.keys())[0]) == 1
            ok = ok and (len(incs) >= 1 or half)
    ctx.check(ok, 'R05.4', 'equal-redistribution', ic.where(ws[0][0], ws[0][1]) if ws else ic.where(0), ic.path,
              'J4 and J6 of the recovered answer must move by the same amount (half the reduced sum difference) from their previous values', found=found, detail=found or '')
    if ws and 3 in by_idx and len(by_idx[3]) == 1:
        _total_reduction(ctx, prog, ic, by_idx[3][0])
    # sums: J5=0 arm uses prev4+prev6 / now4+now6, other arm prev4-prev6 / now4-now6
    sums = {}
    for i, j, st in ic.stmts():
        if st['rv']['k'] == 'bin' and st['rv']['op'] in ('Add', 'Sub'):
            t = ic.rv_term(st['rv'], (i, j))
            a, b = strip(t[2]), strip(t[3])
            if isinstance(a, tuple) and isinstance(b, tuple) and a[0] == 'idx' and b[0] == 'idx' and util.const_val(a[2]) == 3 and util.const_val(b[2]) == 5 and strip(a[1]) == strip(b[1]):
                gs = [(strip(g), opw.truth(k)) for g, k, sw in ic.guard_terms(i)]
                arm = [v for g, v in gs if isinstance(g, tuple) and g[0] == 'call' and any(g[1] == prog.bodies[d[1]['callee']['resolved']].path for d in disc)]
                sums.setdefault((arm[-1] if arm else None), []).append(st['rv']['op'])
    ok = sorted(sums.get(True, [])) == ['Add', 'Add'] and sorted(sums.get(False, [])) == ['Sub', 'Sub']
    ctx.check(ok, 'R05.4', 'sum-vs-difference', ic.where(0), ic.path,
              'J5~0 must preserve J4+J6 (both for previous and now), J5~pi must preserve J4-J6', found=str(sums))
    # gate of the singular push: compare_poses(pose-parameter, forward(now)) true and limits true  (also checked under C01/C08)
    pushes = [(bi, t) for bi, t in ic.calls() if cname(callee_name(t)) == 'Vec::push']
    for bi, t in pushes:
        gs = [(strip(g), opw.truth(k)) for g, k, sw in ic.guard_terms(bi)]
        fk = False
        for g, v in gs:
            if isinstance(g, tuple) and g[0] == 'call' and g[1] in prog.bodies and v is True and len(g) >= 4:
                a, b = strip(g[2]), strip(g[3])
                if util.is_param(a, 2) and isinstance(b, tuple) and b[0] == 'call' and cname(b[1]) == 'Kinematics::forward':
                    fk = True
        ctx.check(fk, 'R05.4', 'gate-unshifted', ic.where(bi), ic.path, 'the recovered candidate must be verified by forward kinematics against the requested (unshifted) pose')


def _total_reduction(ctx, prog, ic, w4):
    """R05.5: the sum difference that is halved lies in [-pi, pi] however far the wrist is wound up (previous J4/J6 are
    unbounded: multi-turn wrists).  Decided (a) from control flow: the halving site is dominated by the exits
    `angle > PI == false` and `angle < -PI == false` of loops on that same variable; or (b) for a reduction delegated to a
    helper fn(&mut f64, const): by abstract interpretation of the helper over cells covering +-16*pi."""
    import math
    from .. import absint
    from ..absint import Iv, Interp
    from ..facts import MachineryError
    i4, j4, v4 = w4
    halves = mir.subterms(v4, lambda x: x[0] == 'bin' and ((x[1] == 'Div' and util.const_val(x[3]) == 2.0) or
                                                        (x[1] == 'Mul' and 0.5 in (util.const_val(x[2]), util.const_val(x[3])))))
    if not halves:
        return           # reported by equal-redistribution
    h = halves[0]
    A = h[3] if (h[1] == 'Mul' and util.const_val(h[2]) == 0.5) else h[2]
    while isinstance(A, tuple) and A[0] in ('ref', 'deref'):
        A = A[1]
    if not (isinstance(A, tuple) and A[0] == 'mutb'):
        A = strip(A)
    where = ic.where(i4, j4)
    if isinstance(A, tuple) and A[0] == 'var':
        lo_ok = hi_ok = False
        for g, k, sw in ic.guard_terms(i4):
            bd = util.as_bound(g, opw.truth(k))
            if bd is None:
                continue
            op, a, b = bd[0], strip(bd[1]), strip(bd[2])
            if a == A and _num(b) is not None and _num(b) <= math.pi + 1e-9:
                hi_ok = True
            if b == A and _num(a) is not None and _num(a) >= -math.pi - 1e-9:
                lo_ok = True
        ctx.check(lo_ok and hi_ok, 'R05.5', 'reduction/control-flow', where, ic.path,
                  'the halved sum difference is not confined to [-pi, pi] on every path to the halving site (a residual turn moves J4 and J6 by pi each)',
                  found='upper bound %s, lower bound %s' % (hi_ok, lo_ok), detail='dominated by the exits angle <= PI and angle >= -PI')
        return
    if isinstance(A, tuple) and A[0] == 'mutb':
        loc = A[1]
        sites = []
        for bi, t in ic.calls():
            c = t['callee']
            if not (c.get('local') and c.get('resolved') in prog.bodies):
                continue
            args = [ic.op_term(a, (bi, None)) for a in t['args']]
            pos = [n for n, a in enumerate(args) if mir.contains(a, lambda x: x[0] == 'mutb' and x[1] == loc)]
            if pos:
                sites.append((bi, t, args, pos))
        ctx.require(len(sites) == 1 and len(sites[0][3]) == 1, 'the one helper call that reduces the sum difference in place')
        bi, t, args, pos = sites[0]
        hb = prog.bodies[t['callee']['resolved']]
        ctx.fn(hb)
        consts = [util.const_val(a) if n != pos[0] else None for n, a in enumerate(args)]
        ctx.require(all(c is not None for n, c in enumerate(consts) if n != pos[0]), 'constant remaining arguments of the reduction helper')
        w = 0.25
        bad = holds = und = 0
        x = -16 * math.pi
        while x < 16 * math.pi:
            cell = (x, x + w)
            x += w
            I = Interp(prog, {}, fuel=50000)
            argv = [('refval', Iv(*cell), ()) if n == pos[0] else Iv(float(consts[n])) for n in range(len(args))]
            try:
                outs = I.run_with_cells(hb.path, argv, [pos[0]])
            except absint.Undecided:
                und += 1
                continue
            except absint.Unsupported as e:
                raise MachineryError('reduction helper could not be interpreted: %s' % e)
            worst = None
            good = True
            for o, back in outs:
                r = back[0]
                if not isinstance(r, Iv):
                    good = False
                    continue
                if r.lo > math.pi + 1e-9 or r.hi < -math.pi - 1e-9:
                    if not o.cmp_forked:
                        worst = r
                    good = False
                elif r.hi > math.pi + w or r.lo < -math.pi - w:
                    good = False
            if worst is not None:
                bad += 1
                if bad <= 6:
                    ctx.violation('R05.5', 'reduction/helper/x[%.3f,%.3f]' % cell, hb.where(0), hb.path,
                                  'for every sum difference in the cell the helper leaves %r, outside [-pi, pi]: a wound-up wrist makes J4 and J6 jump by pi' % (worst,),
                                  found=repr(worst), expected='[-pi, pi]')
            elif good:
                holds += 1
            else:
                und += 1
        ctx.evaluations += holds + bad + und
        ctx.extra['reduction_helper_cells'] = {'holds': holds, 'definite_failures': bad, 'undecided': und}
        if bad == 0:
            ctx.require(holds >= 0.8 * (holds + und), 'precision of the reduction-helper analysis: %d of %d cells decided' % (holds, holds + und))
            ctx.ok('R05.5', 'reduction/helper', hb.where(0), '%d cells over +-16*pi stay within [-pi, pi]' % holds)
        return
    if isinstance(A, tuple) and A[0] == 'call' and A[1] in prog.bodies:
        rh = util.reduction_helper(prog, A[1])
        if rh is not None:
            ctx.fn(prog.bodies[A[1]])
            ctx.check(rh, 'R05.5', 'reduction/helper-fn', prog.bodies[A[1]].where(0), A[1],
                      'the helper that reduces the sum difference does not confine it to [-pi, pi] by whole turns on every path (a residual turn moves J4 and J6 by pi each)',
                      detail='result dominated by the exits x <= PI and x >= -PI; updates by +-2*PI only')
            return
    # closed form: (d + PI).rem_euclid(2 PI) - PI
    okf = False
    if isinstance(A, tuple) and A[0] == 'bin' and A[1] == 'Sub' and _num(A[3]) is not None and abs(_num(A[3]) - math.pi) < 1e-9:
        r = strip(A[2])
        if isinstance(r, tuple) and r[0] == 'call' and cname(r[1]) == 'f64::rem_euclid' and _num(r[3]) is not None and abs(_num(r[3]) - 2 * math.pi) < 1e-9:
            inner = strip(r[2])
            okf = isinstance(inner, tuple) and inner[0] == 'bin' and inner[1] == 'Add' and any(_num(x) is not None and abs(_num(x) - math.pi) < 1e-9 for x in inner[2:4])
    ctx.require(okf, 'reduction of the sum difference to [-pi, pi] (loops on the halved variable, an in-place helper, or (d + PI).rem_euclid(2 PI) - PI)')
    ctx.ok('R05.5', 'reduction/closed-form', where, '(d + PI).rem_euclid(2 PI) - PI')


def _num(t):
    """numeric value of a constant term, looking through negation and products of constants (2.0 * PI)"""
    t = strip(t)
    v = util.const_val(t)
    if isinstance(v, (int, float)) and not isinstance(v, bool):
        return float(v)
    if isinstance(t, tuple) and t[0] == 'un' and t[1] == 'Neg':
        x = _num(t[2])
        return -x if x is not None else None
    if isinstance(t, tuple) and t[0] == 'bin' and t[1] == 'Mul':
        a, b = _num(t[2]), _num(t[3])
        return a * b if a is not None and b is not None else None
    return None


def _prev_idx(b, v, idx):
    """the previous[idx] atom inside value term v"""
    c = mir.subterms(v, lambda x: x[0] == 'idx' and util.const_val(x[2]) == idx and isinstance(strip(x[1]), tuple) and strip(x[1])[0] == 'var' and '&' in str(x))
    if not c:
        c = mir.subterms(v, lambda x: x[0] == 'idx' and util.const_val(x[2]) == idx and 'previous' in show(x, maxdepth=4))
    if not c:
        # the reference vector chosen by a helper of the solver: fn(&self, &Joints) -> &Joints applied to the caller's previous
        def by_helper(x):
            if not (x[0] == 'idx' and util.const_val(x[2]) == idx):
                return False
            base = strip(x[1])
            return isinstance(base, tuple) and base[0] == 'call' and base[1] in b.prog.bodies and len(base) == 4 and util.is_param(base[2], 1) and \
                util.is_param(base[3], 3) and '[f64; 6]' in b.prog.bodies[base[1]].local_ty(0)
        c = mir.subterms(v, by_helper)
    return c[0] if c else None
