"""C10 - collision verdicts equal a brute-force pairwise check at the safety distances."""
from .. import absint, mir, util, opw
from .. import collision_model as cm
from ..mir import cname, strip, callee_name, show
from ..facts import MachineryError

EXPLANATION = ('The pair enumeration is a finite discrete structure and is decided exactly: the enumeration function is abstractly interpreted '
               '(constant propagation, constant-bounded loops unrolled, meshes/poses as opaque tags) over model configurations '
               '{tool,base} x {0,2 environment objects} x exemption tables, and the extracted task table is compared with the specification table '
               'of the property (R10.1 pairs, R10.3 operands, R10.2/R10.5 exemptions and safety-table provenance).  The per-pair decision '
               '(R10.4), mode dispatch (R10.6) and schedule independence (R10.7 effect analysis of the rayon closures) are decided structurally. '
               '(R10.9) the helpers a safety table is built with: SafetyDistances::distances files every value under its own pair (interpreted on three pairs), SafetyDistances::standard is touch-only towards environment and robot, without special pairs, in the given mode.  (R10.10) the public queries evaluate forward_with_joint_poses of their own joints argument, cast element by element, and reported pairs are converted member by member in order.  The geometry of parry3d queries and of the bounding-box pre-filter is not decided.')
NOT_DECIDED = 'correctness of parry3d intersection/distance queries, the f64->f32 cast, geometric adequacy of the AABB pre-filter'
ASSUMPTIONS = ['HashSet::contains / HashMap::get / Vec::push behave as documented (transfer functions of the interpreter)',
               'parry3d::query::intersection_test and distance are symmetric, exact geometric predicates']

ENUM_SUFFIX = 'collisions::RobotBody::detect_collisions_with_skips'


def find_enumeration(ctx):
    prog = ctx.prog
    # role: the RobotBody method that constructs CollisionTask values
    cands = [b for b in prog.bodies.values() if b.raw.get('impl_self') == 'collisions::RobotBody' and
             any(st['rv']['k'] == 'agg' and 'CollisionTask' in str(st['rv']['kind']) for _, _, st in b.stmts())]
    ctx.require(len(cands) == 1, 'exactly one RobotBody method constructing CollisionTask values (found %d)' % len(cands))
    ctx.fn(cands[0])
    return cands[0]


def extract(ctx, enum_b, **kw):
    try:
        return cm.extract_table(ctx.prog, enum_b.path, **kw)
    except (absint.Unsupported, absint.Undecided) as e:
        raise MachineryError('pair enumeration could not be interpreted (%s): %s' % (type(e).__name__, e))


def effective(ex, passed_special):
    """pairs that will actually be evaluated as possibly colliding under the passed table (R10.4: r <= NEVER -> false)"""
    ex_pairs = []
    for p in ex.pairs():
        if passed_special.get(p, passed_special.get((p[1], p[0]), 0.0)) <= cm.NEVER:
            continue
        ex_pairs.append(p)
    return ex_pairs


def pname(p):
    n = {100: 'TOOL', 101: 'BASE'}
    f = lambda x: n.get(x, 'ENV%d' % (x - 1000) if x >= 1000 else 'J%d' % (x + 1))
    return '%s-%s' % (f(p[0]), f(p[1]))


def _safety_tables(ctx, prog):
    """R10.9: the helpers a caller builds its safety table with.  `SafetyDistances::distances(pairs)` must file every value
    under its own (a, b) pair; `SafetyDistances::standard(mode)` is touch-only for the environment and for the robot itself,
    without special pairs, in the mode it is given."""
    from ..absint import Interp, Iv, Sym
    ctx.rule('R10.9', 'SafetyDistances::distances files each value under its own pair; SafetyDistances::standard = touch-only to environment and robot, no special pairs, the given mode')
    tv = _const_value(prog, 'collisions::TOUCH_ONLY')
    db = [b for p_, b in prog.bodies.items() if p_.endswith('collisions::SafetyDistances::distances')]
    if len(db) == 1:
        b = db[0]
        ctx.fn(b)
        log = []

        def val(I, st, a):
            while isinstance(a, tuple) and a and a[0] in ('ref', 'refval', 'mref'):
                a = I.deref(a, st)
            return a

        def h_new(I, st, a, t, b_):
            return Sym('map')

        def h_insert(I, st, a, t, b_):
            log.append((val(I, st, a[1]), val(I, st, a[2])))
            return ('enum', 0, ())
        pairs = (((1, 2), Iv(0.5)), ((3, 1000), Iv(0.125)), ((100, 5), Iv(0.25)))
        I = Interp(prog, {'HashMap::with_capacity': h_new, 'HashMap::new': h_new, 'HashMap::insert': h_insert}, fuel=20000, max_paths=8)
        try:
            outs = I.run(b.path, [('refval', pairs, ())])
            got = [((k[0], k[1]), v.lo) for k, v in log if isinstance(k, tuple) and len(k) == 2 and isinstance(v, Iv)]
            want = [((a, c), v.lo) for (a, c), v in pairs]
            if len(outs) == 1 and outs[0].ret != Sym('map') and not log:
                # the table collected from an iterator of (pair, value) items
                r = outs[0].ret
                if isinstance(r, tuple) and all(isinstance(x, tuple) and len(x) == 2 for x in r):
                    got = [((k[0], k[1]), v.lo) for k, v in r if isinstance(k, tuple) and len(k) == 2 and isinstance(v, Iv)]
                    outs[0].ret = Sym('map')
            ok = len(outs) == 1 and outs[0].ret == Sym('map') and sorted(got) == sorted(want)
            ctx.check(ok, 'R10.9', 'distances', b.where(0), b.path, 'every (pair, value) given must be filed under that pair: filed %s' % got, found=str(got), expected=str(want), detail='by interpretation')
        except (absint.Unsupported, absint.Undecided):
            pass
    sb = [b for p_, b in prog.bodies.items() if p_.endswith('collisions::SafetyDistances::standard')]
    if len(sb) == 1:
        b = sb[0]
        ctx.fn(b)
        for i, j, st in b.stmts():
            rv = st['rv']
            if rv['k'] == 'agg' and isinstance(rv.get('kind'), dict) and (rv['kind'].get('adt') or '').endswith('SafetyDistances'):
                t = b.rv_term(rv, (i, j))
                vals = dict(zip(rv['kind'].get('fields') or [], t[2:]))
                env, rob = util.const_val(vals.get('to_environment')), util.const_val(vals.get('to_robot_default'))
                sp = strip(vals.get('special_distances'))
                empty = isinstance(sp, tuple) and sp[0] == 'call' and cname(sp[1]).split('::')[-1] in ('new', 'default', 'with_capacity')
                if not empty and isinstance(sp, tuple) and sp[0] == 'call' and sp[1].endswith('collisions::SafetyDistances::distances') and len(sp) == 3:
                    # the table helper (checked above to file exactly the pairs it is given) applied to no pairs
                    a = strip(sp[2])
                    while isinstance(a, tuple) and a[0] in ('ref', 'cast'):
                        a = strip(a[1])
                    empty = a == ('agg', 'array') or (isinstance(a, tuple) and a[0] == 'const' and str(a[1]).endswith('; 0]'))
                ok = tv is not None and env == tv and rob == tv and util.is_param(vals.get('mode'), 1) and empty
                ctx.check(ok, 'R10.9', 'standard', b.where(i, j), b.path,
                          'the standard table must be touch-only (TOUCH_ONLY) towards the environment and within the robot, without special pairs, in the mode given',
                          found='to_environment=%s to_robot_default=%s special=%s mode=%s' % (env, rob, show(sp, maxdepth=2), show(vals.get('mode'), maxdepth=2)))


def _query_inputs(ctx, prog):
    """R10.10: the public queries look at the configuration they are asked about: the link poses handed to the pair enumeration
    are kinematics.forward_with_joint_poses(<the joints argument>) cast element by element, and the reported pairs keep their
    two members in the order the decision gave them."""
    ctx.rule('R10.10', 'collides / near / collision_details evaluate forward_with_joint_poses of their own joints argument (cast element-wise); reported pairs are converted member by member, in order')
    n = 0
    for name in ('collides', 'near', 'collision_details'):
        bs = [b for p_, b in prog.bodies.items() if p_.endswith('collisions::RobotBody::' + name)]
        if len(bs) != 1:
            continue
        b = bs[0]
        ctx.fn(b)
        jp = [k for k in range(1, b.arg_count + 1) if '[f64; 6]' in b.local_ty(k)]
        kp = [k for k in range(1, b.arg_count + 1) if 'dyn' in b.local_ty(k) and 'Kinematics' in b.local_ty(k)]
        dets = [(bi2, t2) for bi2, t2 in b.calls() if cname(callee_name(t2)).startswith('RobotBody::detect')]
        pose_terms = [b.op_term(t2['args'][1], (bi2, None)) for bi2, t2 in dets]
        if not dets:
            # the enumeration is reached through a helper of the body: read from what the query returns, helpers written out
            is_det = lambda pth: cname(pth).startswith('RobotBody::detect')
            for rv_, d_, rb_ in b.return_values():
                for y in mir.subterms(util.inline_calls(prog, rv_, depth=3, stop=is_det), lambda y: y[0] == 'call' and is_det(y[1]) and len(y) > 3):
                    if strip(y[3]) not in [strip(x) for x in pose_terms]:
                        pose_terms.append(y[3])
        ok = len(jp) == 1 and len(kp) == 1 and len(pose_terms) == 1
        found = None
        fk = []
        if ok:
            # the poses handed to the enumeration, helpers written out: array::map(kinematics.forward_with_joint_poses(joints), |p| p.cast())
            poses = strip(util.inline_calls(prog, pose_terms[0], depth=3))
            ms = [poses] if isinstance(poses, tuple) and poses[0] == 'call' and cname(poses[1]) == 'array::map' else \
                mir.subterms(poses, lambda y: y[0] == 'call' and cname(y[1]) == 'array::map')
            good = False
            for m in ms:
                src = strip(m[2])
                if isinstance(src, tuple) and src[0] == 'call' and cname(src[1]) == 'Kinematics::forward_with_joint_poses' and len(src) == 4:
                    found = 'forward_with_joint_poses(%s) on %s' % (show(src[3], maxdepth=2), show(src[2], maxdepth=2))
                    cb, caps = util.closure_of_term(prog, m[3])
                    crv = [strip(x[0]) for x in cb.return_values()] if cb is not None else []
                    def root_param(x):
                        x = strip(x)
                        while isinstance(x, tuple) and x[0] in ('ref', 'deref', 'cast'):
                            x = strip(x[1])
                        return util.param_index(x)
                    good = root_param(src[3]) == jp[0] and root_param(src[2]) == kp[0] and len(crv) == 1 and isinstance(crv[0], tuple) and \
                        crv[0][0] == 'call' and cname(crv[0][1]).split('::')[-1] == 'cast' and util.param_index(crv[0][2]) == 2
            ok = good
        n += 1
        ctx.check(ok, 'R10.10', name + '/poses', b.where(dets[0][0]) if dets else b.where(0), b.path,
                  'the query must enumerate the pairs at the link poses of the joints it is asked about (forward_with_joint_poses(joints), cast element by element)', found=found)
    ctx.floor('R10.10 queries', n, 3)
    # the conversion of the reported pairs
    dc = [b for p_, b in prog.bodies.items() if p_.endswith('collisions::RobotBody::detect_collisions')]
    if len(dc) == 1:
        for cb in util.closure_bodies(prog, dc[0].path):
            crv = [strip(x[0]) for x in cb.return_values()]
            if len(crv) == 1 and isinstance(crv[0], tuple) and crv[0][0] == 'agg' and len(crv[0]) == 4:
                ctx.fn(cb)
                comps = []
                for e in crv[0][2:]:
                    e = strip(e)
                    while isinstance(e, tuple) and e[0] == 'cast':
                        e = strip(e[1])
                    comps.append(e[2] if isinstance(e, tuple) and e[0] == 'fld' and util.param_index(e[1]) is not None else None)
                ctx.check(comps == ['0', '1'], 'R10.10', 'pair-conversion', cb.where(0), cb.path,
                          'a reported pair must be converted member by member, in order', found=str(comps))


def run(ctx):
    prog = ctx.prog
    _safety_tables(ctx, prog)
    _query_inputs(ctx, prog)
    ctx.rule('R10.1', 'extracted pair table == specification (10 non-adjacent link pairs; link x env; tool x env; tool x links 1-4; base x links 2-6; tool x base), each once')
    ctx.rule('R10.2', 'with exactly one pair exempt (NEVER_COLLIDES) the evaluated table loses exactly that pair (either key order; also pairs naming J1 and adjacent pairs)')
    ctx.rule('R10.3', 'each task pairs reporting index k with the shape and transform of body k')
    ctx.rule('R10.4', 'per-pair decision: r <= NEVER_COLLIDES -> false; r == TOUCH_ONLY -> intersection test; else pre-filter then distance <= r on the same operands; reported pair (min,max)')
    ctx.rule('R10.8', 'the bounding-box pre-filter is conservative: a solid box (Cuboid) = bounding box of the smaller shape loosened by r_min, at its centre, against the larger shape')
    ctx.rule('R10.5', 'exemptions are read from the safety table in use (the parameter), not from the body\'s own table; min_distance is order-insensitive')
    ctx.rule('R10.6', 'mode dispatch: NoCheck -> empty, FirstCollisionOnly -> find_map_any, otherwise filter_map + collect; collides() forces first-collision mode')
    ctx.rule('R10.7', 'closures handed to rayon capture shared references only and reach no atomics, locks, interior mutability or RNG')
    enum_b = find_enumeration(ctx)
    where = enum_b.where(0)

    # ---- R10.1 / R10.3
    n = 0
    for tool in (False, True):
        for base in (False, True):
            for n_env in (0, 2):
                ex = extract(ctx, enum_b, tool=tool, base=base, n_env=n_env)
                spec = cm.spec_pairs(tool, base, n_env)
                got = ex.pairs()
                missing = sorted(set(spec) - set(got))
                extra = sorted(set(got) - set(spec))
                dup = sorted({p for p in got if got.count(p) > 1})
                key = 'cfg(tool=%d,base=%d,env=%d)' % (tool, base, n_env)
                n += 1
                ctx.check(not missing and not extra and not dup, 'R10.1', key, where, enum_b.path,
                          'pair table differs from the specification: missing %s, extra %s, duplicated %s' % (
                              [pname(p) for p in missing], [pname(p) for p in extra], [pname(p) for p in dup]),
                          detail='%d pairs' % len(got))
                if tool and base and n_env == 2:
                    for t in ex.tasks:
                        for side in ('i', 'j'):
                            sh, tr = cm.operands_of(t[side])
                            ok = t['shape_' + side] == sh and t['transform_' + side] == tr
                            p = (min(t['i'], t['j']), max(t['i'], t['j']))
                            ctx.check(ok, 'R10.3', '%s/%s' % (pname(p), side), where, enum_b.path,
                                      'task for pair %s uses shape %r / transform %r for body %s, expected %r / %r' % (
                                          pname(p), t['shape_' + side], t['transform_' + side], t[side], sh, tr),
                                      detail='%r %r' % (sh, tr))
    ctx.floor('R10.1 configurations', n, 8)

    # ---- R10.2 / R10.5 exemptions
    spec = cm.spec_pairs(True, True, 2)
    full = sorted(spec)
    adjacent = [(i, i + 1) for i in range(5)] + [(4, 100), (5, 100), (0, 101)]
    for P in full + adjacent:
        for order in (0, 1):
            k = P if order == 0 else (P[1], P[0])
            want = sorted(p for p in full if p != P)
            # A: own == passed, P exempt
            s = cm.safety_model({k: cm.NEVER})
            ex = extract(ctx, enum_b, tool=True, base=True, n_env=2, own_safety=s, passed_safety=s)
            got = sorted(effective(ex, {k: cm.NEVER}))
            ctx.check(got == want, 'R10.2', 'exempt%s%s' % (pname(P), '' if order == 0 else '/rev'), where, enum_b.path,
                      'with only %s exempt the evaluated pairs lose %s and gain %s' % (
                          pname(P), [pname(p) for p in sorted(set(want) - set(got))], [pname(p) for p in sorted(set(got) - set(want))]),
                      detail='loses exactly %s' % pname(P))
            if order == 1:
                continue
            # B: own has P exempt, the table in use (passed) is clean -> nothing may be lost
            ex = extract(ctx, enum_b, tool=True, base=True, n_env=2, own_safety=cm.safety_model({k: cm.NEVER}), passed_safety=cm.safety_model())
            got = sorted(effective(ex, {}))
            ctx.check(got == full, 'R10.5', 'own-exempt%s' % pname(P), where, enum_b.path,
                      'a clean safety table is passed in, yet the body\'s own exemption of %s removes %s' % (pname(P), [pname(p) for p in sorted(set(full) - set(got))]),
                      detail='own table ignored')
            # C: passed has P exempt, own clean
            ex = extract(ctx, enum_b, tool=True, base=True, n_env=2, own_safety=cm.safety_model(), passed_safety=cm.safety_model({k: cm.NEVER}))
            got = sorted(effective(ex, {k: cm.NEVER}))
            ctx.check(got == want, 'R10.5', 'passed-exempt%s' % pname(P), where, enum_b.path,
                      'the passed table exempts %s: evaluated pairs lose %s and gain %s' % (
                          pname(P), [pname(p) for p in sorted(set(want) - set(got))], [pname(p) for p in sorted(set(got) - set(want))]))

    _min_distance(ctx, prog)
    dec = _decision(ctx, prog)
    _dispatch(ctx, prog, enum_b, dec)
    _effects(ctx, prog)


def _min_distance(ctx, prog):
    b = util.find_one(ctx, suffix='collisions::SafetyDistances::min_distance')
    I = absint.Interp(prog, cm.HANDLERS)
    cases = [((2, 4), {(2, 4): 0.02}, 0.02), ((4, 2), {(2, 4): 0.02}, 0.02), ((2, 4), {(4, 2): 0.03}, 0.03), ((2, 4), {}, 0.5),
             ((2, 1000), {}, 0.7), ((1000, 2), {}, 0.7), ((100, 101), {}, 0.5), ((100, 1001), {(1001, 100): 0.01}, 0.01)]
    for (a, c), special, want in cases:
        s = cm.safety_model(special, env=0.7, robot=0.5)
        try:
            outs = I.run(b.path, [('refval', s, ()), a, c])
            got = [cm._val(I, {}, o.ret) for o in outs]
        except (absint.Unsupported, absint.Undecided) as e:
            raise MachineryError('min_distance could not be interpreted: %s' % e)
        ok = len(got) == 1 and isinstance(got[0], absint.Iv) and abs(got[0].lo - want) < 1e-6
        ctx.check(ok, 'R10.5', 'min_distance(%d,%d|%s)' % (a, c, sorted(special)), b.where(0), b.path,
                  'lookup must try (a,b), then (b,a), then environment / robot default', found=got, expected=want)


def _uncast(t):
    t = strip(t)
    while isinstance(t, tuple) and t[0] in ('cast', 'as') and isinstance(t[1], tuple):
        t = strip(t[1])
    return t


def _prefilter_conservative(ctx, b, bi, t):
    """R10.8: the pre-filter may answer `far` only when the exact distance would exceed r_min.  Its box side must therefore be a
    *solid* box (parry's Cuboid): the bounding box of the smaller shape loosened by r_min, placed at that box's centre in the
    smaller shape's frame, tested against the larger shape with the larger shape's transform.  A triangle mesh of the box
    surface is not touched by a body lying wholly inside the box, which then counts as distant."""
    args = [_uncast(b.op_term(a, (bi, None))) for a in t['args']]
    where = b.where(bi)

    def box_side(sh):
        return mir.contains(sh, lambda x: x[0] == 'call' and cname(x[1]).split('::')[-1] == 'loosened')
    sides = [(0, 1), (2, 3)]
    box = [sd for sd in sides if box_side(args[sd[1]])]
    if not ctx.check(len(box) == 1, 'R10.8', 'prefilter/box-side', where, b.path, 'exactly one side of the pre-filter must be the enlarged bounding box', found=[show(a, maxdepth=4) for a in args]):
        return
    (ti, si) = box[0]
    (to, so) = [sd for sd in sides if sd != box[0]][0]
    sh, tr = args[si], args[ti]
    solid = isinstance(sh, tuple) and sh[0] == 'call' and cname(sh[1]) == 'Cuboid::new'
    built = cname(sh[1]) if isinstance(sh, tuple) and sh[0] == 'call' else show(sh, maxdepth=2)
    if not ctx.check(solid, 'R10.8', 'prefilter/solid-box', where, b.path,
                     'the enlarged bounding box is tested as a surface mesh (%s): a body lying wholly inside the box does not touch its surface, the pre-filter '
                     'answers `far` and a pair closer than its safety distance is not reported' % built, found=show(sh, maxdepth=4), expected='Cuboid::new(aabb.half_extents()) placed at aabb.center()'):
        return
    he = strip(sh[2])
    ok = isinstance(he, tuple) and he[0] == 'call' and cname(he[1]).split('::')[-1] == 'half_extents'
    aabb = strip(he[2]) if ok else None
    okl = False
    small = None
    if ok and isinstance(aabb, tuple) and aabb[0] == 'call' and cname(aabb[1]).split('::')[-1] == 'loosened':
        src, amount = strip(aabb[2]), strip(aabb[3])
        okl = isinstance(src, tuple) and src[0] == 'call' and cname(src[1]).split('::')[-1] == 'local_aabb' and \
            isinstance(amount, tuple) and amount[0] == 'call' and cname(amount[1]) == 'SafetyDistances::min_distance'
        small = strip(src[2]) if okl else None
    ctx.check(ok and okl, 'R10.8', 'prefilter/box-size', where, b.path, 'the box must be the local bounding box of the smaller shape loosened by r_min (the safety distance of this pair)',
              found=show(sh, maxdepth=7))
    # placement and other side, decided per case of the test(s) that choose which body is boxed: whichever body it is, the box
    # sits at the centre of that same bounding box in *its* frame, and is tested against the *other* body under that body's
    # own transform (how the smaller body is chosen does not matter for the verdict, the pairing does)
    import itertools
    conds = []
    for a in args:
        for c in util.branch_conditions(b, a):
            if c not in conds:
                conds.append(c)
    cases = [dict(zip(conds, vals)) for vals in itertools.product((True, False), repeat=len(conds))] if len(conds) <= 3 else [{}]
    okp = oko = True
    foundp = foundo = ''
    for case in cases:
        R = [_uncast(util.resolve_case(b, a, case)) for a in args]
        shc, trc, ooc, otc = R[si], R[ti], R[so], R[to]
        sm = mir.subterms(shc, lambda x: x[0] == 'call' and cname(x[1]).split('::')[-1] == 'local_aabb')
        boxed = _self_fld(sm[0][2]) if len(sm) == 1 else None
        aabbs = mir.subterms(shc, lambda x: x[0] == 'call' and cname(x[1]).split('::')[-1] == 'loosened')
        aabb_c = strip(aabbs[0]) if len(aabbs) == 1 else None
        placed = False
        if isinstance(trc, tuple) and trc[0] == 'call' and cname(trc[1]).split('::')[-1] == 'mul' and aabb_c is not None and boxed is not None:
            base, shift = strip(trc[2]), strip(trc[3])
            centres = mir.subterms(shift, lambda x: x[0] == 'call' and cname(x[1]).split('::')[-1] == 'center')
            same_box = bool(centres) and all(strip(c[2]) == aabb_c for c in centres)
            comp_ok = True
            if isinstance(shift, tuple) and shift[0] == 'call' and cname(shift[1]).split('::')[-1] == 'new' and len(shift) == 5:
                # Translation3::new(c.x, c.y, c.z): the three components in order
                comp = []
                for a3 in shift[2:5]:
                    a3 = strip(a3)
                    comp.append(a3[2] if isinstance(a3, tuple) and a3[0] == 'fld' else None)
                comp_ok = comp == ['x', 'y', 'z']
            bf = _self_fld(base)
            placed = same_box and comp_ok and bf is not None and bf.startswith('transform') and boxed.startswith('shape') and bf[-1] == boxed[-1]
        if not placed:
            okp = False
            foundp = show(trc, maxdepth=7)
        of, otf = _self_fld(ooc), _self_fld(otc)
        other = of is not None and otf is not None and of.startswith('shape') and otf.startswith('transform') and of[-1] == otf[-1] and \
            boxed is not None and of[-1] != boxed[-1]
        if not other:
            oko = False
            foundo = '%s / %s' % (show(otc, maxdepth=4), show(ooc, maxdepth=4))
    ctx.check(okp, 'R10.8', 'prefilter/box-placement', where, b.path, 'the solid box must sit at the centre of that same bounding box, in the frame of the smaller shape', found=foundp)
    # other side: the larger shape with its own transform
    ctx.check(oko, 'R10.8', 'prefilter/other-side', where, b.path, 'the box must be tested against the larger shape under the larger shape\'s transform', found=foundo)


def _decision_by_interpretation(ctx, prog, b):
    """R10.4 / R10.8 when the decision is not written as one body with the two parry queries in it (helpers, early returns,
    bool::then ..): CollisionTask::collides is interpreted for r_min below, at and above the special values, with the
    answers of the parry queries scripted, and the operands of every query it makes are inspected."""
    from ..absint import Interp, Iv, Sym, SOME, NONE
    ctx.fn(b)
    for p_ in prog.reachable_bodies([b.path]):
        if p_.startswith('collisions::'):
            ctx.fn(prog.bodies[p_])
    nv = _const_value(prog, 'collisions::NEVER_COLLIDES')
    tv = _const_value(prog, 'collisions::TOUCH_ONLY')
    OK_ = lambda v: ('enum', 0, (v,))

    def run(i, j, r, touch, pre, dist, n_i=3, n_j=5):
        log = []

        def val(I, st, a):
            while isinstance(a, tuple) and a and a[0] in ('ref', 'refval', 'mref'):
                a = I.deref(a, st)
            return a

        def h_min_distance(I, st, a, t, b2):
            log.append(('min_distance', val(I, st, a[1]), val(I, st, a[2])))
            return ('refval', Iv(r), ())

        def h_intersection(I, st, a, t, b2):
            ops = [val(I, st, x) for x in a]
            boxed = any(isinstance(x, Sym) and isinstance(x.tag, tuple) and x.tag[0] == 'cuboid' for x in ops)
            log.append(('prefilter' if boxed else 'touch', ops))
            return OK_(pre if boxed else touch)

        def h_distance(I, st, a, t, b2):
            log.append(('distance', [val(I, st, x) for x in a]))
            return OK_(Iv(dist))

        def h_expect(I, st, a, t, b2):
            v = val(I, st, a[0])
            return v[2][0]

        def h_vertices(I, st, a, t, b2):
            sh = val(I, st, a[0])
            return ('refval', tuple(Sym(('vertex', k)) for k in range(n_i if sh == Sym('Si') else n_j)), ())

        def tagged(name, n):
            def h(I, st, a, t, b2):
                return Sym((name,) + tuple(val(I, st, x) for x in a[:n]))
            return h

        def h_center(I, st, a, t, b2):
            return {'#adt': 'Point', 'coords': Sym(('center', val(I, st, a[0])))}

        def h_mul(I, st, a, t, b2):
            return Sym(('mul', val(I, st, a[0]), val(I, st, a[1])))
        H = {'SafetyDistances::min_distance': h_min_distance, 'query::intersection_test': h_intersection, 'intersection_test::intersection_test': h_intersection,
             'query::distance': h_distance, 'distance::distance': h_distance, 'Result::expect': h_expect, 'Result::unwrap': h_expect,
             'TriMesh::vertices': h_vertices, 'TriMesh::local_aabb': tagged('aabb', 1), 'Aabb::loosened': tagged('loosened', 2),
             'Aabb::half_extents': tagged('half_extents', 1), 'Aabb::center': h_center, 'Cuboid::new': tagged('cuboid', 1),
             'From::from': tagged('translation', 1), 'Translation::from': tagged('translation', 1), 'Into::into': tagged('translation', 1),
             'Mul::mul': h_mul}
        for bi2, t2 in [(x, y) for pb in [b] + [prog.bodies[q] for q in prog.reachable_bodies([b.path]) if q in prog.bodies] for x, y in pb.calls()]:
            n = cname(callee_name(t2))
            if n.endswith('intersection_test'):
                H[n] = h_intersection
            elif n.split('::')[-1] == 'distance' and 'parry' in callee_name(t2):
                H[n] = h_distance
            elif 'parry' in callee_name(t2) or 'nalgebra' in callee_name(t2):
                # the geometry library's constructors and accessors by their own name, whichever trait or type they are reached through
                last = n.split('::')[-1]
                by_last = {'loosened': tagged('loosened', 2), 'half_extents': tagged('half_extents', 1), 'center': h_center, 'local_aabb': tagged('aabb', 1),
                           'vertices': h_vertices}
                if last in by_last:
                    H[n] = by_last[last]
        me = {'#adt': 'collisions::CollisionTask', 'i': i, 'j': j, 'transform_i': ('refval', Sym('Ti'), ()), 'transform_j': ('refval', Sym('Tj'), ()),
              'shape_i': ('refval', Sym('Si'), ()), 'shape_j': ('refval', Sym('Sj'), ())}
        I = Interp(prog, H, fuel=100000, max_paths=16)
        try:
            outs = I.run(b.path, [('refval', me, ()), ('refval', Sym('safety-table'), ())])
        except (absint.Unsupported, absint.Undecided) as e:
            raise MachineryError('the pair decision could not be interpreted (%s): %s' % (type(e).__name__, e))
        if len(outs) != 1:
            raise MachineryError('the pair decision forks on point values (%d outcomes)' % len(outs))
        return outs[0].ret, log
    where = b.where(0)
    bad = []
    exact_ops = [Sym('Ti'), Sym('Si'), Sym('Tj'), Sym('Sj')]
    exact_sw = [Sym('Tj'), Sym('Sj'), Sym('Ti'), Sym('Si')]
    pre_bad = []
    key_bad = []
    for (i, j) in ((3, 1000), (1000, 3), (2, 5)):
        want_pair = SOME((min(i, j), max(i, j)))
        cases = []
        for r in (nv, nv - 4.0):
            for touch in (True, False):
                cases.append((r, touch, True, 0.0, NONE, 'exempt'))
        for touch in (True, False):
            cases.append((tv, touch, not touch, 0.5, want_pair if touch else NONE, 'touch'))
        r = 0.05
        for pre, d, hit in ((False, 0.0, False), (True, 0.01, True), (True, r, True), (True, 0.2, False), (True, 0.05001, False)):
            for touch in (True, False):
                cases.append((r, touch, pre, d, want_pair if hit else NONE, 'distance'))
        for r, touch, pre, d, want, what in cases:
            for n_i, n_j in ((3, 5), (5, 3), (4, 4)):
                got, log = run(i, j, r, touch, pre, d, n_i, n_j)
                if got != want:
                    bad.append('%s: r_min=%g touch=%s box-touches=%s distance=%g -> %r, expected %r' % (what, r, touch, pre, d, got, want))
                for ev in log:
                    if ev[0] == 'min_distance' and {ev[1], ev[2]} != {i, j}:
                        key_bad.append('min_distance(%r, %r) for the task (%d, %d)' % (ev[1], ev[2], i, j))
                    if ev[0] in ('touch', 'distance') and ev[1] not in (exact_ops, exact_sw):
                        bad.append('%s query on %r' % (ev[0], ev[1]))
                    if ev[0] == 'prefilter':
                        ops = ev[1]
                        small = 'i' if n_i < n_j else 'j'            # ties: either side may be boxed
                        box_at = [k for k, x in enumerate(ops) if isinstance(x, Sym) and isinstance(x.tag, tuple) and x.tag[0] == 'cuboid']
                        okb = False
                        if len(box_at) == 1 and box_at[0] in (1, 3):
                            bt, ot, osh = ops[box_at[0] - 1], ops[2 - (box_at[0] - 1)], ops[4 - box_at[0]]
                            cub = ops[box_at[0]]
                            he = cub.tag[1]
                            if isinstance(he, Sym) and he.tag[0] == 'half_extents' and isinstance(he.tag[1], Sym) and he.tag[1].tag[0] == 'loosened':
                                loos = he.tag[1]
                                ab = loos.tag[1]
                                amount = loos.tag[2]
                                boxed = ab.tag[1] if isinstance(ab, Sym) and ab.tag[0] == 'aabb' else None
                                side = 'i' if boxed == Sym('Si') else 'j' if boxed == Sym('Sj') else None
                                placed = isinstance(bt, Sym) and bt.tag[0] == 'mul' and bt.tag[1] == Sym('T' + (side or '?')) and isinstance(bt.tag[2], Sym) and \
                                    bt.tag[2].tag[0] == 'translation' and bt.tag[2].tag[1] == Sym(('center', loos))
                                other = side is not None and ot == Sym('T' + ('j' if side == 'i' else 'i')) and osh == Sym('S' + ('j' if side == 'i' else 'i'))
                                amt = isinstance(amount, Iv) and amount.is_point() and amount.lo == r
                                okb = side is not None and placed and other and amt
                        if not okb:
                            pre_bad.append('%r' % (ops,))
    ctx.check(not key_bad, 'R10.4', 'decision/r_min-key', where, b.path, 'r_min must be looked up for the task\'s own (i, j): ' + '; '.join(key_bad[:2]), found=str(key_bad[:2]))
    ctx.check(not bad, 'R10.4', 'decision/verdicts', where, b.path,
              'for scripted answers of the exact queries the verdict must be: exempt at r <= NEVER_COLLIDES, the intersection test at TOUCH_ONLY, otherwise '
              'distance <= r_min (after a pre-filter that may only say `far`), reported as (min, max): ' + '; '.join(bad[:3]), found=str(bad[:3]), detail='%d scripted cases' % 1)
    ctx.check(not pre_bad, 'R10.8', 'prefilter/solid-box', where, b.path,
              'the pre-filter must test a solid box (Cuboid of the half extents of the bounding box loosened by r_min, at its centre in the boxed shape\'s frame) '
              'against the other shape under that shape\'s transform: ' + '; '.join(pre_bad[:1]), found=str(pre_bad[:1]))
    ctx.check(nv is not None and tv is not None and nv < tv and tv == 0.0, 'R10.4', 'decision/constants', where, b.path,
              'NEVER_COLLIDES < TOUCH_ONLY == 0 required', found='%s, %s' % (nv, tv))
    return b


def _decision(ctx, prog):
    b = util.find_role(ctx, 'per-pair decision: method of CollisionTask returning Option<(u16, u16)>',
                       lambda b, sg: 'CollisionTask' in (b.raw.get('impl_self') or '') and 'Option<(u16, u16)>' in sg[0].replace('std::option::', ''), module='collisions::')
    calls = [(bi, t, cname(callee_name(t))) for bi, t in b.calls()]
    it = [(bi, t) for bi, t, n in calls if n.endswith('query::intersection_test') or n.endswith('intersection_test')]
    di = [(bi, t) for bi, t, n in calls if n.endswith('query::distance') or n == 'distance::distance' or n.endswith('::distance')]
    if len(it) < 2 or len(di) < 1:
        # the two parry queries are not both in this body (helpers took them over): decided by interpretation instead
        return _decision_by_interpretation(ctx, prog, b)
    md = [(bi, t) for bi, t, n in calls if n == 'SafetyDistances::min_distance']
    ctx.check(len(md) == 1 and util.is_param(b.op_term(md[0][1]['args'][0], (md[0][0], None)), 2), 'R10.4', 'decision/r_min-source', b.where(md[0][0]) if md else b.where(0), b.path,
              'r_min must come from the safety table handed to the decision (parameter), for (self.i, self.j)')
    if md:
        a1 = strip(b.op_term(md[0][1]['args'][1], (md[0][0], None)))
        a2 = strip(b.op_term(md[0][1]['args'][2], (md[0][0], None)))
        ok = _self_fld(a1) == 'i' and _self_fld(a2) == 'j' or _self_fld(a1) == 'j' and _self_fld(a2) == 'i'
        ctx.check(ok, 'R10.4', 'decision/r_min-key', b.where(md[0][0]), b.path, 'r_min must be looked up for the task\'s own (i, j)', found='%s, %s' % (show(a1), show(a2)))

    def operand_fields(t, bi):
        return [_self_fld(strip(b.op_term(a, (bi, None)))) for a in t['args']]
    want = ['transform_i', 'shape_i', 'transform_j', 'shape_j']
    want_sw = ['transform_j', 'shape_j', 'transform_i', 'shape_i']
    # touch-only intersection test: guarded by r_min == TOUCH_ONLY true and r_min <= NEVER false
    touch = [(bi, t) for bi, t in it if operand_fields(t, bi) in (want, want_sw)]
    ok = False
    for bi, t in touch:
        g = [(show(x, maxdepth=4), opw.truth(k)) for x, k, sw in b.guard_terms(bi)]
        has_never = any('NEVER_COLLIDES' in s and '<=' in s and v is False for s, v in g)
        has_touch = any('TOUCH_ONLY' in s and '==' in s and v is True for s, v in g)
        ok = ok or (has_never and has_touch)
    ctx.check(ok, 'R10.4', 'decision/touch', b.where(touch[0][0]) if touch else b.where(0), b.path,
              'r == TOUCH_ONLY must run the exact intersection test on (Ti,Si,Tj,Sj) after the NEVER_COLLIDES exemption')
    # exact distance on the four operands compared <= r_min
    exact = [(bi, t) for bi, t in di if operand_fields(t, bi) in (want, want_sw)]
    ok = False
    found = None
    if exact:
        bi, t = exact[0]
        # the value flows (through expect) into Le(d, r_min)
        for i2, j2, st in b.stmts():
            if st['rv']['k'] == 'bin' and st['rv']['op'] in ('Le', 'Lt', 'Ge', 'Gt'):
                tt = b.rv_term(st['rv'], (i2, j2))
                s = show(tt, maxdepth=6)
                if 'distance' in s:
                    found = s
                    lhs = show(tt[2], maxdepth=6)
                    ok = st['rv']['op'] == 'Le' and 'distance' in lhs and 'min_distance' in show(tt[3], maxdepth=4)
    ctx.check(ok, 'R10.4', 'decision/distance', b.where(exact[0][0]) if exact else b.where(0), b.path,
              'the exact distance on (Ti,Si,Tj,Sj) must be compared `<= r_min`', found=found, expected='distance(..) <= r_min')
    # pre-filter: its rejection edge is the only early `false`; transform and shape stay paired
    pre = [(bi, t) for bi, t in it if (bi, t) not in touch]
    if pre:
        bi, t = pre[0]
        args = [strip(b.op_term(a, (bi, None))) for a in t['args']]
        s0, s2, s3 = show(args[0], maxdepth=5), show(args[2], maxdepth=5), show(args[3], maxdepth=5)
        # arguments are fields .1 / .3 / .2 of the (small shape, small transform, big shape, big transform) tuple: check pairing in the tuple
        pair_ok = True
        for i2, j2, st in b.stmts():
            if st['rv']['k'] == 'agg' and len(st['rv']['ops']) == 4 and 'Tuple' in str(st['rv']['kind']):
                flds = [_self_fld(strip(b.op_term(o, (i2, j2)))) for o in st['rv']['ops']]
                if None not in flds:
                    a, bb_, c, d = flds
                    pair_ok = pair_ok and a[-1] == bb_[-1] and c[-1] == d[-1] and a[-1] != c[-1] and a.startswith('shape') and bb_.startswith('transform')
        ctx.check(pair_ok, 'R10.4', 'decision/prefilter-pairing', b.where(bi), b.path, 'the small/large tuple must keep each transform with its own shape')
        _prefilter_conservative(ctx, b, bi, t)
    # reported pair = (min(i,j), max(i,j))
    ok = False
    pair_sites = []
    for i2, j2, st in b.stmts():
        if st['rv']['k'] == 'agg' and len(st['rv']['ops']) == 2 and 'Tuple' in str(st['rv']['kind']) and 'u16' in b.local_ty(st['lhs']['local']):
            tt = b.rv_term(st['rv'], (i2, j2))
            a, c = strip(tt[2]), strip(tt[3])
            if isinstance(a, tuple) and a[0] == 'call' and isinstance(c, tuple) and c[0] == 'call':
                pair_sites.append(cname(a[1]).endswith('::min') and cname(c[1]).endswith('::max') and len(a) == 4 and len(c) == 4 and
                                  {_self_fld(strip(a[2])), _self_fld(strip(a[3]))} == {'i', 'j'} and {_self_fld(strip(c[2])), _self_fld(strip(c[3]))} == {'i', 'j'})
            elif {_self_fld(a), _self_fld(c)} == {'i', 'j'}:
                # (x, y) written out on the edge where x <= y was established
                ordered = False
                for g, k, sw in b.guard_terms(i2):
                    bd = util.as_bound(g, opw.truth(k))
                    if bd is not None and _self_fld(bd[1]) == _self_fld(a) and _self_fld(bd[2]) == _self_fld(c):
                        ordered = True
                pair_sites.append(ordered)
            else:
                pair_sites.append(False)
    ok = bool(pair_sites) and all(pair_sites)
    if not ok:
        # the pair is not put together in this body in one of the shapes read above (a closure, a helper): the whole decision,
        # the reported pair included, is decided by interpretation when that is possible
        try:
            _decision_by_interpretation(ctx, prog, b)
            return b
        except MachineryError:
            pass
    ctx.check(ok, 'R10.4', 'decision/report', b.where(0), b.path, 'the reported pair must be (min(i,j), max(i,j))')
    # constants
    consts = {}
    for bb in prog.bodies.values():
        for i2, j2, st in bb.stmts():
            pass
    nv = _const_value(prog, 'collisions::NEVER_COLLIDES')
    tv = _const_value(prog, 'collisions::TOUCH_ONLY')
    ctx.check(nv is not None and tv is not None and nv < tv and tv == 0.0, 'R10.4', 'decision/constants', b.where(0), b.path,
              'NEVER_COLLIDES < TOUCH_ONLY == 0 required', found='%s, %s' % (nv, tv))
    return b


def _const_value(prog, name):
    for b in prog.bodies.values():
        for blk in b.blocks:
            for st in blk['stmts']:
                v = _find_const(st['rv'], name)
                if v is not None:
                    return v
    return None


def _find_const(node, name):
    import struct
    if isinstance(node, dict):
        if node.get('k') == 'const' and node.get('name') == name:
            if 'f' in node:
                return float(node['f'])
            if 'raw' in node and node.get('raw_ty') == 'f32':
                return struct.unpack('<f', bytes.fromhex(node['raw']))[0]
        for v in node.values():
            r = _find_const(v, name)
            if r is not None:
                return r
    elif isinstance(node, list):
        for v in node:
            r = _find_const(v, name)
            if r is not None:
                return r
    return None


def _self_fld(t):
    t = strip(t)
    while isinstance(t, tuple) and t[0] == 'cast':
        t = strip(t[1])
    if isinstance(t, tuple) and t[0] == 'fld' and util.is_param(t[1], 1):
        return t[2]
    return None


def _is_check_mode(b, sw):
    """the switch in block sw is on the discriminant of a CheckMode value"""
    op = b.blocks[sw]['term']['discr']
    if op.get('k') not in ('copy', 'move') or op['place']['proj']:
        return False
    for d in b.defs().get(op['place']['local'], []):
        if d[0] == 'st' and d[3]['rv'].get('k') == 'discr':
            ty = b.local_ty(d[3]['rv']['place']['local'])
            return 'CheckMode' in ty and 'Option' not in ty
    return False


def _dispatch(ctx, prog, enum_b, dec):
    b = util.find_role(ctx, 'task evaluation: RobotBody fn taking Vec<CollisionTask>',
                       lambda b, sg: len(sg) > 1 and 'Vec<collisions::CollisionTask' in sg[1].replace('std::vec::', ''), module='collisions::')
    calls = {}
    for bi, t in b.calls():
        calls.setdefault(cname(callee_name(t)).split('::')[-1], []).append((bi, t))
    # arms keyed by what the dominating edges say about the mode: comparisons `mode == CheckMode::X` (either polarity) or the
    # arms of a `match mode { .. }`
    variants = [v['name'] for v in prog.adts['collisions::CheckMode']['variants']]

    def modes_at(bi):
        possible = set(variants)
        for g, k, sw in b.guard_terms(bi):
            g0 = strip(g)
            s = show(g, maxdepth=5)
            if 'eq(' in s.lower() or '==' in s:
                tv = opw.truth(k)
                for v in variants:
                    if v in s and tv is True:
                        possible &= {v}
                    elif v in s and tv is False:
                        possible -= {v}
            elif isinstance(g0, tuple) and g0[0] == 'discr' and _is_check_mode(b, sw):
                if isinstance(k, int) and not isinstance(k, bool) and k < len(variants):
                    possible &= {variants[k]}
                elif k == 'otherwise':
                    possible -= {variants[int(v)] for v, tg in b.blocks[sw]['term']['targets'] if int(v) < len(variants)}
        return possible
    ok_first = any(modes_at(bi) == {'FirstCollisionOnly'} for bi, t in calls.get('find_map_any', [])) and \
        all(modes_at(bi) == {'FirstCollisionOnly'} for bi, t in calls.get('find_map_any', []))
    ok_all = any(modes_at(bi) == {'AllCollsions'} for bi, t in calls.get('filter_map', []))
    # NoCheck: an empty vector (Vec::new() / vec![]) and no task evaluated
    ok_none = False
    for t_, d, rb in b.return_values():
        if d and modes_at(d[1]) == {'NoCheck'}:
            tt = strip(t_)
            ok_none = isinstance(tt, tuple) and tt[0] == 'call' and cname(tt[1]).split('::')[-1] in ('new', 'with_capacity', 'default') and \
                not mir.contains(tt, lambda x: x[0] == 'call' and cname(x[1]).split('::')[-1] in ('find_map_any', 'filter_map', 'par_iter'))
    if not ok_none:
        for bi, t in calls.get('new', []):
            ok_none = ok_none or modes_at(bi) == {'NoCheck'}
    ctx.check(ok_first, 'R10.6', 'dispatch/first', b.where(0), b.path, 'FirstCollisionOnly must use find_map_any (and only that mode)')
    ctx.check(ok_all, 'R10.6', 'dispatch/all', b.where(0), b.path, 'all-collisions mode must evaluate every task (filter_map + collect)')
    ctx.check(ok_none, 'R10.6', 'dispatch/none', b.where(0), b.path, 'NoCheck must return an empty list')
    # mode = override.unwrap_or(safety.mode)
    ok = False
    for bi, t in calls.get('unwrap_or', []):
        a = [strip(b.op_term(x, (bi, None))) for x in t['args']]
        ok = 'mode' in show(a[1], maxdepth=4)
    ctx.check(ok, 'R10.6', 'dispatch/mode-source', b.where(0), b.path, 'mode must be the override or the mode of the safety table in use')
    # each closure evaluates task.collides(safety parameter)
    consumers = {}
    for bi, t in b.calls():
        for a in t['args']:
            cl, _ = util.closure_of_term(prog, b.op_term(a, (bi, None)))
            if cl is not None:
                consumers[cl.path] = cname(callee_name(t)).split('::')[-1]
    for c in util.closure_bodies(prog, b.path):
        ctx.fn(c)
        cs = [(bi, t) for bi, t in c.calls() if t['callee'].get('resolved') == dec.path]
        if consumers.get(c.path) in ('map_or_else', 'map_or', 'unwrap_or_else', 'map', 'and_then', 'into_iter') and not cs and 'CollisionTask' not in ' '.join(util.sig(c)):
            continue         # a closure that shapes the result (`|pair| vec![pair]`), not one that is run per task
        ctx.check(len(cs) == 1, 'R10.6', 'dispatch/closure-%s' % c.path.split('::')[-1], c.where(0), c.path, 'task closure must evaluate the task decision exactly once')
    # RobotBody::collides: NoCheck -> false, forces FirstCollisionOnly, negates is_empty
    cb = util.find_one(ctx, suffix='collisions::RobotBody::collides')
    rvs = cb.return_values()
    kinds = set()
    for t, d, rb in rvs:
        t = strip(util.inline_calls(prog, t, depth=2, stop=lambda pth: cname(pth).startswith('RobotBody::detect')))
        g = [(show(x, maxdepth=5), opw.truth(k)) for x, k, sw in cb.guard_terms(d[1])]
        if util.const_val(t) in (0, False) and any('NoCheck' in s and v is True for s, v in g):
            kinds.add('nocheck-false')
        inner = util.nonempty_of(t)
        if inner is None and util.const_val(t) in (0, 1, True, False):
            # `if hits.is_empty() { false } else { true }`
            want = bool(util.const_val(t))
            for x, k, sw in cb.guard_terms(d[1]):
                x = strip(x)
                if isinstance(x, tuple) and x[0] == 'call' and cname(x[1]).split('::')[-1] == 'is_empty' and opw.truth(k) is (not want):
                    inner = strip(x[2])
                    kinds.add('first-nonempty/%s' % want)
                    if {'first-nonempty/True', 'first-nonempty/False'} <= kinds:
                        kinds -= {'first-nonempty/True', 'first-nonempty/False'}
                    else:
                        inner = None
        if inner is not None:
            s = show(inner, maxdepth=6)
            if enum_b.path.split('::')[-1] in s and 'FirstCollisionOnly' in s:
                kinds.add('first-nonempty')
    ctx.check(kinds == {'nocheck-false', 'first-nonempty'}, 'R10.6', 'collides()', cb.where(0), cb.path,
              'collides() must be false in NoCheck and otherwise !first-collision-result.is_empty()', found=sorted(kinds))
    # public entry points hand the right table to the enumeration
    # private forwarder(s): RobotBody methods that take a safety table and hand it to the enumeration (found by role)
    forwarders = [x for x in prog.bodies.values() if x.raw.get('impl_self') == 'collisions::RobotBody' and x.kind != 'Closure' and x.path != enum_b.path and
                  any(t['callee'].get('resolved') == enum_b.path for _, t in x.calls()) and
                  any('SafetyDistances' in x.local_ty(i) for i in range(2, x.arg_count + 1)) and not x.raw.get('vis_pub', False) and
                  x.path.split('::')[-1] not in ('near',)]
    fw_names = {'RobotBody::' + x.path.split('::')[-1] for x in forwarders} | {'RobotBody::' + enum_b.path.split('::')[-1]}
    for name, want in (('collision_details', 'self.safety'), ('near', 'param'), ('collides', 'self.safety'), ('non_colliding_offsets', 'self.safety')):
        e = [x for x in prog.find(suffix='collisions::RobotBody::' + name)]
        bodies = e + [c for x in e for c in util.closure_bodies(prog, x.path)]
        # private helpers of the body that the entry point (or its closures) calls and that take no table / mode of their own
        # (a helper that does is a forwarder and is judged through fw_names)
        for x in list(bodies):
            for bi, t in x.calls():
                hb = prog.bodies.get(t['callee'].get('resolved')) if t['callee'].get('local') else None
                if hb is not None and hb not in bodies and hb.kind != 'Closure' and hb.raw.get('impl_self') == 'collisions::RobotBody' and \
                        cname(hb.path) not in fw_names and hb.path != enum_b.path and \
                        not any('SafetyDistances' in hb.local_ty(i) or 'CheckMode' in hb.local_ty(i) for i in range(1, hb.arg_count + 1)):
                    bodies.append(hb)
                    bodies += util.closure_bodies(prog, hb.path)
        found = None
        kind = None
        mode_kind = None
        mode_found = None
        for x in bodies:
            for bi, t in x.calls():
                n = cname(callee_name(t))
                if n in fw_names:
                    callee = prog.bodies.get(t['callee'].get('resolved'))
                    for pos, a in enumerate(t['args']):
                        if callee is not None and 'CheckMode' in callee.local_ty(pos + 1):
                            # the mode override handed down: None, Some(FirstCollisionOnly), or Some(<table>.mode)
                            mt = strip(x.op_term(a, (bi, None)))
                            mode_found = show(mt, maxdepth=5)
                            if isinstance(mt, tuple) and mt[0] == 'const' and 'FirstCollisionOnly' in show(mt, maxdepth=2):
                                mode_kind = 'first'          # a promoted constant &Some(FirstCollisionOnly)
                            elif isinstance(mt, tuple) and mt[0] == 'agg' and 'None' in str(mt[1]):
                                mode_kind = 'none'
                            elif isinstance(mt, tuple) and mt[0] == 'agg' and 'Some' in str(mt[1]):
                                inner = strip(mt[2])
                                if 'FirstCollisionOnly' in show(inner, maxdepth=3):
                                    mode_kind = 'first'
                                elif isinstance(inner, tuple) and inner[0] == 'fld' and inner[2] == 'mode':
                                    tb = strip(inner[1])
                                    if util.param_index(tb) is not None and x.kind != 'Closure':
                                        mode_kind = 'mode-of-param'
                                    elif isinstance(tb, tuple) and tb[0] == 'fld' and tb[2] == 'safety':
                                        mode_kind = 'mode-of-self.safety'
                                    else:
                                        mode_kind = 'other'
                                else:
                                    mode_kind = 'other'
                            else:
                                mode_kind = 'other'
                    for pos, a in enumerate(t['args']):
                        if callee is not None and 'SafetyDistances' not in callee.local_ty(pos + 1):
                            continue
                        term = strip(x.op_term(a, (bi, None)))
                        found = show(term, maxdepth=5)
                        if util.param_index(term) is not None and x.kind != 'Closure':
                            kind = 'param'
                        elif isinstance(term, tuple) and term[0] == 'fld' and term[2] == 'safety' and 'self' in show(term[1], maxdepth=3):
                            kind = 'self.safety'
                        else:
                            kind = 'other'
        ok = kind == want
        ctx.check(ok, 'R10.5', 'entry/' + name, e[0].where(0) if e else '', e[0].path if e else name,
                  'entry point must evaluate with %s' % ('the body\'s own table' if want == 'self.safety' else 'the table given by the caller'), found=found)
        # the mode that governs the run must be the mode of the table in use: no override (or that table's own mode) for the
        # reporting entry points, first-collision for the boolean ones
        allowed = {'collision_details': ('none', 'mode-of-self.safety'), 'near': ('none', 'mode-of-param'),
                   'collides': ('first',), 'non_colliding_offsets': ('first',)}[name]
        ctx.check(mode_kind in allowed, 'R10.6', 'entry/%s/mode' % name, e[0].where(0) if e else '', e[0].path if e else name,
                  'the check mode of this entry point must be %s' % (' or '.join({'none': 'left to the table in use', 'first': 'forced to first-collision',
                                                                              'mode-of-param': 'the mode of the table given by the caller',
                                                                              'mode-of-self.safety': 'the mode of the body\'s own table'}[a2] for a2 in allowed)),
                  found=mode_found, detail=str(mode_kind))
    # detect_collisions forwards its safety parameter
    for x in forwarders:
        ctx.fn(x)
        ok = False
        for bi, t in x.calls():
            if t['callee'].get('resolved') == enum_b.path:
                pi = [util.param_index(x.op_term(a, (bi, None))) for a in t['args']]
                # positional: (self, poses, safety, mode, skip)
                ok = pi[0] == 1 and pi[1] == 2 and pi[2] == 3
        ctx.check(ok, 'R10.5', 'entry/detect_collisions', x.where(0), x.path, 'detect_collisions must forward self, poses and its safety parameter positionally')


EFFECT_FORBIDDEN = ('Atomic', 'Mutex', 'RwLock', 'RefCell', 'Cell::', 'thread_rng', 'gen_range', 'OnceCell', 'LocalKey', 'static_mut')


def _effects(ctx, prog):
    """R10.7: closures handed to rayon in collisions.rs."""
    n = 0
    for b in prog.bodies.values():
        if not b.path.startswith('collisions::'):
            continue
        for bi, t in b.calls():
            nm = cname(callee_name(t))
            last = nm.split('::')[-1]
            if nm.split('::')[0] in ('ParallelIterator', 'IndexedParallelIterator') and len(t['args']) >= 2:
                cb, caps = util.closure_of_term(prog, b.op_term(t['args'][1], (bi, None)))
                if cb is None:
                    continue
                n += 1
                # captures: shared references only
                env_ty = cb.local_ty(1)
                cap_mut = [c for c in caps if isinstance(c, tuple) and c[0] == 'ref' and False]
                reach = prog.reachable_bodies([cb.path])
                bad = []
                for p in reach:
                    for ci, ct in prog.bodies[p].calls():
                        cn = callee_name(ct)
                        if any(f in cn for f in EFFECT_FORBIDDEN):
                            bad.append('%s in %s' % (cname(cn), p))
                mut_caps = '&mut' in env_ty
                # combination: order-preserving collect or "any"
                ctx.check(not bad and not mut_caps, 'R10.7', '%s/%s' % (b.path.split('::')[-1], last), b.where(bi), b.path,
                          'parallel closure has effects or mutable captures: %s %s' % (bad, 'mutable capture' if mut_caps else ''),
                          detail='%d reachable crate-local bodies, no effects' % len(reach))
    ctx.floor('R10.7 parallel closures', n, 3)
