"""C17 - a frame from three point pairs is the rigid motion mapping them."""
from .. import algebra, mir, util, opw
from ..mir import cname, strip, callee_name, show

EXPLANATION = ('Decided from MIR terms: (R17.1) sibling bases: the target basis (d1,d2,d3) is the source basis (b1,b2,b3) term DAG under the '
               'renaming p_i -> q_i (anti-unification), built as (normalize(v1), normalize(v1 x v2), e1 x e2) - both right handed, hence '
               'det R = +1; (R17.2) assembly: R = from_columns(D) * transpose(from_columns(B)), t = q1 - R*p1, result from_parts(t, R); '
               '(R17.3) guards: the congruence test compares the three corresponding distance pairs (1,2),(1,3),(2,3) with |difference| < '
               'tolerance (0.005) and conjoins them, dominates everything else and its failure returns NotIsometry; source collinearity uses '
               'the p vectors and ColinearPoints{source: true}, target collinearity the q vectors and false; (R17.4) Frame::translation = q - p '
               'with identity rotation.  Accuracy for nearly collinear triples is numerical and not decided.')
NOT_DECIDED = 'accuracy for nearly collinear triples; behaviour exactly at the 5 mm tolerance'
ASSUMPTIONS = ['nalgebra normalize / cross / from_columns / transpose are correct']


def rename(t, mapping):
    def f(x):
        if not isinstance(x, tuple):
            return x
        if x[0] == 'param' and x[1] in mapping:
            return ('param', mapping[x[1]], 'P')
        if x[0] == 'param':
            return ('param', x[1], 'P')
        return (x[0],) + tuple(f(y) if isinstance(y, tuple) else y for y in x[1:])
    return algebra.canon(f(t))


def _collinear_guard(g, truth):
    """g (taken with `truth`) is a test of |a x b| against a constant -> (edge means collinear?, threshold) else None.
    `n == 0.0` has threshold 0; `n < c` / `n <= c` have threshold c."""
    g = strip(g)
    if not (isinstance(g, tuple) and g[0] == 'bin' and g[1] in ('Eq', 'Ne', 'Lt', 'Le', 'Gt', 'Ge') and truth in (True, False)):
        return None
    if not mir.contains(g, lambda x: x[0] == 'call' and cname(x[1]).split('::')[-1] == 'cross'):
        return None
    a, b = strip(g[2]), strip(g[3])
    ca, cb = util._fnum(a), util._fnum(b)
    if g[1] in ('Eq', 'Ne'):
        c = cb if cb is not None else ca
        if c is None:
            return None
        return ((g[1] == 'Eq') == truth, abs(c))
    # orderings: bring to  n < c  /  n <= c  (collinear) versus the opposite
    if cb is not None:                       # n OP c
        small = g[1] in ('Lt', 'Le')
        return (small == truth, abs(cb))
    if ca is not None:                       # c OP n
        small = g[1] in ('Gt', 'Ge')
        return (small == truth, abs(ca))
    return None


def run(ctx):
    prog = ctx.prog
    ctx.rule('R17.1', 'target basis == source basis under p_i -> q_i; each basis is (normalize(v1), normalize(v1 x v2), e1 x e2)')
    ctx.rule('R17.2', 'R = D * B^T, t = q1 - R*p1, result from_parts(t, R)')
    ctx.rule('R17.3', 'congruence guard over the pairs (1,2),(1,3),(2,3) with |d_a - d_b| < 0.005, conjoined, dominating; collinearity guards with the right points and flag')
    ctx.rule('R17.4', 'Frame::translation = from_parts(q - p, identity)')
    fr = util.find_one(ctx, suffix='frame::Frame::frame')
    oks = [(strip(t), d) for t, d, rb in fr.return_values() if isinstance(strip(t), tuple) and strip(t)[0] == 'agg' and 'Ok' in strip(t)[1]]
    ctx.require(len(oks) == 1, 'single Ok(..) return of Frame::frame')
    res = strip(oks[0][0][2])
    ok_shape = isinstance(res, tuple) and res[0] == 'call' and cname(res[1]).endswith('::from_parts')
    ctx.require(ok_shape, 'Frame::frame returns Isometry::from_parts(..)')
    tr, rot = strip(res[2]), strip(res[3])
    # rotation = from_rotation_matrix(from_matrix_unchecked(D * B^T))
    m = rot
    chain = []
    while isinstance(m, tuple) and m[0] == 'call' and cname(m[1]).split('::')[-1] in ('from_rotation_matrix', 'from_matrix_unchecked', 'from_matrix', 'into', 'from') and len(m) == 3:
        chain.append(cname(m[1]).split('::')[-1])
        m = strip(m[2])
    if 'from_rotation_matrix' not in chain and chain[:1] in (['into'], ['from']) and chain[1:2] == ['from_matrix_unchecked']:
        chain.append('from_rotation_matrix')        # UnitQuaternion::from(Rotation3) is from_rotation_matrix
    D = B = None
    ok = False
    if isinstance(m, tuple) and m[0] == 'call' and cname(m[1]).endswith('::mul'):
        d, bt = strip(m[2]), strip(m[3])
        if isinstance(bt, tuple) and bt[0] == 'call' and cname(bt[1]).endswith('::transpose'):
            D, B = _columns(d), _columns(strip(bt[2]))
            if D is None and B is None:
                # both bases from one helper fn(..) -> Option<Matrix3>: its Some payload with the arguments of each call written in
                D, B = _helper_columns(prog, d), _helper_columns(prog, strip(bt[2]))
            ok = D is not None and B is not None
        elif _rows_transposed(bt) is not None:
            # the transposed source basis written as the matrix having the axes as rows
            D, B = _columns(d), _rows_transposed(bt)
            ok = D is not None
    ctx.check(ok and 'from_rotation_matrix' in chain, 'R17.2', 'rotation', fr.where(oks[0][1][1]), fr.path,
              'the rotation must be from_columns(target basis) * transpose(from_columns(source basis))', found=show(m, maxdepth=4), detail='D * B^T')
    if D is None or B is None:
        return
    # R17.1 sibling bases
    pmap = {1: 4, 2: 5, 3: 6}
    for k in range(3):
        same = rename(B[k], pmap) == rename(D[k], {})
        ctx.check(same, 'R17.1', 'basis-vector%d' % (k + 1), fr.where(0), fr.path,
                  'target basis vector %d is not the source basis vector with p_i replaced by q_i (handedness or normalisation differs)' % (k + 1),
                  found=show(D[k], maxdepth=6), expected=show(B[k], maxdepth=6) + ' [p->q]', detail='anti-unifies with p->q')
    # basis shape
    b1, b2, b3 = [strip(x) for x in B]
    v1 = _diff(('param', 2), ('param', 1))
    shape = False
    if isinstance(b1, tuple) and b1[0] == 'call' and cname(b1[1]).endswith('::normalize') and _is_diff(b1[2], 2, 1):
        if isinstance(b2, tuple) and b2[0] == 'call' and cname(b2[1]).endswith('::normalize'):
            c = strip(b2[2])
            if isinstance(c, tuple) and c[0] == 'call' and cname(c[1]).endswith('::cross') and _is_diff(c[2], 2, 1) and _is_diff(c[3], 3, 1):
                if isinstance(b3, tuple) and b3[0] == 'call' and cname(b3[1]).endswith('::cross') and algebra.canon(strip(b3[2])) == algebra.canon(b1) and algebra.canon(strip(b3[3])) == algebra.canon(b2):
                    shape = True
    ctx.check(shape, 'R17.1', 'basis-shape', fr.where(0), fr.path,
              'the source basis must be (normalize(p2-p1), normalize((p2-p1) x (p3-p1)), e1 x e2): a right-handed orthonormal triple', found=[show(x, maxdepth=5) for x in B])
    # translation = q1 - R * p1
    t = tr
    while isinstance(t, tuple) and t[0] == 'call' and cname(t[1]).split('::')[-1] in ('into', 'from'):
        t = strip(t[2])
    ok = False
    if isinstance(t, tuple) and t[0] == 'call' and cname(t[1]).endswith('::sub') and util.is_param(t[2], 4):
        rp = strip(t[3])
        # R.transform_point(&p1), or the operator form R * p1 (the same operation on a point)
        ok = isinstance(rp, tuple) and rp[0] == 'call' and len(rp) == 4 and (cname(rp[1]).endswith('::transform_point') or cname(rp[1]) == 'Mul::mul') \
            and algebra.canon(strip(rp[2])) == algebra.canon(rot) and util.is_param(rp[3], 1)
    ctx.check(ok, 'R17.2', 'translation', fr.where(0), fr.path, 'the translation must be q1 - R*p1 with the same rotation R', found=show(t, maxdepth=5), detail='q1 - R*p1')

    # ---- R17.3 guards
    gs = [(strip(g), opw.truth(k)) for g, k, sw in fr.guard_terms(oks[0][1][1])]
    cong = [(g, v) for g, v in gs if isinstance(g, tuple) and g[0] == 'call' and g[1] in prog.bodies]
    ok = len(cong) == 1 and cong[0][1] is True and [util.param_index(x) for x in cong[0][0][2:8]] == [1, 2, 3, 4, 5, 6]
    tol = util.const_val(cong[0][0][8]) if cong else None
    ctx.check(ok and tol is not None and abs(tol - 0.005) < 1e-15, 'R17.3', 'congruence-call', fr.where(0), fr.path,
              'the congruence test must be applied to (p1,p2,p3,q1,q2,q3) with the 5 mm tolerance before anything else', found='%s tol=%s' % ([show(x) for x in cong[0][0][2:8]] if cong else None, tol))
    col = []
    for g, v in gs:
        cg = _collinear_guard(g, v)
        if cg is not None:
            col.append((g, cg[0], cg[1]))
    for g, k, sw in fr.guard_terms(oks[0][1][1]):
        hg = _helper_guard(prog, g, k)
        if hg is not None:
            col.append(hg)
    ctx.check(len(col) == 2 and all(c is False for g, c, th in col), 'R17.3', 'collinearity-guards', fr.where(0), fr.path, 'both collinearity tests must pass before the frame is built')
    big = [th for g, c, th in col if th is None or th > 1e-12]
    ctx.check(not big, 'R17.3', 'collinearity-threshold', fr.where(0), fr.path,
              'points count as collinear only when the cross product of the spanning vectors vanishes; a threshold of %s on that area-valued '
              'quantity rejects small or slender but perfectly valid triangles' % big, found=str(big), detail='cross(..).norm() == 0')
    # error returns
    for t_, d, rb in fr.return_values():
        t_ = strip(t_)
        if not (isinstance(t_, tuple) and t_[0] == 'agg' and 'Err' in t_[1]):
            continue
        inner = strip(t_[2])
        while isinstance(inner, tuple) and inner[0] in ('cast',) or (isinstance(inner, tuple) and inner[0] == 'call' and cname(inner[1]) == 'Box::new'):
            inner = strip(inner[1]) if inner[0] == 'cast' else strip(inner[2])
        g2 = [(strip(g), opw.truth(k)) for g, k, sw in fr.guard_terms(d[1])]
        if isinstance(inner, tuple) and inner[0] == 'call' and cname(inner[1]) == 'NotIsometry::new':
            ok = any(isinstance(g, tuple) and g[0] == 'call' and g[1] in prog.bodies and v is False for g, v in g2) and len(g2) == 1
            ctx.check(ok, 'R17.3', 'not-isometry', fr.where(d[1]), fr.path, 'NotIsometry must be returned exactly when the congruence test fails')
        if isinstance(inner, tuple) and inner[0] == 'call' and cname(inner[1]) == 'ColinearPoints::new':
            pts = [util.param_index(x) for x in inner[2:5]]
            flag = util.const_val(inner[5])
            cgs = [(g, _collinear_guard(g, v)) for g, v in g2 if _collinear_guard(g, v) is not None]
            for g_, k_, sw_ in fr.guard_terms(d[1]):
                hg = _helper_guard(prog, g_, k_)
                if hg is not None:
                    cgs.append((hg[0], (hg[1], hg[2])))
            if not cgs:
                ctx.violation('R17.3', 'collinear-error-guard', fr.where(d[1]), fr.path, 'a ColinearPoints error is returned on a path that no collinearity test guards')
                continue
            last = cgs[-1]
            used = sorted({x[1] for x in mir.subterms(last[0], lambda x: x[0] == 'param')})
            want_pts, want_flag = ([1, 2, 3], 1) if used == [1, 2, 3] else ([4, 5, 6], 0)
            ok = last[1][0] is True and pts == want_pts and flag in (want_flag, bool(want_flag)) and used in ([1, 2, 3], [4, 5, 6])
            ctx.check(ok, 'R17.3', 'collinear-%s' % ('source' if used == [1, 2, 3] else 'target'), fr.where(d[1]), fr.path,
                      'the collinearity error must carry the points that were tested and the matching source/target flag', found='tested %s, reported %s source=%s' % (used, pts, flag))
    # congruence body
    cb = prog.bodies[cong[0][0][1]] if cong else None
    seen = set()
    while cb is not None and cb.path not in seen:
        seen.add(cb.path)
        ctx.fn(cb)
        rv = [strip(x[0]) for x in cb.return_values()]
        if len(rv) == 1 and isinstance(rv[0], tuple) and rv[0][0] == 'call' and rv[0][1] in prog.bodies and [util.param_index(x) for x in rv[0][2:9]] == [1, 2, 3, 4, 5, 6, 7]:
            cb = prog.bodies[rv[0][1]]
            continue
        break
    if cb is not None:
        clauses = []
        for t_, d, rb in cb.return_values():
            t_ = strip(util.inline_calls(prog, strip(t_)))
            # `[(side of a, side of b), ..].iter().all(|pair| |d_a - d_b| < tolerance)`: one clause per element of the literal array
            if isinstance(t_, tuple) and t_[0] == 'call' and cname(t_[1]) == 'Iterator::all' and len(t_) == 4:
                base, ad = util.iter_chain(t_[2])
                base = strip(base)
                base = _index_table(base)
                acb, acaps = util.closure_of_term(prog, t_[3])
                arv = acb.return_values() if acb is not None else []
                if isinstance(base, tuple) and base[0] == 'agg' and base[1] == 'array' and all(a in ('iter', 'into_iter', 'copied', 'cloned') for a in ad) and len(arv) == 1:
                    for e in base[2:]:
                        clauses.append(strip(util.peval(prog, util.subst_closure(acb, arv[0][0], list(acaps), [e]))))
                    continue
            if isinstance(t_, tuple) and t_[0] == 'bin':
                clauses.append(t_)
                for g, k, sw in cb.guard_terms(d[1]):
                    g = strip(util.inline_calls(prog, strip(g)))
                    if opw.truth(k) is True and isinstance(g, tuple) and g[0] == 'bin':
                        clauses.append(g)
        pairs = set()
        ok = len(clauses) == 3
        for cl in clauses:
            good = cl[1] == 'Lt' and util.is_param(cl[3], 7)
            lhs = strip(cl[2])
            if good and isinstance(lhs, tuple) and lhs[0] == 'call' and cname(lhs[1]) == 'f64::abs':
                dd = strip(lhs[2])
                if isinstance(dd, tuple) and dd[0] == 'bin' and dd[1] == 'Sub':
                    pa = _norm_pair(dd[2])
                    pb = _norm_pair(dd[3])
                    if pa and pb and pb == tuple(x + 3 for x in pa):
                        pairs.add(pa)
                    else:
                        good = False
                else:
                    good = False
            else:
                good = False
            ok = ok and good
        false_rets = [1 for t_, d, rb in cb.return_values() if util.const_val(strip(t_)) in (0, False)]
        ctx.check(ok and pairs == {(1, 2), (1, 3), (2, 3)}, 'R17.3', 'congruence-body', cb.where(0), cb.path,
                  'all three corresponding distances must agree: |d(a_i,a_j) - d(b_i,b_j)| < tolerance for (1,2),(1,3),(2,3), conjoined',
                  found='clauses=%d pairs=%s' % (len(clauses), sorted(pairs)), detail=str(sorted(pairs)))

    # ---- R17.5 forward_transformed (same rule as R09.2/R09.3 for Frame::forward_transformed)
    ctx.rule('R17.5', 'forward_transformed solves inverse_continuing(frame * forward(qs), previous) on the wrapped robot and returns (solutions, that pose)')
    from . import C09
    C09.forward_transformed(ctx, prog, 'R17.5', 'R17.5')

    # ---- R17.4
    tl = util.find_one(ctx, suffix='frame::Frame::translation')
    rt = strip(tl.return_term())
    ok = False
    if isinstance(rt, tuple) and rt[0] == 'call' and cname(rt[1]).endswith('::from_parts'):
        t = strip(rt[2])
        while isinstance(t, tuple) and t[0] == 'call' and cname(t[1]).split('::')[-1] in ('into', 'from'):
            t = strip(t[2])
        r = strip(rt[3])
        ok = isinstance(t, tuple) and t[0] == 'call' and cname(t[1]).endswith('::sub') and util.is_param(t[2], 2) and util.is_param(t[3], 1) and \
            isinstance(r, tuple) and r[0] == 'call' and cname(r[1]).endswith('::identity')
    if not ok and isinstance(rt, tuple) and rt[0] == 'call' and cname(rt[1]) in ('Into::into', 'From::from') and len(rt) == 3:
        # Translation3::from(q - p).into(): the conversion Translation -> Isometry is the translation with the identity rotation
        conv = [t2 for bi2, t2 in tl.calls() if cname(callee_name(t2)) in ('Into::into', 'From::from') and strip(tl.call_term(t2, (bi2, None))) == rt]
        targs = str(conv[0]['callee'].get('args')) if len(conv) == 1 else ''
        pair = targs.strip('[]').split(', kinematic_traits::na::')
        from_translation = 'Translation<' in targs.split('Isometry<')[0] and 'Isometry<' in targs and 'Isometry<' in tl.local_ty(0)
        t = strip(rt[2])
        while isinstance(t, tuple) and t[0] == 'call' and cname(t[1]).split('::')[-1] in ('into', 'from') and len(t) == 3:
            t = strip(t[2])
        ok = from_translation and isinstance(t, tuple) and t[0] == 'call' and cname(t[1]).endswith('::sub') and util.is_param(t[2], 2) and util.is_param(t[3], 1)
    ctx.check(ok, 'R17.4', 'translation-frame', tl.where(0), tl.path, 'Frame::translation must be (q - p, identity)', found=show(rt, maxdepth=4))


def _index_table(t):
    """a constant `[(usize, usize); N]` evaluated by the compiler (const SIDES: .. = [(0, 1), (0, 2), (1, 2)]) as the literal it stands for"""
    import re
    if isinstance(t, tuple) and t[0] == 'const' and isinstance(t[1], str) and isinstance(t[2], str):
        m = re.match(r'^raw:\[\(usize, usize\); (\d+)\]$', t[1])
        if m and len(t[2]) == int(m.group(1)) * 32:
            vals = [int.from_bytes(bytes.fromhex(t[2][k:k + 16]), 'little') for k in range(0, len(t[2]), 16)]
            c = lambda v: ('const', 'usize', v, None)
            return ('agg', 'array') + tuple(('agg', 'tuple', c(vals[2 * k]), c(vals[2 * k + 1])) for k in range(len(vals) // 2))
    return t


def _helper_call(prog, x):
    """the call of a crate-local helper returning Option<..> behind x, through `?` / ok_or_else: (call term, helper body, through `?`)"""
    x = strip(x)
    via_try = False
    while isinstance(x, tuple) and x[0] == 'call' and cname(x[1]) in ('Try::branch', 'Option::ok_or_else', 'Option::ok_or') and len(x) >= 3:
        via_try = via_try or cname(x[1]) == 'Try::branch'
        x = strip(x[2])
    if isinstance(x, tuple) and x[0] == 'call' and x[1] in prog.bodies and prog.bodies[x[1]].kind != 'Closure' and 'Option<' in prog.bodies[x[1]].local_ty(0):
        return x, prog.bodies[x[1]], via_try
    return None


def _helper_columns(prog, t):
    """columns of the matrix a helper `fn(..) -> Option<Matrix3>` returns as Some(from_columns(&[..])), its parameters replaced by the call's arguments"""
    t = strip(t)
    if not (isinstance(t, tuple) and t[0] == 'fld' and isinstance(strip(t[1]), tuple) and strip(t[1])[0] == 'as'):
        return None
    hc = _helper_call(prog, strip(t[1])[1])
    if hc is None:
        return None
    call, hb, via_try = hc
    somes = [strip(rv) for rv, d, rb in hb.return_values() if isinstance(strip(rv), tuple) and strip(rv)[0] == 'agg' and 'Some' in str(strip(rv)[1])]
    if len(somes) != 1:
        return None
    cols = _columns(somes[0][2])
    if cols is None:
        return None
    return [strip(util.subst_params(c, call[2:])) for c in cols]


def _helper_guard(prog, g, k):
    """(test, collinear on this edge?, threshold) when g is the discriminant of such a helper call: the helper answers None
    exactly on the collinear edge of its own |a x b| test, so its Some edge is that test passed (arguments written in)"""
    g = strip(g)
    if not (isinstance(g, tuple) and g[0] == 'discr'):
        return None
    hc = _helper_call(prog, g[1])
    if hc is None:
        return None
    call, hb, via_try = hc
    nones = [d for rv, d, rb in hb.return_values() if isinstance(strip(rv), tuple) and strip(rv)[0] == 'agg' and 'None' in str(strip(rv)[1]) and d]
    somes = [d for rv, d, rb in hb.return_values() if isinstance(strip(rv), tuple) and strip(rv)[0] == 'agg' and 'Some' in str(strip(rv)[1]) and d]
    if len(nones) != 1 or len(somes) != 1:
        return None
    ncg = [(g2, _collinear_guard(g2, opw.truth(k2))) for g2, k2, sw2 in hb.guard_terms(nones[0][1])]
    scg = [(g2, _collinear_guard(g2, opw.truth(k2))) for g2, k2, sw2 in hb.guard_terms(somes[0][1])]
    ncg = [(g2, c) for g2, c in ncg if c is not None]
    scg = [(g2, c) for g2, c in scg if c is not None]
    if len(ncg) != 1 or len(scg) != 1 or ncg[0][1][0] is not True or scg[0][1][0] is not False:
        return None
    if k not in (0, 1):
        return None
    some_edge = (k == 0) if via_try else (k == 1)          # ControlFlow::Continue = 0; Option::Some = 1
    return strip(util.subst_params(strip(ncg[0][0]), call[2:])), (not some_edge), ncg[0][1][1]


def _rows_transposed(t):
    """[b1, b2, b3] when t is from_rows(&[b1.transpose(), b2.transpose(), b3.transpose()]) == transpose(from_columns(&[b1, b2, b3]))"""
    t = strip(t)
    if isinstance(t, tuple) and t[0] == 'call' and cname(t[1]).endswith('::from_rows'):
        a = strip(t[2])
        while isinstance(a, tuple) and a[0] == 'cast':
            a = strip(a[1])
        if isinstance(a, tuple) and a[0] == 'agg' and a[1] == 'array' and len(a) == 5:
            rows = [strip(x) for x in a[2:]]
            if all(isinstance(r, tuple) and r[0] == 'call' and cname(r[1]).endswith('::transpose') and len(r) == 3 for r in rows):
                return [strip(r[2]) for r in rows]
    return None


def _columns(t):
    t = strip(t)
    if isinstance(t, tuple) and t[0] == 'call' and cname(t[1]).endswith('::from_columns'):
        a = strip(t[2])
        while isinstance(a, tuple) and a[0] == 'cast':
            a = strip(a[1])
        if isinstance(a, tuple) and a[0] == 'agg' and a[1] == 'array' and len(a) == 5:
            return [strip(x) for x in a[2:]]
    return None


def _diff(a, b):
    return None


def _is_diff(t, a, b):
    t = strip(t)
    return isinstance(t, tuple) and t[0] == 'call' and cname(t[1]).endswith('::sub') and util.is_param(t[2], a) and util.is_param(t[3], b)


def _norm_pair(t):
    t = strip(t)
    if isinstance(t, tuple) and t[0] == 'call' and cname(t[1]).endswith('::norm'):
        s = strip(t[2])
        if isinstance(s, tuple) and s[0] == 'call' and cname(s[1]).endswith('::sub'):
            a, b = util.param_index(s[2]), util.param_index(s[3])
            if a and b:
                return tuple(sorted((a, b)))
    return None
