"""C06 - 5-DOF inverse kinematics keeps the tool point and axis exact and J6 as requested."""
from .. import algebra, mir, util, opw
from ..mir import cname, strip, callee_name, show

EXPLANATION = ('Decided from MIR: (R06.1) sibling agreement: the candidate table theta1..theta5 of the 5-DOF solver has, row by row, the same '
               'value numbers as the first five columns of the 6-DOF solver (terms compared after canonicalisation, not text); (R06.2) J6 '
               'pass-through: slot 5 of every candidate is the j6 argument, no later loop of the solver writes slot 5, and the entry points '
               'pass their own j6 / previous[5] / the constant 0.0; (R06.3) the 5-DOF candidates are gated by the position-only check with '
               'DISTANCE_TOLERANCE and not by the full-pose check; (R06.4) a robot declared 5-DOF is routed by inverse / inverse_continuing to '
               'the 5-DOF entry points (J6 = 0 for plain inverse); (R06.5) the YAML and URDF loaders suppress the J6 sign exactly on the '
               'dof == 5 edge; (R02.6) the 5-DOF solver has no early exit (every returned value is the vector of verified candidates).  Tool-axis agreement and membership of the originating J1..J5 are numerical and not decided.')
NOT_DECIDED = 'tool-axis agreement (follows numerically from the wrist-centre construction), membership of the originating J1..J5'
ASSUMPTIONS = ['the 6-DOF closed form is the reference for theta1..theta5 (C02)']


def theta_table(b):
    th, _ = util.table_locals(b)
    if th is None:
        return None
    t = strip(b.term_local(th))
    if not (isinstance(t, tuple) and t[0] == 'agg' and t[1] == 'array'):
        ur = util.unrolled_rows(b, th)
        if ur is not None:
            t = ('agg', 'array') + tuple(ur)
    if isinstance(t, tuple) and t[0] == 'agg' and t[1] == 'array':
        rows = []
        for r in t[2:]:
            r = strip(r)
            if not (isinstance(r, tuple) and r[0] == 'agg' and r[1] == 'array'):
                return None
            # entries computed by a closure called with a constant branch index, or taken out of `array.map(..)`, are written out
            rows.append([algebra.canon(util.peval(b.prog, x)) for x in r[2:]])
        return rows
    return None


def run(ctx):
    prog = ctx.prog
    ctx.rule('R06.1', 'theta1..theta5 of the 5-DOF solver equal, row by row, the first five columns of the 6-DOF candidate table')
    ctx.rule('R06.2', 'slot 5 of every 5-DOF candidate is the j6 argument and is not rewritten; entry points pass j6 / previous[5] / 0.0')
    ctx.rule('R06.3', '5-DOF candidates are gated by the position-only FK check with DISTANCE_TOLERANCE, not by the full-pose gate')
    ctx.rule('R06.4', 'dof == 5 routes inverse -> inverse_5dof(pose, 0.0) and inverse_continuing -> inverse_continuing_5dof(pose, prev)')
    ctx.rule('R06.5', 'loaders set sign_corrections[5] = 0 exactly on the dof == 5 edge')
    methods = opw.opw_methods(prog)
    six, five = opw.intern_solvers(prog)
    ctx.require(six is not None and five is not None, 'internal solvers')
    ctx.fn(six)
    ctx.fn(five)
    t6, t5 = theta_table(six), theta_table(five)
    ctx.require(t6 is not None and t5 is not None and len(t6) == 8 and len(t5) == 8, 'candidate tables `theta` (8 rows) of both solvers')
    from . import C02
    ring0 = algebra.Ring()
    n = 0
    for r in range(8):
        for c in range(5):
            n += 1
            ok = C02.same_mod_2pi(ring0, t6[r][c], t5[r][c])
            ctx.check(ok, 'R06.1', 'theta[%d][%d]' % (r, c), five.where(0), five.path,
                      'the 5-DOF solver computes theta%d of branch %d differently from the 6-DOF solver' % (c + 1, r),
                      found=show(t5[r][c], maxdepth=5), expected=show(t6[r][c], maxdepth=5), detail='equal value numbers')
    ctx.floor('R06.1 cells', n, 40)

    # ---- R06.6 the 5-DOF solver maps its angles back with the inverse of forward's joint map
    ctx.rule('R06.6', 'the 5-DOF solver writes (theta + offsets[i]) * sign[i] for J1..J5: the inverse of forward\'s joint map (same rule as R02.1)')
    C02.check_inverse_map(ctx, five, 5, 'R06.6')
    ctx.rule('R02.6', 'no early exit: every value the 5-DOF solver returns is the vector that collects the verified candidates')
    C02.check_single_exit(ctx, five, 'R02.6')

    # ---- R06.2
    sols = [util.table_locals(five)[1]]
    by_tail = None
    if sols[0] is None:
        # the candidates are not kept in an element-wise rewritten array: slot 6 of everything the solver returns, by symbolic
        # interpretation over all scenarios (finite / not finite, turns high / low, gate passed / failed)
        by_tail = opw.tail_verdict(ctx, five, True, ('slot5',))
    ctx.require(sols[0] is not None or by_tail is not None, 'candidate array (element-wise rewritten [[f64;6];8]) in the 5-DOF solver')
    writes5 = []
    other_ranges = []
    for i, j, st in five.stmts():
        lhs = st['lhs']
        if lhs['local'] == sols[0] and len(lhs['proj']) == 2:
            e = lhs['proj'][1]
            it = five.term_local(e['local'], (i, j)) if e['k'] == 'index' else ('const', 'usize', e.get('off'), None)
            c = util.const_val(it)
            if c is not None:
                writes5.append((c, i, j, strip(five.rv_term(st['rv'], (i, j)))))
            else:
                src = util.loop_source(it)
                r = util.range_of(src) if src is not None else None
                other_ranges.append((util.const_val(r[0]), util.const_val(r[1])) if r else None)
    # a mutable borrow of the candidate array (or of one row) handed to a helper can rewrite slot 5 as well: the angle loops
    # of the 5-DOF solver stop at slot 4 precisely so that J6 is delivered verbatim
    lent = []
    for i, j, st in five.stmts():
        rv = st['rv']
        if rv['k'] == 'ref' and rv.get('mut') and rv['place']['local'] == sols[0]:
            users = [cname(callee_name(t)) for bi, t in five.calls() if any(a.get('k') in ('copy', 'move') and not a['place']['proj'] and a['place']['local'] == st['lhs']['local'] for a in t['args'])]
            lent.append((i, j, users))
    if lent and by_tail is None:
        # what a borrower does to the rows is decided, when the solver can be run symbolically, by what comes out: slot 6 of every
        # returned candidate over all scenarios must still be the caller's value
        lent_tail = opw.tail_verdict(ctx, five, True, ('slot5',))
        if lent_tail is not None and lent_tail[0]:
            for i, j, users in lent:
                ctx.ok('R06.2', 'slot5/lent-to-%s' % (users[0].split('::')[-1] if users else 'unknown'), five.where(i, j),
                       'the rows are lent mutably, and slot 6 of every returned candidate is still the caller\'s J6 in every scenario of the symbolic run')
            lent = []
    for i, j, users in lent:
        ctx.violation('R06.2', 'slot5/lent-to-%s' % (users[0].split('::')[-1] if users else 'unknown'), five.where(i, j), five.path,
                      'the candidate row is lent mutably to %s: whatever it does to the six slots also happens to the caller\'s J6' % (users or ['an unknown user']), found=str(users))
    slot5 = [w for w in writes5 if w[0] == 5]
    ok = len(slot5) == 1 and util.is_param(slot5[0][3], 3) and all(r is not None and r[1] is not None and r[1] <= 5 for r in other_ranges) and \
        not [w for w in writes5 if w[0] != 5 and False]
    # the slot-5 write happens for every row: it sits in the loop over 0..len(sols)
    if ok:
        i, j = slot5[0][1], slot5[0][2]
        row = five.term_local(five.blocks[i]['stmts'][j]['lhs']['proj'][0]['local'], (i, j)) if five.blocks[i]['stmts'][j]['lhs']['proj'][0]['k'] == 'index' else None
        src = util.loop_source(row) if row is not None else None
        r = util.range_of(src) if src is not None else None
        ok = r is not None and util.const_val(r[0]) == 0
    if not ok and by_tail is None and not slot5 and all(r is not None and r[1] is not None and r[1] <= 5 for r in other_ranges):
        # no `sols[si][5] = j6` statement of its own (the rows are built whole, `theta.map(|t| [.., j6])`): by the symbolic run
        by_tail = opw.tail_verdict(ctx, five, True, ('slot5',))
    if by_tail is not None:
        ok = by_tail[0]
    ctx.check(ok, 'R06.2', 'slot5', five.where(slot5[0][1], slot5[0][2]) if slot5 else five.where(0), five.path,
              'J6 of every 5-DOF candidate must be the caller\'s value, written once per row and never touched by the angle loops' + (': ' + by_tail[1] if by_tail else ''),
              found='slot-5 writes: %s; loop ranges of other writes: %s' % ([show(w[3], maxdepth=3) for w in slot5], other_ranges),
              detail='sols[si][5] = j6; other loops %s' % other_ranges)
    # call sites of the 5-DOF solver
    for m, want in (('inverse_5dof', 'param3'), ('inverse_continuing_5dof', 'prev5')):
        b = methods[m]
        ctx.fn(b)
        sites = [(bi, t) for bi, t in b.calls() if t['callee'].get('resolved') == five.path]
        ok = len(sites) == 1
        found = None
        if ok:
            bi, t = sites[0]
            a = strip(b.op_term(t['args'][2], (bi, None)))
            found = show(a, maxdepth=3)
            if want == 'param3':
                ok = util.is_param(a, 3)
            else:
                ok = isinstance(a, tuple) and a[0] == 'idx' and util.const_val(a[2]) == 5 and util.is_param(a[1], 3)
            ok = ok and util.is_param(b.op_term(t['args'][1], (bi, None)), 2)
        ctx.check(ok, 'R06.2', m + '/j6-source', b.where(sites[0][0]) if sites else b.where(0), b.path,
                  'the J6 handed to the 5-DOF solver must be the caller\'s %s' % ('j6 argument' if want == 'param3' else 'previous[5]'), found=found, detail=found or '')

    # ---- R06.3 (instances of R01.1 for the 5-DOF solver)
    from .C01 import gate_roles
    full, xyz = gate_roles(ctx)
    pushes = [(bi, t) for bi, t in five.calls() if cname(callee_name(t)) == 'Vec::push']
    if not pushes:
        # no push guarded by a gate helper (the candidates are filtered by an iterator chain): the gate as the symbolic run sees it
        f5, tail5 = opw.solver_tail(ctx, five, True)
        ctx.require(f5 is not None, 'the gate of the 5-DOF solver (neither a guarded push nor interpretable: %s)' % getattr(tail5, 'error', None))
        cl = tail5.gate_clauses()
        kinds = sorted({k for k, op, tol in cl})
        gate_hit = [m for k, m in f5 if k in ('gate', 'gate-fresh')]
        ctx.check(kinds == ['position'] and not gate_hit, 'R06.3', 'gate', five.where(0), five.path,
                  'the 5-DOF candidates must pass the position-only gate (a full-pose gate rejects every answer that only matches the tool point)' +
                  (': ' + gate_hit[0] if gate_hit else ''), found='gate clauses: %s' % kinds)
    for bi, t in pushes:
        gs = [(strip(g), opw.truth(k)) for g, k, sw in five.guard_terms(bi)]
        has_xyz = any(isinstance(g, tuple) and g[0] == 'call' and g[1] in {b.path for b in xyz} and v is True for g, v in gs)
        has_full = any(isinstance(g, tuple) and g[0] == 'call' and g[1] in {b.path for b in full} for g, v in gs)
        if not has_xyz and not has_full:
            # guarded by no gate helper at all: the comparison may be written out at the push - read from the symbolic run
            f5, tail5 = opw.solver_tail(ctx, five, True)
            if f5 is not None:
                kinds = sorted({k for k, op, tol in tail5.gate_clauses()})
                gate_hit = [m for k, m in f5 if k in ('gate', 'gate-fresh')]
                ctx.check(kinds == ['position'] and not gate_hit, 'R06.3', 'gate', five.where(bi), five.path,
                          'the 5-DOF candidates must pass the position-only gate (a full-pose gate rejects every answer that only matches the tool point)' +
                          (': ' + gate_hit[0] if gate_hit else ''), found='gate clauses: %s' % kinds)
                continue
        ctx.check(has_xyz and not has_full, 'R06.3', 'gate', five.where(bi), five.path,
                  'the 5-DOF candidates must pass the position-only gate (a full-pose gate rejects every answer that only matches the tool point)',
                  found='position-only=%s full-pose=%s' % (has_xyz, has_full))

    # ---- R06.4 dispatch
    for m, target, argcheck in (('inverse', 'inverse_5dof', 'zero'), ('inverse_continuing', 'inverse_continuing_5dof', 'prev')):
        b = methods[m]
        ctx.fn(b)
        hit = False
        found = []
        for t, d, rb in b.return_values():
            t = strip(t)
            ev = [util.edge_value(g, k) for g, k, sw in b.guard_terms(d[1])]
            dof5 = [True for e in ev if e is not None and e[1] == 5 and 'dof' in show(e[0], maxdepth=4)]
            if dof5 == [True]:
                found.append(show(t, maxdepth=3))
                if isinstance(t, tuple) and t[0] == 'call' and t[1] == methods[target].path and util.is_param(t[2], 1) and util.is_param(t[3], 2):
                    if argcheck == 'zero':
                        hit = util.const_val(t[4]) == 0.0
                    else:
                        hit = util.is_param(t[4], 3)
        ctx.check(hit, 'R06.4', m, b.where(0), b.path,
                  'a robot declared 5-DOF must answer %s through %s (%s)' % (m, target, 'J6 = 0.0' if argcheck == 'zero' else 'same previous'),
                  found=found, expected='%s(pose, %s)' % (target, '0.0' if argcheck == 'zero' else 'prev'), detail=str(found))

    # ---- R06.5 loaders
    y = [b for b in prog.bodies.values() if b.path.endswith('::from_yaml_file')]
    if ctx.check(len(y) == 1, 'R06.5', 'yaml/exists', '', 'from_yaml_file', 'from_yaml_file not found'):
        b = y[0]
        ctx.fn(b)
        _suppress(ctx, b, 'yaml', lambda s: 'Eq' in s or '==' in s)
    fu = util.find_one(ctx, suffix='urdf::from_urdf')
    u = [util.find_role(ctx, 'URDF parameter mapping helper: fn(HashMap<String, JointData>, ..) -> Result<URDFParameters, String> called by from_urdf',
                        lambda b, sg: 'URDFParameters' in sg[0] and 'Result' in sg[0] and 'HashMap' in sg[1], module='urdf::', called_from=[fu])]
    if True:
        b = u[0]
        ok = False
        for i, j, st in b.stmts():
            lhs = st['lhs']
            names = [e.get('name') for e in lhs['proj'] if e['k'] == 'field']
            if 'sign_corrections' in names and util.const_val(b.rv_term(st['rv'], (i, j))) == 0:
                idx = [e for e in lhs['proj'] if e['k'] in ('index', 'cindex')]
                iv = util.const_val(b.term_local(idx[0]['local'], (i, j))) if idx and idx[0]['k'] == 'index' else (idx[0]['off'] if idx else None)
                gs = [(show(g, maxdepth=5), opw.truth(k)) for g, k, sw in b.guard_terms(i)]
                six = [v for s, v in gs if 'contains_key' in s]
                dofs = []
                for i2, j2, st2 in b.stmts():
                    if [e.get('name') for e in st2['lhs']['proj'] if e['k'] == 'field'] == ['dof']:
                        for vt, vb in util.value_cases(b, i2, j2, st2):
                            if util.const_val(vt) == 5:
                                g2 = [opw.truth(k) for g, k, sw in b.guard_terms(vb) if 'contains_key' in show(g, maxdepth=5)]
                                if g2 == [False]:
                                    dofs.append((i2, j2))
                ok = iv == 5 and six == [False] and len(dofs) == 1
        ctx.check(ok, 'R06.5', 'urdf/suppress-j6', b.where(0), b.path, 'sign_corrections[5] = 0 and dof = 5 must be set together, exactly when joint 6 is absent')
    # "J6 as requested" and "tool point exact" are statements about the whole wrapper stack too: every wrapper must hand the
    # 5-DOF entry points to the same entry point of its inner robot with j6 / previous unchanged - the delegation and
    # pass-through clauses of C09 are re-checked here
    from . import C09
    C09.run(ctx)


def _suppress(ctx, b, key, pred):
    ok = False
    found = None
    for i, j, st in b.stmts():
        lhs = st['lhs']
        if lhs['proj'] and lhs['proj'][-1]['k'] in ('index', 'cindex') and 'i8; 6]' in b.local_ty(lhs['local']):
            e = lhs['proj'][-1]
            iv = util.const_val(b.term_local(e['local'], (i, j))) if e['k'] == 'index' else e['off']
            val = util.const_val(b.rv_term(st['rv'], (i, j)))
            gs = [(strip(g), opw.truth(k)) for g, k, sw in b.guard_terms(i)]
            ev = [util.edge_value(g, k) for g, k, sw in b.guard_terms(i)]
            cond = [True for e in ev if e is not None and e[1] == 5 and 'dof' in show(e[0], maxdepth=8).lower()]
            found = 'sign[%s] = %s under %s' % (iv, val, [show(g, maxdepth=4) for g, v in gs][-2:])
            if iv == 5 and val == 0 and cond == [True]:
                ok = True
    if not ok:
        ok2, found2 = _suppress_by_value(ctx, b)
        if ok2 is not None:
            ok, found = ok2, found2
    ctx.check(ok, 'R06.5', key + '/suppress-j6', b.where(0), b.path, 'sign_corrections[5] must be set to 0 exactly on the dof == 5 edge', found=found, detail=found or '')


def _suppress_by_value(ctx, b):
    """the sign array is not patched in place but rebuilt (`[s1, s2, s3, s4, s5, if dof == 5 { 0 } else { s6 }]`, a match with
    an array pattern ..): the value stored in the returned Parameters is resolved for dof == 5 and for dof != 5."""
    prog = ctx.prog
    for i, j, st in b.stmts():
        rv = st['rv']
        if not (rv['k'] == 'agg' and isinstance(rv.get('kind'), dict) and (rv['kind'].get('adt') or '').endswith('::Parameters')):
            continue
        fields = rv['kind'].get('fields') or []
        if 'sign_corrections' not in fields or 'dof' not in fields:
            continue
        t = b.rv_term(rv, (i, j))
        sc = t[2 + fields.index('sign_corrections')]
        dof = strip(t[2 + fields.index('dof')])
        cond = None
        for c in util.branch_conditions(b, sc):
            ev = util.edge_value(c, True)
            if ev is not None and ev[1] == 5 and strip(ev[0]) in (dof, strip(dof[1]) if dof[0] == 'cast' else dof):
                cond = c
        if cond is None:
            return None, None
        t5 = strip(util.peval(prog, util.resolve_case(b, sc, {cond: True})))
        t6 = strip(util.peval(prog, util.resolve_case(b, sc, {cond: False})))

        def elems(x):
            if isinstance(x, tuple) and x[0] == 'agg' and x[1] == 'array' and len(x) == 8:
                return [strip(e) for e in x[2:]]
            return None
        e5 = elems(t5)
        if e5 is None or util.const_val(e5[5]) != 0:
            return False, 'for dof == 5 the stored signs are %s' % show(t5, maxdepth=4)
        bases = set()
        for k in range(5):
            if not (isinstance(e5[k], tuple) and e5[k][0] == 'idx' and util.const_val(e5[k][2]) == k):
                return False, 'for dof == 5 entry %d is %s' % (k, show(e5[k], maxdepth=4))
            bases.add(strip(e5[k][1]))
        if len(bases) != 1:
            return False, 'entries 1..5 come from different arrays'
        R = next(iter(bases))
        if not mir.contains(R, lambda x: x[0] == 'call'):
            return False, 'entries 1..5 are not read from the file'
        e6 = elems(t6)
        whole = t6 == R or (e6 is not None and all(isinstance(e6[k], tuple) and e6[k][0] == 'idx' and util.const_val(e6[k][2]) == k and strip(e6[k][1]) == R for k in range(6)))
        return whole, 'dof == 5: [r0..r4, 0]; otherwise: %s' % ('as read' if whole else show(t6, maxdepth=4))
    return None, None
