"""C20 - URDF extraction recovers parameters, signs and limits of any OPW-layout robot."""
import re

from .. import census, mir, util, opw
from ..facts import MachineryError
from ..mir import cname, strip, callee_name, show

EXPLANATION = ('Decided from MIR: (R20.1) panic-site census from urdf::from_urdf over the crate-local call graph including functions passed as '
               'values (an error value, never a panic); (R20.2) a joint without <limit> keeps from = to = 0 (no other write on the Ok(None) '
               'edge) and to_robot / constraints hand from/to unchanged to Constraints::new (with R07.2a: unconstrained); (R20.3) duplicates: a '
               'joint is inserted only when its name is absent, skipped only on the equal edge of the derived PartialEq, and an unequal '
               'duplicate returns Err; (R20.4) index/arm agreement: sign_corrections[j], from[j], to[j] come from names[j] for j in 0..6, arm n '
               'of the joint-number match writes the parameter set {1:c1, 2:a1, 3:{c2,b}, 4:{a2 (negated), c3}, 5:c3, 6:c4}, a missing joint is '
               'an Err; (R20.5) joint collection recurses unconditionally into every child element, so the result is a function of the set of '
               'joints (nesting, order and identical copies do not matter); (R20.6) the xacro angle pattern: the capture group handed to the '
               'float parser spans the whole decimal number (regex constant evaluated against a specification table of tokens); (R20.9) component '
               'table: on joint 3 c2 is read from the x/z components of the origin and b from y, on joint 4 a2 from z and c3 from x/y, the other '
               'lengths from the single non-zero component, and the two-component choice helper is interpreted on point values; (R20.10) every '
               'Parameters value built from a URDFParameters (to_robot, parameters) takes each field from the field of the same name and the '
               'offsets from the caller, the sorting weight of the caller reaches Constraints::new (R20.2); (R20.11) an explicit joint-name list is handed on '
               'unchanged to every stage of the URDF module that takes one; (R20.12) the limits reader, interpreted with attribute lookup and angle parser '
               'scripted, returns (angle of lower, angle of upper) and an error value when one is missing, and the origin reader files the numbers of xyz under x, y, z in order.  That the '
               'origin-to-parameter heuristics recover every OPW-layout robot is a behavioural claim over generated documents and not decided.')
NOT_DECIDED = 'that the heuristics recover the parameters of every OPW-layout robot; name-decoration handling; xacro syntax coverage'
ASSUMPTIONS = ['sxd_document parses or rejects arbitrary input without panicking', 'Rust regex and Python re agree on the syntax subset used by the angle pattern']

ARMS = {1: {'c1'}, 2: {'a1'}, 3: {'c2', 'b'}, 4: {'a2', 'c3'}, 5: {'c3'}, 6: {'c4'}}
REGEX_SPEC = [('${radians(-137.5)}', '-137.5'), ('${radians(90)}', '90'), ('${radians(0.25)}', '0.25'), ('${radians(-5)}', '-5'),
              ('1.5708', None), ('${radians(abc)}', None), ('${radians(1.)}', None), ('x${radians(3)}', None)]


def _reads_limits(g, readers):
    """the branch condition inspects the outcome of reading a <limit> element (a call or function reference of the limits reader)"""
    return mir.contains(g, lambda x: (x[0] == 'call' and (x[1] in readers or cname(x[1]) == 'Option::transpose')) or
                        (x[0] == 'const' and x[1] == 'fn' and x[2] in readers))


def limits_defaults(ctx, fu):
    """R20.2: how limits get from the URDF into a Constraints value (also re-checked by C07)"""
    prog = ctx.prog
    cj = util.find_role(ctx, 'recursive joint collector: fn(Element, &mut Vec<JointData>, ..)',
                        lambda b, sg: len(sg) >= 3 and 'Element' in sg[1] and 'Vec<urdf::JointData>' in sg[2].replace('std::vec::', ''), module='urdf::', called_from=[fu])
    jd = None
    for i, j, st in cj.stmts():
        if st['rv']['k'] == 'agg' and 'JointData' in str(st['rv']['kind']):
            jd = (i, j, st)
    ctx.require(jd is not None, 'JointData aggregate in collect_joints')
    t = cj.rv_term(jd[2]['rv'], (jd[0], jd[1]))
    fields = dict(zip([f['name'] for f in prog.adts['urdf::JointData']['variants'][0]['fields']], t[2:]))
    init_ok = util.const_val(fields['from']) == 0.0 and util.const_val(fields['to']) == 0.0
    loc = jd[2]['lhs']['local']
    wr = []
    for i, j, st in cj.stmts():
        lhs = st['lhs']
        if lhs['local'] == loc and lhs['proj'] and lhs['proj'][0].get('name') in ('from', 'to'):
            gs = [(g, k) for g, k, sw in cj.guard_terms(i)]
            wr.append((lhs['proj'][0]['name'], gs))
    limit_readers = {p for p, b2 in prog.bodies.items() if p.startswith('urdf::') and b2.kind != 'Closure' and '(f64, f64)' in b2.local_ty(0)}
    guarded = all(any(_reads_limits(g, limit_readers) for g, k in gs) for nme, gs in wr)
    by_value = None
    if not (init_ok and guarded and len(wr) == 2) and not wr:
        by_value = _limits_by_value(prog, cj, fields, limit_readers)
    if by_value is not None:
        ctx.check(by_value[0], 'R20.2', 'no-limit-default', cj.where(jd[0], jd[1]), cj.path,
                  'a joint without <limit> must get from = to = 0, a joint with one the pair that was read: ' + by_value[1], found=by_value[1], detail='by value')
    else:
        ctx.check(init_ok and guarded and len(wr) == 2, 'R20.2', 'no-limit-default', cj.where(jd[0], jd[1]), cj.path,
                  'a joint without <limit> must keep from = to = 0 (writes to from/to only when limits were read)', found='init=%s writes=%d guarded=%s' % (init_ok, len(wr), guarded))
    for name in ('to_robot', 'constraints'):
        b = util.find_one(ctx, suffix='urdf::URDFParameters::' + name)
        cs = [(bi, t2) for bi, t2 in b.calls() if cname(callee_name(t2)) == 'Constraints::new']
        ok = len(cs) == 1
        if not cs and name == 'to_robot':
            # built through the sibling `self.constraints(weight)`, which is checked in its own right
            sib = [(bi, t2) for bi, t2 in b.calls() if (t2['callee'].get('resolved') or '').endswith('urdf::URDFParameters::constraints')]
            if len(sib) == 1 and util.is_param(b.op_term(sib[0][1]['args'][0], (sib[0][0], None)), 1):
                ctx.ok('R20.2', name + '/limits', b.where(sib[0][0]), 'through self.constraints(..)')
                continue
        if ok:
            bi, t2 = cs[0]
            a = [strip(b.op_term(x, (bi, None))) for x in t2['args']]
            ok = all(isinstance(a[k], tuple) and a[k][0] == 'fld' and a[k][2] == nm and util.is_param(a[k][1], 1) for k, nm in ((0, 'from'), (1, 'to')))
            # .. and the sorting weight is the caller's
            wpar = [k for k in range(1, b.arg_count + 1) if b.local_ty(k) == 'f64']
            ctx.check(len(a) >= 3 and len(wpar) == 1 and util.is_param(a[2], wpar[0]), 'R20.2', name + '/weight', b.where(bi), b.path,
                      'the sorting weight given by the caller must reach Constraints::new', found=show(a[2], maxdepth=3) if len(a) >= 3 else None)
        ctx.check(ok, 'R20.2', name + '/limits', b.where(0), b.path, 'the extracted from/to must reach Constraints::new unchanged and in this order')

    # the "unconstrained" meaning of from == to is R07.2a; re-checked here because C20 relies on it
    from . import C07
    cc, ib = C07.roles(ctx)
    from ..absint import Iv
    for x in (0.0,):
        outs = C07.interp_centers(prog, cc, [(x, x)] * 6, [(x, x)] * 6)
        res = set()
        for o in outs:
            res |= C07.interp_inside(prog, ib, Iv(-13.0, 13.0), o.ret[0][0], o.ret[1][0])
        ctx.check(res == {True}, 'R20.2', 'from==to-accepts-all', ib.where(0), ib.path,
                  'a joint without limits (from = to = 0) must accept every angle, but the membership test answers %s' % sorted(map(str, res)), found=sorted(map(str, res)))

    return cj


def _limits_by_value(prog, cj, fields, limit_readers):
    """the limits are not patched into a JointData that starts at 0/0 but computed as one value
    (`let (from, to) = if let Some(l) = limit { get_limits(l).unwrap_or_else(|e| {..; NO_LIMITS}) } else { NO_LIMITS }`):
    every case of `from` / `to` must be the constant 0 or component 0 / 1 of what the limits reader returned."""
    import itertools

    def consts_in(t):
        def f(x):
            if not isinstance(x, tuple):
                return x
            if x[0] == 'const' and len(x) >= 4 and isinstance(x[2], str) and x[2] in prog.consts and x[1] != 'str':
                return f(prog.const_term(x[2]))
            y = (x[0],) + tuple(f(z) if isinstance(z, tuple) else z for z in x[1:])
            if y[0] == 'fld' and isinstance(strip(y[1]), tuple) and strip(y[1])[0] == 'agg' and str(y[2]).isdigit() and int(y[2]) < len(strip(y[1])) - 2:
                return strip(y[1])[2 + int(y[2])]
            return y
        return f(t)

    def classify(r, k):
        r = strip(consts_in(r))
        if util.const_val(r) == 0.0:
            return 'zero'
        if isinstance(r, tuple) and r[0] == 'fld' and str(r[2]) == str(k):
            u = strip(r[1])
            if isinstance(u, tuple) and u[0] == 'call' and cname(u[1]) in ('Result::unwrap_or_else', 'Result::unwrap_or', 'Result::unwrap_or_default') and len(u) >= 3:
                src = strip(u[2])
                if isinstance(src, tuple) and src[0] == 'call' and src[1] in limit_readers:
                    if cname(u[1]) == 'Result::unwrap_or_default':
                        return 'read'
                    fb = u[3]
                    cb, caps = util.closure_of_term(prog, fb)
                    if cb is not None:
                        crv = [strip(consts_in(x[0])) for x in cb.return_values()]
                        if all(isinstance(c, tuple) and c[0] == 'agg' and len(c) == 4 and util.const_val(c[2]) == 0.0 and util.const_val(c[3]) == 0.0 for c in crv):
                            return 'read'
                    else:
                        c = strip(consts_in(fb))
                        if isinstance(c, tuple) and c[0] == 'agg' and len(c) == 4 and util.const_val(c[2]) == 0.0 and util.const_val(c[3]) == 0.0:
                            return 'read'
            while isinstance(u, tuple) and u[0] in ('fld', 'as'):
                u = strip(u[1])
            if isinstance(u, tuple) and u[0] == 'call' and (u[1] in limit_readers or (cname(u[1]) in ('Option::transpose', 'Option::map') and _reads_limits(u, limit_readers))):
                return 'read'
        return 'other: ' + show(r, maxdepth=4)
    seen = {}
    for nm, k in (('from', 0), ('to', 1)):
        x = fields[nm]
        conds = util.branch_conditions(cj, x)[:4]
        cls = set()
        for combo in itertools.product((True, False), repeat=len(conds)):
            r = util.peval(prog, util.resolve_case(cj, x, dict(zip(conds, combo))))
            cls.add(classify(r, k))
        seen[nm] = cls
    bad = sorted(c for cs in seen.values() for c in cs if c.startswith('other'))
    ok = not bad and all(cs == {'zero', 'read'} for cs in seen.values())
    return ok, 'from: %s; to: %s' % (sorted(seen['from']), sorted(seen['to']))


def angle_syntax(ctx, fu):
    """R20.6: the xacro angle syntax of limits (also re-checked by C07)"""
    prog = ctx.prog
    pa = util.find_role(ctx, 'angle parser: fn(&str) -> Result<f64, ParameterError> constructing a Regex',
                        lambda b, sg: sg[1:] == ['&str'] and 'Result<f64' in sg[0] and any(cname(callee_name(t)) == 'Regex::new' for _, t in b.calls()), module='urdf::', called_from=[fu])
    pats = []
    grp = None
    for bi, t2 in pa.calls():
        n2 = cname(callee_name(t2))
        if n2 == 'Regex::new':
            a = strip(pa.op_term(t2['args'][0], (bi, None)))
            if isinstance(a, tuple) and a[0] == 'const' and a[1] == 'str':
                pats.append(a[2])
        if n2 == 'Captures::get':
            grp = util.const_val(pa.op_term(t2['args'][1], (bi, None)))
    if ctx.check(len(pats) == 1 and isinstance(grp, int), 'R20.6', 'pattern-site', pa.where(0), pa.path, 'angle pattern / capture index not found', found='%s group %s' % (pats, grp)):
        try:
            rx = re.compile(pats[0])
        except re.error as e:
            rx = None
        for tok, want in REGEX_SPEC:
            got = None
            if rx is not None:
                m = rx.match(tok)
                if m and m.end() == len(tok):
                    try:
                        got = m.group(grp)
                    except IndexError:
                        got = '<no such group>'
            ctx.check(got == want, 'R20.6', 'token %s' % tok, pa.where(0), pa.path,
                      'for the limit `%s` the number handed to the float parser is %r, expected %r' % (tok, got, want), found=repr(got), expected=repr(want), detail=repr(got))
        conv = any(cname(callee_name(t2)) == 'f64::to_radians' for bi, t2 in pa.calls()) or any(cname(callee_name(t2)) == 'f64::to_radians' for c in util.closure_bodies(prog, pa.path) for bi, t2 in c.calls())
        # .. or handed to a combinator as a function item: `.map(f64::to_radians)` on the parsed number
        for bi, t2 in pa.calls():
            if cname(callee_name(t2)) in ('Result::map', 'Option::map') and len(t2['args']) == 2:
                f = strip(pa.op_term(t2['args'][1], (bi, None)))
                if isinstance(f, tuple) and f[0] == 'const' and f[1] == 'fn' and cname(f[2]) == 'f64::to_radians' and 'parse' in show(pa.op_term(t2['args'][0], (bi, None)), maxdepth=4):
                    conv = True
        ctx.check(conv, 'R20.6', 'degrees-to-radians', pa.where(0), pa.path, 'a ${radians(deg)} limit must be converted to radians')



NAME_SPEC = [('joint1', 'joint1'), ('JOINT2', 'joint2'), ('leftJOINT_2!', 'joint2'), ('${prefix}joint_a3', 'joint3'), ('kuka_arm_joint_a1', 'joint1'),
             ('robot_joint_4', 'joint4'), ('station2_joint_a5', 'joint5'), ('joint_6', 'joint6'), ('${prefix}joint_5', 'joint5')]


def joint_names(ctx, cj):
    """R20.8: automatic joint naming.  The simplifier called by the joint collector (a pipeline of regex / str library calls with
    constant patterns) is read from its MIR terms and evaluated, with the library calls modelled, on a table of names: prefixes
    (literal or ${macro}), case, separators and a decoration between `joint` and the digit must all reduce to joint<digit>."""
    from .. import strmodel
    prog = ctx.prog
    ctx.rule('R20.8', 'the joint-name simplifier maps decorated names (prefixes, ${macro} prefixes, case, separators, a letter between `joint` and the digit) to joint<digit>')
    cands = set()
    for bi, t in cj.calls():
        p = t['callee'].get('resolved')
        b = prog.bodies.get(p)
        if b is not None and b.kind != 'Closure' and b.arg_count == 1 and 'str' in b.local_ty(1) and 'String' in b.local_ty(0):
            cands.add(p)
    ctx.require(len(cands) == 1, 'the joint-name simplifier fn(&str) -> String called by the joint collector')
    path = cands.pop()
    ctx.fn(prog.bodies[path])
    for tok, want in NAME_SPEC:
        try:
            got = strmodel.Eval(prog).call_fn(path, [tok])
        except strmodel.Unsupported as e:
            raise MachineryError('joint-name simplifier could not be evaluated on %r: %s' % (tok, e))
        ctx.check(got == want, 'R20.8', 'name %s' % tok, prog.bodies[path].where(0), path,
                  'the joint named `%s` is looked up as %r, expected %r (the robot is then not recognised, or the wrong joint is taken)' % (tok, got, want),
                  found=repr(got), expected=repr(want), detail=repr(got))


def run(ctx):
    prog = ctx.prog
    ctx.rule('R20.1', 'panic-site census from urdf::from_urdf (bounds, unwrap, index, slicing, regex construction)')
    ctx.rule('R20.2', 'no <limit> -> from = to = 0 untouched; to_robot/constraints pass from/to unchanged to Constraints::new')
    ctx.rule('R20.3', 'insert when absent, skip only when equal, Err when a different joint has the same name')
    ctx.rule('R20.4', 'signs/limits of slot j come from names[j]; arm n writes its own parameter set; a missing joint is an error value')
    ctx.rule('R20.5', 'joint collection recurses unconditionally into every child element')
    ctx.rule('R20.6', 'the capture group parsed as the xacro angle spans the whole decimal number')
    fu = util.find_one(ctx, suffix='urdf::from_urdf')
    n, nd, na = census.census(ctx, 'R20.1', [fu.path])
    ctx.extra['census'] = {'sites': n, 'discharged_by_bounds_or_guards': nd, 'allow_listed': na}
    ctx.floor('R20.1 census sites', n, 15)
    # precondition of the allow-listed slice: every caller of remove_before_joint passes a to_lowercase() result
    rb = [b for p, b in prog.bodies.items() if p.startswith('simplify_joint_name::') and b.kind == 'Fn' and any(cname(callee_name(t)) == 'str::find' for _, t in b.calls())]
    if rb:
        okc = True
        nsite = 0
        for b in prog.bodies.values():
            for bi, t in b.calls():
                if t['callee'].get('resolved') == rb[0].path:
                    nsite += 1
                    a = strip(b.op_term(t['args'][0], (bi, None)))
                    okc = okc and isinstance(a, tuple) and a[0] == 'call' and cname(a[1]) == 'str::to_lowercase'
        ctx.check(okc and nsite >= 1, 'R20.1', 'slice-precondition', rb[0].where(0), rb[0].path, 'remove_before_joint must only be called with an already lower-cased string (its s[pos..] slice relies on it)')

    cj = limits_defaults(ctx, fu)

    # ---- R20.3
    cm = util.find_role(ctx, 'name map builder: fn(Vec<JointData>) -> Result<HashMap<String, JointData>, ..>',
                        lambda b, sg: 'HashMap' in sg[0] and 'JointData' in sg[0] and len(sg) == 2 and 'Vec<urdf::JointData>' in sg[1].replace('std::vec::', ''), module='urdf::', called_from=[fu])
    ins = [(bi, t2) for bi, t2 in cm.calls() if cname(callee_name(t2)) in ('HashMap::insert', 'VacantEntry::insert', 'VacantEntry::insert_entry')]
    ok_ins = False
    for bi, t2 in ins:
        gs = [(strip(g), k) for g, k, sw in cm.guard_terms(bi)]
        if cname(callee_name(t2)) == 'HashMap::insert':
            ok_ins = any(isinstance(g, tuple) and g[0] == 'discr' and 'HashMap::get' in show(g, maxdepth=3) and k in (0, 'otherwise') for g, k in gs)
        else:
            # the entry API: the slot exists only on the Vacant edge of `map.entry(name)`, and the name is the joint's own
            key_ok = any(isinstance(g, tuple) and g[0] == 'discr' and isinstance(strip(g[1]), tuple) and strip(g[1])[0] == 'call' and
                         cname(strip(g[1])[1]) == 'HashMap::entry' and mir.contains(strip(g[1])[3], lambda y: y[0] == 'fld' and y[2] == 'name') for g, k in gs)
            val = strip(cm.op_term(t2['args'][1], (bi, None)))
            ok_ins = key_ok and util.loop_source(val) is not None
    errs = [(tt, d) for tt, d, rb2 in cm.return_values() if isinstance(strip(tt), tuple) and strip(tt)[0] == 'agg' and 'Err' in strip(tt)[1]]
    ok_err = False
    for tt, d in errs:
        gs = [(strip(g), opw.truth(k)) for g, k, sw in cm.guard_terms(d[1])]
        for g, v in gs:
            if isinstance(g, tuple) and g[0] == 'call' and cname(g[1]).split('::')[-1] in ('ne', 'eq'):
                want = True if cname(g[1]).endswith('::ne') else False
                ok_err = ok_err or v is want
    # the comparison must be between the whole stored entry and the whole new joint (derived equality over every field)
    whole = False
    cmp_found = None
    for bi, t2 in cm.calls():
        n2 = cname(callee_name(t2)).split('::')[-1]
        if n2 in ('ne', 'eq'):
            gen = str(t2['callee'].get('args', ''))
            a = [cm.op_term(x, (bi, None)) for x in t2['args']]
            cmp_found = '%s on %s: %s vs %s' % (n2, gen, show(a[0], maxdepth=4), show(a[1], maxdepth=4))
            a0, a1 = strip(a[0]), strip(a[1])
            def stored(x):
                if isinstance(x, tuple) and x[0] == 'fld' and x[2] == '0' and 'HashMap::get' in show(x, maxdepth=4):
                    return True
                return isinstance(x, tuple) and x[0] == 'call' and cname(x[1]) == 'OccupiedEntry::get' and 'HashMap::entry' in show(x, maxdepth=6)
            lhs_entry = stored(a0)
            rhs_joint = util.loop_source(a1) is not None
            swapped = stored(a1) and util.loop_source(a0) is not None
            whole = gen.count('urdf::JointData') == 2 and ((lhs_entry and rhs_joint) or swapped)
    eqb = [b for p2, b in prog.bodies.items() if p2 == '<urdf::JointData as std::cmp::PartialEq>::eq']
    allf = False
    if len(eqb) == 1:
        ctx.fn(eqb[0])
        used = set()
        for blk in eqb[0].blocks:
            txt = str(blk)
            for fdef in prog.adts['urdf::JointData']['variants'][0]['fields']:
                if "'name': '%s'" % fdef['name'] in txt:
                    used.add(fdef['name'])
        allf = used == {fdef['name'] for fdef in prog.adts['urdf::JointData']['variants'][0]['fields']}
    ctx.check(whole and allf, 'R20.3', 'duplicates/whole-joint', cm.where(0), cm.path,
              'a second joint of the same name must be compared with the stored one as a whole (name, origin, axis sign and limits)',
              found='%s; equality covers all fields=%s' % (cmp_found, allf), detail=str(cmp_found))
    ctx.check(len(ins) == 1 and ok_ins and ok_err, 'R20.3', 'duplicates', cm.where(0), cm.path,
              'a joint must be inserted when its name is absent, skipped only when an identical one exists, and rejected (Err) when a different one has the same name',
              found='insert-on-absent=%s err-on-different=%s' % (ok_ins, ok_err))

    # ---- R20.4
    pp = util.find_role(ctx, 'URDF parameter mapping helper: fn(HashMap<String, JointData>, ..) -> Result<URDFParameters, String> called by from_urdf',
                        lambda b, sg: 'URDFParameters' in sg[0] and 'Result' in sg[0] and 'HashMap' in sg[1], module='urdf::', called_from=[fu])
    opl = [l for l in util.locals_of_type(pp, lambda t: t == 'urdf::URDFParameters') if l in pp.names]
    ctx.require(len(opl) == 1, 'the URDFParameters value being populated')
    arms = {}
    slots_ok = {}
    for i, j, st in pp.stmts():
        lhs = st['lhs']
        if lhs['local'] != opl[0] or not lhs['proj']:
            continue
        fld = lhs['proj'][0].get('name')
        gs = [(strip(g), k) for g, k, sw in pp.guard_terms(i)]
        arm = [n for n in (_joint_number(g, k) for g, k in gs) if n is not None]
        if fld in ('c1', 'c2', 'c3', 'c4', 'a1', 'a2', 'b') and arm:
            arms.setdefault(arm[-1], set()).add(fld)
            if fld == 'a2':
                v = strip(pp.rv_term(st['rv'], (i, j)))
                slots_ok.setdefault('a2neg', []).append(isinstance(v, tuple) and v[0] == 'un' and v[1] == 'Neg')
        if fld in ('sign_corrections', 'from', 'to') and len(lhs['proj']) == 2 and lhs['proj'][1]['k'] == 'index':
            it = pp.term_local(lhs['proj'][1]['local'], (i, j))
            src = util.loop_source(it)
            r = util.range_of(src) if src is not None else None
            if r is None:
                # `for (j, name) in names.iter().enumerate()`: slot j is written from the joint found under this very `name`
                it0 = strip(it)
                if isinstance(it0, tuple) and it0[0] == 'fld' and it0[2] == '0' and util.loop_source(it0[1]) is not None and \
                        'enumerate' in util.iter_chain(util.loop_source(it0[1]))[1]:
                    rg = census.Bounds(pp).rng(it0)
                    v = pp.rv_term(st['rv'], (i, j))
                    js = mir.subterms(v, lambda x: x[0] == 'call' and cname(x[1]) == 'HashMap::get')
                    same = False
                    for g in js:
                        key = strip(g[3])
                        while isinstance(key, tuple) and key[0] in ('deref', 'ref'):
                            key = strip(key[1])
                        same = same or (isinstance(key, tuple) and key[0] == 'fld' and key[2] == '1' and strip(key[1]) == strip(it0[1]))
                    want_src = {'sign_corrections': 'sign_correction', 'from': 'from', 'to': 'to'}[fld]
                    srcfld = mir.subterms(v, lambda x: x[0] == 'fld' and x[2] == want_src)
                    slots_ok[fld] = same and bool(srcfld) and rg == (0, 5)
                continue
            v = pp.rv_term(st['rv'], (i, j))
            # value derives from joint = get(names[j]) with the same j
            js = mir.subterms(v, lambda x: x[0] == 'call' and cname(x[1]) == 'HashMap::get')
            same = False
            for g in js:
                key = strip(g[3])
                same = same or (isinstance(key, tuple) and key[0] == 'idx' and strip(key[2]) == strip(it))
            want_src = {'sign_corrections': 'sign_correction', 'from': 'from', 'to': 'to'}[fld]
            srcfld = mir.subterms(v, lambda x: x[0] == 'fld' and x[2] == want_src)
            slots_ok[fld] = same and bool(srcfld) and util.const_val(r[0]) == 0 and util.const_val(r[1]) == 6
    _parameter_handover(ctx, prog)
    _names_routing(ctx, prog, fu)
    _leaf_readers(ctx, prog, fu)
    _component_table(ctx, prog, pp, opl[0])
    for nkey in sorted(ARMS):
        ctx.check(arms.get(nkey) == ARMS[nkey], 'R20.4', 'arm%d' % nkey, pp.where(0), pp.path,
                  'joint %d must set exactly %s, found %s' % (nkey, sorted(ARMS[nkey]), sorted(arms.get(nkey, []))), detail=str(sorted(arms.get(nkey, []))))
    ctx.check(all(slots_ok.get('a2neg', [False])), 'R20.4', 'a2-negated', pp.where(0), pp.path, 'a2 is the negated joint-4 offset')
    for fld in ('sign_corrections', 'from', 'to'):
        ctx.check(slots_ok.get(fld) is True, 'R20.4', 'slot/' + fld, pp.where(0), pp.path, '%s[j] must come from the joint named names[j], for j in 0..6' % fld)
    # 6-DOF detection: dof = 6 exactly when the joint named names[5] - the same name table the slots are read through - exists
    name_tables = set()
    for bi, t2 in pp.calls():
        if cname(callee_name(t2)) == 'HashMap::get':
            key = strip(pp.op_term(t2['args'][1], (bi, None)))
            if isinstance(key, tuple) and key[0] == 'idx' and util.loop_source(key[2]) is not None:
                name_tables.add(strip(key[1]))
            k2 = key
            while isinstance(k2, tuple) and k2[0] in ('deref', 'ref'):
                k2 = strip(k2[1])
            if isinstance(k2, tuple) and k2[0] == 'fld' and k2[2] == '1' and util.loop_source(k2[1]) is not None:
                base, ad = util.iter_chain(util.loop_source(k2[1]))
                if 'enumerate' in ad:
                    base = strip(base)
                    while isinstance(base, tuple) and base[0] in ('deref', 'ref'):
                        base = strip(base[1])
                    name_tables.add(base)
    dof_writes = {}
    for i, j, st in pp.stmts():
        lhs = st['lhs']
        if lhs['local'] == opl[0] and lhs['proj'] and lhs['proj'][0].get('name') == 'dof':
            for vt, vb in util.value_cases(pp, i, j, st):
                v = util.const_val(vt)
                for g, k, sw in pp.guard_terms(vb):
                    g = strip(g)
                    if isinstance(g, tuple) and g[0] == 'call' and cname(g[1]) == 'HashMap::contains_key':
                        key = strip(g[3])
                        same_table = isinstance(key, tuple) and key[0] == 'idx' and util.const_val(key[2]) == 5 and strip(key[1]) in name_tables
                        dof_writes[v] = (opw.truth(k), same_table)
    okd = len(name_tables) == 1 and dof_writes.get(6) == (True, True) and dof_writes.get(5) == (False, True)
    ctx.check(okd, 'R20.4', 'dof-key', pp.where(0), pp.path,
              'dof must be 6 exactly when the joint named names[5] exists, names being the table the six slots are read through (explicit names included)',
              found=str(dof_writes), detail=str(dof_writes))
    # missing joint -> Err via ok_or_else + ?
    ok = any(cname(callee_name(t2)) in ('Option::ok_or_else', 'Option::ok_or') and 'HashMap::get' in show(pp.op_term(t2['args'][0], (bi, None)), maxdepth=3) for bi, t2 in pp.calls())
    if not ok:
        # ... or written out: `let Some(joint) = joint_map.get(name) else { return Err(..) }` - an Err returned on the None edge of the lookup
        for t_, d_, rb_ in pp.return_values():
            t_ = strip(t_)
            if isinstance(t_, tuple) and t_[0] == 'agg' and 'Err' in str(t_[1]) and d_:
                for g, k, sw in pp.guard_terms(d_[1]):
                    g = strip(g)
                    if isinstance(g, tuple) and g[0] == 'discr' and k == 0 and isinstance(strip(g[1]), tuple) and strip(g[1])[0] == 'call' and cname(strip(g[1])[1]) == 'HashMap::get':
                        ok = True
    ctx.check(ok, 'R20.4', 'missing-joint', pp.where(0), pp.path, 'a missing joint must become an error value')

    # ---- R20.5
    rec = [(bi, t2) for bi, t2 in cj.calls() if t2['callee'].get('resolved') == cj.path]
    ok = len(rec) == 1
    found = None
    if ok:
        bi, t2 = rec[0]
        gs = [(strip(g), k) for g, k, sw in cj.guard_terms(bi)]
        cond = [show(g, maxdepth=3) for g, k in gs if not (isinstance(g, tuple) and g[0] == 'discr')]
        arg = strip(cj.op_term(t2['args'][0], (bi, None)))
        found = 'conditions %s' % cond
        ok = not cond and util.loop_source(arg) is not None
        # joints vec and names passed through
        ok = ok and util.is_param(cj.op_term(t2['args'][2], (bi, None)), 3)
    if not ok and len(rec) >= 1:
        # several recursion sites (`if not a joint { recurse; continue } .. recurse`): every way round the loop over the children
        # must pass one of them, each on the loop's own child and with the caller's vector and names
        nexts = [(bi, t2) for bi, t2 in cj.calls() if cname(callee_name(t2)).split('::')[-1] == 'next' and t2.get('target', -1) >= 0]
        args_ok = all(util.loop_source(strip(cj.op_term(t2['args'][0], (bi, None)))) is not None and util.is_param(cj.op_term(t2['args'][2], (bi, None)), 3)
                      for bi, t2 in rec)
        srcs = {repr(util.loop_source(strip(cj.op_term(t2['args'][0], (bi, None))))) for bi, t2 in rec}
        if args_ok and len(srcs) == 1 and len(nexts) == 1:
            nb, nt = nexts[0]
            rb = tuple(bi for bi, t2 in rec)
            ok = not cj.reaches(nt['target'], nb, avoid=rb)
            found = '%d recursion sites; a way round the loop avoids them: %s' % (len(rec), not ok)
    ctx.check(ok, 'R20.5', 'unconditional-recursion', cj.where(rec[0][0]) if rec else cj.where(0), cj.path,
              'every child element must be searched for joints, whatever it is (otherwise nesting changes the result)', found=found)

    # ---- R20.7 axis-derived sign correction
    ctx.rule('R20.7', 'sign correction = -1 / +1 by the sign of the single non-zero axis component, 0 otherwise, 1 when no axis is given')
    ax = util.find_role(ctx, 'axis sign helper: fn(Element) -> Result<i32, ..> reading the xyz attribute',
                        lambda b, sg: 'Result<i32' in sg[0] and len(sg) == 2 and 'Element' in sg[1], module='urdf::', called_from=[fu])
    cls = util.closure_bodies(prog, ax.path)
    filt = mp = False
    for c in cls:
        rvs = [(strip(x[0]), [(strip(g), opw.truth(k)) for g, k, sw in c.guard_terms(x[1][1])]) for x in c.return_values()]
        if len(rvs) == 1 and isinstance(rvs[0][0], tuple) and rvs[0][0][0] == 'bin' and rvs[0][0][1] == 'Ne' and util.const_val(rvs[0][0][3]) == 0.0:
            filt = True
        if len(rvs) == 2:
            vals = {}
            for v, gs in rvs:
                for g, tv in gs:
                    bd = util.as_bound(g, tv)
                    if bd is not None and bd[0] == 'lt' and util.const_val(bd[2]) == 0.0:
                        vals['neg'] = util.const_val(v)
                    if bd is not None and bd[0] == 'le' and util.const_val(bd[1]) == 0.0:
                        vals['nonneg'] = util.const_val(v)
            mp = vals == {'neg': -1, 'nonneg': 1}
    rets = {}
    for tt, d, rb2 in ax.return_values():
        tt = strip(tt)
        if isinstance(tt, tuple) and tt[0] == 'agg' and 'Ok' in tt[1]:
            gs = [(strip(g), opw.truth(k)) for g, k, sw in ax.guard_terms(d[1])]
            one = [True for g, v in gs if util.equals_guard(g, v) is not None and util.const_val(util.equals_guard(g, v)[1]) == 1 and 'len' in show(util.equals_guard(g, v)[0], maxdepth=3)]
            v = util.const_val(tt[2])
            if v is None and one and one[0] is True:
                rets['single'] = 'index0' if mir.contains(tt[2], lambda x: x[0] == 'call' and cname(x[1]) == 'Index::index' and util.const_val(x[3]) == 0) else '?'
            elif v is None and _first_and_only(ax, d[1]):
                # `match (it.next(), it.next()) { (Some(sign), None) => Ok(sign), .. }`: the first element, there being no second
                rets['single'] = 'index0' if mir.contains(tt[2], lambda x: x[0] == 'call' and cname(x[1]).split('::')[-1] == 'next') else '?'
            elif v == 0:
                rets['other'] = 0
    ctx.check(filt and mp and rets == {'single': 'index0', 'other': 0}, 'R20.7', 'axis-sign', ax.where(0), ax.path,
              'the sign correction must be the sign of the single non-zero axis component (0 for none or several)', found='filter!=0:%s map:%s returns:%s' % (filt, mp, rets), detail=str(rets))
    dflt = False
    for bi, t2 in cj.calls():
        if cname(callee_name(t2)) == 'Option::map_or':
            a = [strip(cj.op_term(x, (bi, None))) for x in t2['args']]
            if isinstance(a[1], tuple) and a[1][0] == 'agg' and 'Ok' in a[1][1] and util.const_val(a[1][2]) == 1 and isinstance(a[2], tuple) and a[2][0] == 'const' and a[2][2] == ax.path:
                dflt = True
    found = None
    if not dflt:
        # `match child_named("axis") { Some(a) => get_axis_sign(a)?, None => 1 }` and the like: the stored value, case by case
        import itertools
        for i, j, st in cj.stmts():
            if st['rv']['k'] == 'agg' and 'JointData' in str(st['rv']['kind']):
                t = cj.rv_term(st['rv'], (i, j))
                flds = dict(zip([f['name'] for f in prog.adts['urdf::JointData']['variants'][0]['fields']], t[2:]))
                x = flds.get('sign_correction')
                if x is None:
                    continue
                cls = set()
                for r in util.case_values(cj, x):
                    r = strip(util.peval(prog, r))
                    if util.const_val(r) == 1:
                        cls.add('one')
                    elif mir.contains(r, lambda y: (y[0] == 'call' and y[1] == ax.path) or (y[0] == 'const' and y[1] == 'fn' and y[2] == ax.path)) and \
                            not mir.contains(r, lambda y: y[0] == 'bin' or (y[0] == 'un' and y[1] == 'Neg')):
                        cls.add('axis')
                    else:
                        cls.add('other: ' + show(r, maxdepth=4))
                found = sorted(cls)
                dflt = cls == {'one', 'axis'}
    ctx.check(dflt, 'R20.7', 'axis-default', cj.where(0), cj.path, 'a joint without <axis> must get sign correction 1, otherwise the axis helper decides', found=found)

    angle_syntax(ctx, fu)
    joint_names(ctx, cj)


# which components of the joint origin may feed a parameter (the supported layouts of the property: c2 along z or x with b
# along y on joint 3; a2 along z with c3 along y or x on joint 4; otherwise the single non-zero component of the origin)
COMPONENTS = {(1, 'c1'): [{'whole'}], (2, 'a1'): [{'whole'}], (3, 'c2'): [{'whole'}, {'x', 'z'}], (3, 'b'): [set(), {'y'}],
              (4, 'a2'): [{'whole'}, {'z'}], (4, 'c3'): [{'x', 'y'}], (5, 'c3'): [{'whole'}], (6, 'c4'): [{'whole'}]}


def _components(t):
    """components of `joint.vector` a value term is computed from: 'x' / 'y' / 'z', or 'whole' when the vector is used as one"""
    out = set()

    def is_vec(x):
        x = strip(x)
        return isinstance(x, tuple) and x[0] == 'fld' and x[2] == 'vector'

    def f(x):
        x = strip(x) if isinstance(x, tuple) else x
        if not isinstance(x, tuple):
            return
        if x[0] == 'fld' and is_vec(x[1]) and x[2] in ('x', 'y', 'z'):
            out.add(x[2])
            return
        if is_vec(x):
            out.add('whole')
            return
        for y in x[1:]:
            if isinstance(y, tuple):
                f(y)
    f(t)
    return out


def _component_table(ctx, prog, pp, opl):
    from .. import absint
    from ..absint import Interp, Iv
    ctx.rule('R20.9', 'component table: on joint 3 c2 is read from x/z and b from y, on joint 4 a2 from z and c3 from x/y; the other lengths '
                      'from the single non-zero component; a helper choosing between two components returns the non-zero one')
    n = 0
    helpers = {}
    readers = {}
    for i, j, st in pp.stmts():
        lhs = st['lhs']
        if lhs['local'] != opl or not lhs['proj']:
            continue
        fld = lhs['proj'][0].get('name')
        arm = [n for n in (_joint_number(strip(g), k) for g, k, sw in pp.guard_terms(i)) if n is not None]
        if fld not in ('c1', 'c2', 'c3', 'c4', 'a1', 'a2', 'b') or not arm or (arm[-1], fld) not in COMPONENTS:
            continue
        v = pp.rv_term(st['rv'], (i, j))
        comps = _components(v)
        n += 1
        allowed = COMPONENTS[(arm[-1], fld)]
        ctx.check(comps in allowed, 'R20.9', 'joint%d/%s<-%s' % (arm[-1], fld, '+'.join(sorted(comps)) or 'const'), pp.where(i, j), pp.path,
                  'on joint %d the parameter %s may be read from %s of the joint origin, found %s' %
                  (arm[-1], fld, ' or '.join('{' + ','.join(sorted(a)) + '}' if a else 'a constant' for a in allowed), sorted(comps) or 'a constant'),
                  found=show(v, maxdepth=6), detail=','.join(sorted(comps)) or 'const')
        if comps == {'whole'}:
            for c in mir.subterms(v, lambda x: x[0] == 'call' and x[1] in prog.bodies and prog.bodies[x[1]].kind != 'Closure'):
                hb = prog.bodies[c[1]]
                if hb.arg_count == 1 and 'Vector3' in hb.local_ty(1) and 'Result<f64' in hb.local_ty(0).replace('std::result::', ''):
                    readers[hb.path] = hb
        if len(comps) == 2:
            for c in mir.subterms(v, lambda x: x[0] == 'call' and x[1] in prog.bodies and prog.bodies[x[1]].kind != 'Closure'):
                hb = prog.bodies[c[1]]
                if [hb.local_ty(k) for k in range(1, hb.arg_count + 1)][:2] == ['f64', 'f64'] and 'Result<f64' in hb.local_ty(0).replace('std::result::', ''):
                    helpers[hb.path] = hb
    ctx.floor('R20.9 component-table writes', n, 8)
    ctx.floor('R20.9 single-component reader', len(readers), 1)
    for hb in readers.values():
        ctx.fn(hb)
        vt = hb.local_ty(1).lstrip('&').strip()
        for vec, want in (((0.0, 0.0, 0.0), 0.0), ((1.5, 0.0, 0.0), 1.5), ((0.0, -2.0, 0.0), -2.0), ((0.0, 0.0, 0.25), 0.25),
                          ((1.0, 2.0, 0.0), None), ((0.0, 2.0, 3.0), None), ((1.0, 0.0, 3.0), None), ((1.0, 2.0, 3.0), None)):
            key = 'single%s' % (vec,)
            me = {'#adt': vt, 'x': Iv(vec[0]), 'y': Iv(vec[1]), 'z': Iv(vec[2])}
            I = Interp(prog, {}, fuel=20000, max_paths=8)
            try:
                outs = I.run(hb.path, [('refval', me, ())])
            except (absint.Unsupported, absint.Undecided) as e:
                if want is None:
                    ctx.ok('R20.9', key, hb.where(0), 'error path not interpreted (%s)' % type(e).__name__)
                    continue
                raise MachineryError('the single-component reader could not be interpreted: %s' % e)
            got = [o.ret for o in outs]
            if want is None:
                ok = all(isinstance(r, tuple) and r[0] == 'enum' and r[1] == 1 for r in got)
            else:
                ok = len(got) == 1 and isinstance(got[0], tuple) and got[0][0] == 'enum' and got[0][1] == 0 and isinstance(got[0][2][0], Iv) and \
                    got[0][2][0].is_point() and got[0][2][0].lo == want
            ctx.check(ok, 'R20.9', key, hb.where(0), hb.path,
                      'the reader of a joint origin with one non-zero component must return that component (0 when all are 0, an error when several are set)',
                      found=repr(got)[:200], expected='Err' if want is None else 'Ok(%g)' % want, detail='by interpretation')
    for hb in helpers.values():
        ctx.fn(hb)
        extra = [('refval', 'c2', ())] * (hb.arg_count - 2)
        for a, b_, want in ((0.0, 0.0, 0.0), (0.0, 2.5, 2.5), (1.5, 0.0, 1.5), (-0.75, 0.0, -0.75), (0.0, -0.25, -0.25), (1.5, 2.5, None)):
            key = 'choice(%g,%g)' % (a, b_)
            I = Interp(prog, {}, fuel=20000, max_paths=8)
            try:
                outs = I.run(hb.path, [Iv(a), Iv(b_)] + extra)
            except (absint.Unsupported, absint.Undecided) as e:
                if want is None:
                    ctx.ok('R20.9', key, hb.where(0), 'error path not interpreted (%s)' % type(e).__name__)
                    continue
                raise MachineryError('the component-choice helper could not be interpreted: %s' % e)
            got = [o.ret for o in outs]
            if want is None:
                ok = all(isinstance(r, tuple) and r[0] == 'enum' and r[1] == 1 for r in got)
            else:
                ok = len(got) == 1 and isinstance(got[0], tuple) and got[0][0] == 'enum' and got[0][1] == 0 and isinstance(got[0][2][0], Iv) and \
                    got[0][2][0].is_point() and got[0][2][0].lo == want
            ctx.check(ok, 'R20.9', key, hb.where(0), hb.path,
                      'the helper choosing between two components must return the non-zero one (0 when both are 0, an error when both are set)',
                      found=repr(got)[:200], expected='Err' if want is None else 'Ok(%g)' % want, detail='by interpretation')


def _first_and_only(b, blk):
    """block blk lies on the Some edge of a first `next()` and on the None edge of a second `next()` of the same iterator
    (the first call dominating the second): the iterator yields exactly one element"""
    hits = []
    for g, k, sw in b.guard_terms(blk):
        op = b.blocks[sw]['term'].get('discr')
        if not op or op.get('k') not in ('copy', 'move') or k not in (0, 1):
            continue
        # the switch reads the discriminant of a local (possibly a field of the pair) defined by a call of next()
        loc = op['place']['local']
        for d in b.defs().get(loc, []):
            if d[0] == 'st' and d[3]['rv']['k'] == 'discr':
                pl = d[3]['rv']['place']
                src = pl['local']
                cands = [(src, None)]
                # a field of a tuple aggregate built from the two results
                for d2 in b.defs().get(src, []):
                    if d2[0] == 'st' and d2[3]['rv']['k'] == 'agg' and pl['proj'] and pl['proj'][0]['k'] == 'field':
                        o = d2[3]['rv']['ops'][pl['proj'][0]['i']]
                        if o['k'] in ('copy', 'move') and not o['place']['proj']:
                            cands.append((o['place']['local'], None))
                for c, _ in cands:
                    for d3 in b.defs().get(c, []):
                        if d3[0] == 'call' and cname(callee_name(d3[3])).split('::')[-1] == 'next':
                            hits.append((d3[1], k, util._ref_root(b, d3[3]['args'][0])))
    some = [h for h in hits if h[1] == 1]
    none = [h for h in hits if h[1] == 0]
    for a in some:
        for n in none:
            if a[0] != n[0] and a[2] is not None and a[2] == n[2] and b.dominates(a[0], n[0]):
                return True
    return False


def _joint_number(g, k):
    """the joint number (1..6) an arm of the match over the slots stands for: arm k of `match j + 1`, or arm k of a match on the
    zero-based slot index itself (the loop variable of `0..6`, or the index of `names.iter().enumerate()`), which is joint k + 1"""
    if not isinstance(k, int) or isinstance(k, bool):
        return None
    if _is_j_plus_1(g):
        return k
    g = strip(g)
    src = util.loop_source(g)
    if src is not None:
        r = util.range_of(src)
        if r is not None and util.const_val(r[0]) == 0:
            return k + 1
    if isinstance(g, tuple) and g[0] == 'fld' and g[2] == '0':
        src = util.loop_source(g[1])
        if src is not None and 'enumerate' in util.iter_chain(src)[1]:
            return k + 1
    return None


def _is_j_plus_1(g):
    g = strip(g)
    # (j + 1) lowered as (AddWithOverflow(j,1)).0
    s = show(g, maxdepth=5)
    return ('+ 1' in s) and ('Some' in s or 'next' in s)


def _parameter_handover(ctx, prog):
    """R20.10: what was extracted is what the solver gets - every Parameters value built from a URDFParameters takes each
    length, the sign corrections and dof from the field of the same name, and the offsets from the caller"""
    ctx.rule('R20.10', 'Parameters built from URDFParameters (to_robot, parameters): every field from the field of the same name, offsets from the argument')
    n = 0
    for b in [x for p_, x in prog.bodies.items() if p_.startswith('urdf::URDFParameters::') and x.kind != 'Closure']:
        for i, j, st in b.stmts():
            rv = st['rv']
            if not (rv['k'] == 'agg' and isinstance(rv.get('kind'), dict) and (rv['kind'].get('adt') or '').endswith('::Parameters')):
                continue
            ctx.fn(b)
            flds = rv['kind'].get('fields') or []
            t = b.rv_term(rv, (i, j))
            bad = []
            for f, v in zip(flds, t[2:]):
                v = strip(v)
                if f == 'offsets':
                    ok = util.param_index(v) is not None and util.param_index(v) >= 2
                else:
                    ok = isinstance(v, tuple) and v[0] == 'fld' and v[2] == f and util.is_param(v[1], 1)
                if not ok:
                    bad.append('%s <- %s' % (f, show(v, maxdepth=3)))
            n += 1
            ctx.check(not bad, 'R20.10', b.path.split('::')[-1], b.where(i, j), b.path,
                      'the parameters handed to the solver must be the extracted ones, field by field: ' + '; '.join(bad), found=str(bad), detail='%d fields' % len(flds))
    ctx.floor('R20.10 parameter hand-overs', n, 1)


def _names_routing(ctx, prog, fu):
    """R20.11: an explicit joint-name list given to from_urdf reaches every stage that reads names: wherever a function of the
    URDF module that has a names parameter (&Option<[&str; 6]>) calls another one that has it, it hands its own on"""
    ctx.rule('R20.11', 'the explicit joint-name list is handed on unchanged to every stage that takes one')
    is_names = lambda ty: 'Option<[&' in ty.replace('std::option::', '') and 'str; 6]' in ty
    n = 0
    for p_ in prog.reachable_bodies([fu.path]):
        b = prog.bodies.get(p_)
        if b is None or b.kind == 'Closure' or not p_.startswith('urdf::'):
            continue
        own = [k for k in range(1, b.arg_count + 1) if is_names(b.local_ty(k))]
        if len(own) != 1:
            continue
        for bi, t in b.calls():
            cb = prog.bodies.get(t['callee'].get('resolved') or '')
            if cb is None or cb.kind == 'Closure':
                continue
            theirs = [k for k in range(1, cb.arg_count + 1) if is_names(cb.local_ty(k))]
            if len(theirs) != 1 or theirs[0] - 1 >= len(t['args']):
                continue
            n += 1
            a = b.op_term(t['args'][theirs[0] - 1], (bi, None))
            ctx.check(util.param_index(a) == own[0], 'R20.11', '%s->%s' % (p_.split('::')[-1], cb.path.split('::')[-1]), b.where(bi), b.path,
                      'the joint-name list must be handed on as it was given (explicit names would be ignored at this stage)', found=show(a, maxdepth=3))
    ctx.floor('R20.11 hand-overs', n, 3)


def _leaf_readers(ctx, prog, fu):
    """R20.12: the readers of single URDF elements.  The limits reader returns (angle of `lower`, angle of `upper`) - interpreted
    with the attribute lookup and the angle parser scripted - and an error value when either attribute is missing; the origin
    reader files the three numbers of `xyz` under x, y, z in that order."""
    from .. import absint
    from ..absint import Interp, Sym, SOME, NONE
    ctx.rule('R20.12', 'limits reader = (angle(lower), angle(upper)), Err when an attribute is missing; origin reader = Vector3 { x: v[0], y: v[1], z: v[2] }')
    reach = [prog.bodies[p_] for p_ in prog.reachable_bodies([fu.path]) if p_ in prog.bodies and p_.startswith('urdf::') and prog.bodies[p_].kind != 'Closure']
    lim = [b for b in reach if b.arg_count == 1 and 'Element' in b.local_ty(1) and '(f64, f64)' in b.local_ty(0)]
    angle = [b for b in reach if b.arg_count == 1 and b.local_ty(1) == '&str' and 'Result<f64' in b.local_ty(0).replace('std::result::', '')]
    if len(lim) == 1 and len(angle) == 1:
        b = lim[0]
        ctx.fn(b)
        for missing in (None, 'lower', 'upper'):
            def val(I, st, a):
                while isinstance(a, tuple) and a and a[0] in ('ref', 'refval', 'mref'):
                    a = I.deref(a, st)
                return a

            def h_attr(I, st, a, t, b_, missing=missing):
                nm = val(I, st, a[1])
                if not isinstance(nm, str):
                    raise absint.Unsupported('attribute name %r' % (nm,))
                return NONE if nm == missing else SOME(Sym(('attr', nm)))

            def h_value(I, st, a, t, b_):
                v = val(I, st, a[0])
                return Sym(('value',) + v.tag[1:]) if isinstance(v, Sym) else v

            def h_angle(I, st, a, t, b_):
                v = val(I, st, a[0])
                return ('enum', 0, (Sym(('angle',) + (v.tag[1:] if isinstance(v, Sym) else (repr(v),))),))

            def h_err(I, st, a, t, b_):
                return Sym('error-value')
            H = {'Element::attribute': h_attr, 'Attribute::value': h_value, cname(angle[0].path): h_angle, angle[0].path: h_angle,
                 'Into::into': h_err, 'From::from': h_err, 'ToString::to_string': h_err, 'String::from': h_err, 'ToOwned::to_owned': h_err}
            I = Interp(prog, H, fuel=20000, max_paths=8)
            try:
                outs = I.run(b.path, [Sym('limit-element')])
            except (absint.Unsupported, absint.Undecided):
                break
            if len(outs) != 1:
                break
            r = outs[0].ret
            if missing is None:
                ok = r == ('enum', 0, ((Sym(('angle', 'lower')), Sym(('angle', 'upper'))),))
                want = 'Ok((angle(lower), angle(upper)))'
            else:
                ok = isinstance(r, tuple) and r[0] == 'enum' and r[1] == 1
                want = 'Err'
            ctx.check(ok, 'R20.12', 'limits/%s' % ('both' if missing is None else 'no-' + missing), b.where(0), b.path,
                      'the limits reader must return the angle of `lower` first and the angle of `upper` second, and an error value when one is missing',
                      found=repr(r)[:200], expected=want, detail='by interpretation')
    org = [b for b in reach if b.arg_count == 1 and 'Element' in b.local_ty(1) and 'urdf::Vector3' in b.local_ty(0)]
    if len(org) == 1:
        b = org[0]
        ctx.fn(b)
        for i, j, st in b.stmts():
            rv = st['rv']
            if rv['k'] == 'agg' and isinstance(rv.get('kind'), dict) and (rv['kind'].get('adt') or '').endswith('urdf::Vector3'):
                t = b.rv_term(rv, (i, j))
                vals = dict(zip(rv['kind'].get('fields') or [], [strip(x) for x in t[2:]]))
                src = set()
                order = []
                for f in ('x', 'y', 'z'):
                    v = vals.get(f)
                    while isinstance(v, tuple) and v[0] in ('deref', 'ref'):
                        v = strip(v[1])
                    k = None
                    if isinstance(v, tuple) and v[0] == 'idx':
                        k = util.const_val(v[2])
                        src.add(strip(v[1]))
                    elif isinstance(v, tuple) and v[0] == 'call' and cname(v[1]) in ('Index::index',) and len(v) == 4:
                        k = util.const_val(v[3])
                        src.add(strip(v[2]))
                    order.append(k)
                plain = all(vals.get(f) is not None and util.param_index(vals.get(f)) is None for f in ('x', 'y', 'z'))
                if order == [None, None, None] and plain and len(src) == 0:
                    continue              # built from named locals (slice pattern `[x, y, z]`): order is fixed by the pattern
                ctx.check(order == [0, 1, 2] and len(src) == 1, 'R20.12', 'origin/xyz-order', b.where(i, j), b.path,
                          'the three numbers of `xyz` must be filed under x, y and z in that order', found=str(order))
