"""C16 - parallelogram coupling is applied consistently in forward and inverse kinematics."""
from .. import algebra, mir, util, opw
from ..mir import cname, strip, callee_name, show

EXPLANATION = ('Decides from MIR with the ring normaliser: the forward pre-map P(q)[coupled] = q[coupled] - scaling*q[driven] (other slots '
               'untouched) and the inverse post-map Q(x)[coupled] = x[coupled] + scaling*x[driven] satisfy P(Q(x)) = x symbolically (coupled != driven); '
               'both forward methods use the same P, all four inverse methods the same Q, each applied to every returned solution, and each method '
               'delegates to the same inner method with the pose unchanged.  The numerical round trip inherits C01.')
NOT_DECIDED = 'numerical round trip (C01); behaviour for coupled == driven'
ASSUMPTIONS = ['coupled != driven (documented use)']
PAR = 'parallelogram::Parallelogram'


def subst(t, f):
    r = f(t)
    if r is not None:
        return r
    if not isinstance(t, tuple):
        return t
    return (t[0],) + tuple(subst(x, f) if isinstance(x, tuple) else x for x in t[1:])


def selfify(t):
    """closure upvar `*self` -> the method's self"""
    def f(x):
        if isinstance(x, tuple) and x[0] == 'fld' and x[2] in ('*self', 'self') and util.is_param(x[1], 1):
            return ('param', 1, 'self')
        return None
    return algebra.canon(subst(t, f))


def partial_writes(b, base_pred):
    """[(bb, idx, index_term, value_term)] for writes `base[i] = v` where base_pred(place) holds."""
    out = []
    for i, j, st in b.stmts():
        lhs = st['lhs']
        if lhs['proj'] and lhs['proj'][-1]['k'] in ('index', 'cindex') and base_pred(lhs, i, j):
            e = lhs['proj'][-1]
            it = b.term_local(e['local'], (i, j)) if e['k'] == 'index' else ('const', 'usize', e['off'], None)
            out.append((i, j, it, b.rv_term(st['rv'], (i, j))))
    return out


def premap(ctx, b):
    """forward side: array local copied from the joints parameter, updated, passed to the inner call."""
    vv = util.virtual_calls(b)
    if len(vv) != 1:
        return None
    bi, t, name = vv[0]
    a = t['args'][1]
    arr_t = b.op_term(a, (bi, None))
    # the adjusted copy may be produced by a helper fn(&self, &Joints) -> Joints of the wrapper: then the helper is the pre-map
    at = strip(arr_t)
    if isinstance(at, tuple) and at[0] == 'call' and at[1] in ctx.prog.bodies and len(at) == 4:
        hb = ctx.prog.bodies[at[1]]
        if hb.kind != 'Closure' and hb.arg_count == 2 and '[f64; 6]' in hb.local_ty(0) and '[f64; 6]' in hb.local_ty(2) and \
                util.is_param(at[2], 1) and util.is_param(at[3], 2):
            ctx.fn(hb)
            rt = hb.return_term()
            rl = None
            x = rt
            while isinstance(x, tuple) and x[0] in ('ref', 'deref'):
                x = x[1]
            if isinstance(x, tuple) and x[0] in ('var', 'mutb'):
                rl = x[2] if x[0] == 'var' else x[1]
            if rl is not None:
                init = [d for d in hb.defs().get(rl, []) if d[4]]
                if len(init) == 1:
                    A = strip(hb._def_term(init[0]))
                    ws = partial_writes(hb, lambda lhs, i, j: lhs['local'] == rl and len(lhs['proj']) == 1)
                    return {'A': A, 'writes': ws, 'loc': rl, 'site': bi, 'inner': name, 'body': hb}
    # find the local behind &joints
    loc = _root_local(b, a, bi)
    if loc is None:
        return None
    init = [d for d in b.defs().get(loc, []) if d[4]]
    if len(init) != 1:
        return None
    A = strip(b._def_term(init[0]))
    ws = partial_writes(b, lambda lhs, i, j: lhs['local'] == loc and len(lhs['proj']) == 1)
    return {'A': A, 'writes': ws, 'loc': loc, 'site': bi, 'inner': name}


def _root_local(b, op, bi):
    """Follow `&x` / `&*y` copies back to the addressed local."""
    if op['k'] not in ('copy', 'move'):
        return None
    l = op['place']['local']
    for _ in range(6):
        ds = b.defs().get(l, [])
        if len(ds) != 1 or ds[0][0] != 'st':
            return None
        rv = ds[0][3]['rv']
        if rv['k'] == 'ref':
            pl = rv['place']
            if not pl['proj']:
                return pl['local']
            if len(pl['proj']) == 1 and pl['proj'][0]['k'] == 'deref':
                l = pl['local']
                continue
            return None
        if rv['k'] == 'use' and rv['op']['k'] in ('copy', 'move') and not rv['op']['place']['proj']:
            l = rv['op']['place']['local']
            continue
        return None
    return None


def postmap(ctx, prog, b):
    """inverse side: element-wise update of every solution returned by the inner call."""
    vv = util.virtual_calls(b)
    if len(vv) != 1:
        return None
    bi, t, name = vv[0]
    sol = t['dest']['local']
    inner = strip(b.call_term(t, (bi, None)))
    # the post-map may live in a helper of the wrapper that takes the inner solutions and returns them: fn(&self, Solutions) -> Solutions
    rv0 = [strip(x[0]) for x in b.return_values()]
    if len(rv0) == 1 and isinstance(rv0[0], tuple) and rv0[0][0] == 'call' and rv0[0][1] in prog.bodies and prog.bodies[rv0[0][1]].kind != 'Closure':
        hb = prog.bodies[rv0[0][1]]
        pos = [k for k, a in enumerate(rv0[0][2:], start=1) if strip(a) == inner]
        if len(pos) == 1 and 'Vec<[f64; 6]>' in hb.local_ty(pos[0]) and 'Vec<[f64; 6]>' in hb.local_ty(0) and util.is_param(rv0[0][2], 1):
            ctx.fn(hb)
            res = _postmap_of(ctx, prog, hb, ('param', pos[0], hb.name_of(pos[0])), name, bi)
            res['helper'] = hb
            return res
    return _postmap_of(ctx, prog, b, inner, name, bi)


def _postmap_of(ctx, prog, b, inner, name, bi):
    res = {'inner': name, 'site': bi, 'writes': [], 'all_elements': False, 'X': None}
    # form A: solutions.iter_mut().for_each(closure)
    for ci, ct in b.calls():
        if cname(callee_name(ct)) == 'Iterator::for_each':
            base, ad = util.iter_chain(b.op_term(ct['args'][0], (ci, None)))
            base = strip(base)
            while isinstance(base, tuple) and base[0] == 'call' and cname(base[1]) in ('DerefMut::deref_mut', 'Deref::deref'):
                base = strip(base[2])
            cb, caps = util.closure_of_term(prog, b.op_term(ct['args'][1], (ci, None)))
            if cb is None or base != inner:
                continue
            res['all_elements'] = ad == ['iter_mut']
            res['adaptors'] = ad
            X = ('deref', ('param', 2, cb.name_of(2)))
            ws = partial_writes(cb, lambda lhs, i, j: lhs['local'] == 2 and len(lhs['proj']) == 2 and lhs['proj'][0]['k'] == 'deref')
            res['writes'] = [(i, j, selfify(util.subst_closure(cb, it, list(caps), [])), selfify(util.subst_closure(cb, v, list(caps), []))) for i, j, it, v in ws]
            res['X'] = algebra.canon(X)
            res['closure'] = cb
            res['where'] = cb.where(0)
            if not ws:
                # the closure only hands the element to a helper of the wrapper, fn(&self, &mut Joints): the helper is the post-map
                hcalls = [(hi, ht) for hi, ht in cb.calls() if ht['callee'].get('local') and ht['callee'].get('resolved') in prog.bodies]
                if len(hcalls) == 1 and len(hcalls[0][1]['args']) == 2:
                    hi, ht = hcalls[0]
                    hb = prog.bodies[ht['callee']['resolved']]
                    recv = selfify(util.subst_closure(cb, strip(cb.op_term(ht['args'][0], (hi, None))), list(caps), []))
                    elem_ = strip(cb.op_term(ht['args'][1], (hi, None)))
                    if hb.kind != 'Closure' and hb.arg_count == 2 and hb.local_ty(2).startswith('&mut') and '[f64; 6]' in hb.local_ty(2) and util.is_param(recv, 1) and \
                            util.is_param(elem_, 2):
                        ctx.fn(hb)
                        hws = partial_writes(hb, lambda lhs, i, j: lhs['local'] == 2 and len(lhs['proj']) == 2 and lhs['proj'][0]['k'] == 'deref')
                        res['writes'] = [(i, j, algebra.canon(it), algebra.canon(v)) for i, j, it, v in hws]
                        res['X'] = algebra.canon(('deref', ('param', 2, hb.name_of(2))))
                        res['where'] = hb.where(0)
    # form B: for x in solutions.iter_mut() { x[c] += .. }
    if not res['writes']:
        def pred(lhs, i, j):
            if len(lhs['proj']) == 2 and lhs['proj'][0]['k'] == 'deref':
                src = util.loop_source(b.term_local(lhs['local'], (i, j)))
                if src is not None:
                    base, ad = util.iter_chain(src)
                    base = strip(base)
                    while isinstance(base, tuple) and base[0] == 'call' and cname(base[1]) in ('DerefMut::deref_mut', 'Deref::deref'):
                        base = strip(base[2])
                    if base == inner:
                        res['all_elements'] = ad in (['iter_mut'], ['iter_mut', 'into_iter'], ['into_iter'])      # `for x in &mut solutions` is ['into_iter']
                        res['adaptors'] = ad
                        res['X'] = algebra.canon(strip(b.term_local(lhs['local'], (i, j))))
                        return True
            return False
        ws = partial_writes(b, pred)
        res['writes'] = [(i, j, algebra.canon(it), algebra.canon(v)) for i, j, it, v in ws]
        res['where'] = b.where(ws[0][0], ws[0][1]) if ws else b.where(bi)
    # form C: for i in 0..solutions.len() { solutions[i][c] += .. }
    if not res['writes']:
        def unvec(t):
            t = strip(t)
            while isinstance(t, tuple) and t[0] == 'call' and cname(t[1]) in ('DerefMut::deref_mut', 'Deref::deref'):
                t = strip(t[2])
            return t

        def elem(t):
            """solutions[i] (read or write access) -> ('idx', inner, i)"""
            def f(x):
                if isinstance(x, tuple) and x[0] == 'call' and cname(x[1]) in ('Index::index', 'IndexMut::index_mut') and unvec(x[2]) == inner:
                    return ('idx', inner, strip(x[3]))
                return None
            return subst(t, f)

        def pred_c(lhs, i, j):
            if len(lhs['proj']) == 2 and lhs['proj'][0]['k'] == 'deref':
                e = elem(strip(b.term_local(lhs['local'], (i, j))))
                if isinstance(e, tuple) and e[0] == 'idx' and e[1] == inner:
                    src = util.loop_source(e[2])
                    r = util.range_of(src) if src is not None else None
                    if r is not None and util.const_val(r[0]) == 0 and r[2] in ([], ['into_iter']):
                        hi = strip(r[1])
                        whole = isinstance(hi, tuple) and hi[0] == 'call' and cname(hi[1]).split('::')[-1] == 'len' and unvec(hi[2]) == inner
                        res['all_elements'] = whole
                        res['adaptors'] = ['0..len' if whole else '0..' + show(hi, maxdepth=3)]
                        res['X'] = algebra.canon(e)
                        return True
            return False
        ws = partial_writes(b, pred_c)
        res['writes'] = [(i, j, algebra.canon(elem(it)), algebra.canon(elem(v))) for i, j, it, v in ws]
        if ws:
            res['where'] = b.where(ws[0][0], ws[0][1])
    # form D: inner.into_iter().map(|mut x| { x[c] = ..; x }).collect()
    if not res['writes']:
        rvs0 = [strip(x[0]) for x in b.return_values()]
        if len(rvs0) == 1 and isinstance(rvs0[0], tuple) and rvs0[0][0] == 'call' and cname(rvs0[0][1]) == 'Iterator::collect':
            m = strip(rvs0[0][2])
            if isinstance(m, tuple) and m[0] == 'call' and cname(m[1]) == 'Iterator::map' and len(m) == 4:
                base, ad = util.iter_chain(m[2])
                cb, caps = util.closure_of_term(prog, m[3])
                if cb is not None and strip(base) == inner and cb.arg_count == 2:
                    crv = [strip(x[0]) for x in cb.return_values()]
                    ws = partial_writes(cb, lambda lhs, i, j: lhs['local'] == 2 and len(lhs['proj']) == 1)
                    if len(crv) == 1 and isinstance(crv[0], tuple) and crv[0][0] in ('param', 'mparam') and crv[0][1] == 2:
                        res['all_elements'] = all(a == 'into_iter' for a in ad) and bool(ad)
                        res['adaptors'] = ad + ['map']
                        res['writes'] = [(i, j, selfify(util.subst_closure(cb, it, list(caps), [])), selfify(util.subst_closure(cb, v, list(caps), []))) for i, j, it, v in ws]
                        res['X'] = algebra.canon(('param', 2, cb.name_of(2)))
                        res['closure'] = cb
                        res['where'] = cb.where(0)
                        res['returns_inner'] = True
                        return res
    # the returned vector is the (updated) inner result
    def empty_case(d):
        # an early `return solutions` taken only when there is nothing to map
        if not d:
            return False
        for g, k, sw in b.guard_terms(d[1]):
            g = strip(g)
            if isinstance(g, tuple) and g[0] == 'call' and cname(g[1]).split('::')[-1] == 'is_empty' and opw.truth(k) is True:
                recv = strip(g[2])
                while isinstance(recv, tuple) and recv[0] == 'call' and cname(recv[1]) in ('DerefMut::deref_mut', 'Deref::deref'):
                    recv = strip(recv[2])
                if recv == inner:
                    return True
        return False
    rvs = [strip(x[0]) for x in b.return_values() if not (strip(x[0]) == inner and empty_case(x[1]))]
    res['returns_inner'] = len(rvs) == 1 and rvs[0] == inner
    return res


def run(ctx):
    prog = ctx.prog
    ctx.rule('R16.1', 'P(Q(x)) = x for the forward pre-map P and the inverse post-map Q (ring normal form); siblings use the same maps; every solution is mapped')
    ctx.rule('R16.2', 'each method delegates to the same inner method; the pose reaches the inner inverse unchanged')
    fw = {}
    for m in ('forward', 'forward_with_joint_poses'):
        b = prog.trait_impl_method(PAR, 'Kinematics', m)
        ctx.require(b is not None, 'Parallelogram::' + m)
        ctx.fn(b)
        pm = premap(ctx, b)
        ok = pm is not None and pm['inner'] == m and len(pm['writes']) == 1
        if not ctx.check(ok, 'R16.1', m + '/premap-shape', b.where(0), b.path,
                         'forward side must copy the joints, adjust exactly one slot and hand the copy to the inner %s' % m,
                         found=None if pm is None else '%d slot writes' % len(pm['writes'])):
            continue
        i, j, it, v = pm['writes'][0]
        A = algebra.canon(pm['A'])
        ok_src = util.is_param(pm['A'], 2)
        wb = pm.get('body', b)
        ctx.check(ok_src, 'R16.2', m + '/joints-source', wb.where(i, j), wb.path, 'the adjusted vector is not a copy of the joints argument', found=show(pm['A']))
        fw[m] = (algebra.canon(it), algebra.canon(v), A, wb, (i, j))
    inv = {}
    for m in util.INVERSE_METHODS:
        b = prog.trait_impl_method(PAR, 'Kinematics', m)
        ctx.require(b is not None, 'Parallelogram::' + m)
        ctx.fn(b)
        pm = postmap(ctx, prog, b)
        ok = pm is not None and pm['inner'] == m and len(pm['writes']) == 1 and pm['returns_inner']
        if not ctx.check(ok, 'R16.1', m + '/postmap-shape', b.where(0), b.path,
                         'inverse side must adjust exactly one slot of the inner solutions and return them',
                         found=None if pm is None else 'inner=%s writes=%d returns_inner=%s' % (pm['inner'], len(pm['writes']), pm['returns_inner'])):
            continue
        ctx.check(pm['all_elements'], 'R16.1', m + '/every-solution', pm['where'], b.path,
                  'the post-map does not visit every returned solution (adaptors: %s)' % pm.get('adaptors'))
        # nothing else touches the solutions: a second pass over them (a helper that "normalises" the coupled joint, a sort,
        # a removal) is outside what the forward side undoes
        vbi, vt, _ = util.virtual_calls(b)[0]
        sol = vt['dest']['local']
        extra = []
        for ci, ct in b.calls():
            n = cname(callee_name(ct))
            if ci == vbi or n.split('::')[-1] in ('deref_mut', 'deref', 'index_mut', 'index', 'len', 'iter_mut', 'iter', 'into_iter', 'is_empty', 'for_each', 'next', 'enumerate'):
                continue
            if pm.get('helper') is not None and ct['callee'].get('resolved') == pm['helper'].path:
                continue             # the helper that *is* the post-map (analysed above)
            if any(a.get('k') in ('copy', 'move') and util._ref_root(b, a) == sol for a in ct['args']):
                extra.append('%s at %s' % (n, b.where(ci)))
        ctx.check(not extra, 'R16.1', m + '/only-postmap', b.where(vbi), b.path,
                  'the solutions are handed to %s besides the post-map: what it does to them is not undone by the forward side' % ', '.join(extra), found=', '.join(extra))
        # pose pass-through
        t = [x for x in util.virtual_calls(b)][0]
        ctx.check(util.is_param(b.op_term(t[1]['args'][1], (t[0], None)), 2), 'R16.2', m + '/pose', b.where(t[0]), b.path,
                  'the requested pose is not passed unchanged to the inner solver')
        i, j, it, v = pm['writes'][0]
        inv[m] = (it, v, pm['X'], b, pm['where'])

    if not fw or not inv:
        return
    ring = algebra.Ring()
    SELF = ('param', 1, 'self')
    c_t = ('fld', SELF, 'coupled')
    d_t = ('fld', SELF, 'driven')
    s_t = ('fld', SELF, 'scaling')
    # sibling agreement + identity
    for fm, (fi, fv, A, fb, fat) in fw.items():
        ctx.check(fi == c_t, 'R16.1', fm + '/slot', fb.where(*fat), fb.path, 'forward adjusts slot %s, expected self.coupled' % show(fi), found=show(fi))
        for im, (ii, iv, X, ib, iw) in inv.items():
            key = '%s~%s' % (fm, im)
            if ii != c_t:
                ctx.violation('R16.1', key, iw, ib.path, 'inverse adjusts slot %s, expected self.coupled' % show(ii), found=show(ii))
                continue
            # Q(x)[c] as polynomial over atoms idx(X, .)
            q_c = ring.nf(iv)

            def f(t, A=A, X=X, q_c=q_c):
                return None
            # substitute inside P's value: idx(A, coupled) -> Q value ; idx(A, driven) -> idx(X, driven)
            xa_c = ('idx', X, c_t)
            xa_d = ('idx', X, d_t)
            pa_c = ('idx', A, c_t)
            pa_d = ('idx', A, d_t)
            r2 = algebra.Ring(atomize=lambda t, pa_c=pa_c, pa_d=pa_d, q_c=q_c, xa_d=xa_d: (q_c if algebra.canon(t) == pa_c else (xa_d if algebra.canon(t) == pa_d else None)))
            comp = r2.nf(fv)
            want = ring.nf(xa_c)
            ok = (comp - want).is_zero()
            ctx.check(ok, 'R16.1', key, iw, ib.path,
                      'inverse post-map is not the inverse of the forward pre-map: P(Q(x))[coupled] = %s, expected x[coupled]' % comp.show(lambda a: show(a, maxdepth=4)),
                      found='P: q[c] := %s ; Q: x[c] := %s' % (show(fv, maxdepth=5), show(iv, maxdepth=5)),
                      detail='P(Q(x))[c] = x[c]')
    ctx.floor('R16.1 sibling pairs', len(fw) * len(inv), 8)
    # "nesting with tool/base": the round trip through a stack holds only if Tool / Base / Frame delegate and compose correctly
    # (C09) - its clauses are re-checked here
    from . import C09
    C09.run(ctx)
