"""C15 - Jacobian equals the geometric one; velocities/torques are its inverse/transpose."""
from .. import algebra, mir, util, opw
from ..mir import cname, strip, callee_name, show
from .C16 import partial_writes

EXPLANATION = ('Decided from MIR terms: (R15.1) column construction: column i is built from a copy of the joints whose slot i (same i) is '
               'increased by epsilon; the position rows are (P_perturbed - P_current)/epsilon and the rotation rows '
               'scaled_axis(R_perturbed * R_current^-1)/epsilon (free-group word: world-frame rotation difference), stored at rows 0 and 3 of '
               'column i for i in 0..6; (R15.2) torques apply transpose() of the stored matrix to the wrench, velocities apply try_inverse() '
               'or, on its None edge, the pseudo-inverse with the stored epsilon, to the same vector; (R15.3) sibling agreement: the isometry '
               'based entry points pack (translation xyz, scaled_axis xyz) in this order and compute the same term as the vector based ones.  '
               'Closeness to the geometric Jacobian (truncation, conditioning) is numerical and not decided.')
NOT_DECIDED = 'closeness to the geometric Jacobian (truncation error of the forward difference, conditioning)'
ASSUMPTIONS = ['nalgebra try_inverse / pseudo_inverse / transpose / scaled_axis are correct']


def _captures_unperturbed(cj, t, part):
    """t is an upvar of the column closure that names a local of compute_jacobian holding the `part` (translation / rotation)
    of forward(robot, joints) at the unperturbed joints (the joints parameter itself)"""
    t = strip(t)
    ups = mir.subterms(t, lambda x: x[0] == 'fld' and util.is_param(strip(x[1]), 1)) if not (isinstance(t, tuple) and t[0] == 'fld' and util.is_param(strip(t[1]), 1)) else [t]
    for u in ups:
        name = str(u[2]).lstrip('*&')
        for l, n in cj.names.items():
            if n != name:
                continue
            whole = [d for d in cj.defs().get(l, []) if d[4]]
            if len(whole) != 1:
                continue
            dt = cj._def_term(whole[0])
            fw = mir.subterms(dt, lambda x: x[0] == 'call' and cname(x[1]) == 'Kinematics::forward')
            if fw and all(util.is_param(x[3], 2) for x in fw) and part in show(dt, maxdepth=8):
                return True
    return False


def _captured_inverse(cj, t):
    """t is an upvar of the column closure whose value in compute_jacobian is `<something>.inverse()`"""
    t = strip(t)
    if not (isinstance(t, tuple) and t[0] == 'fld' and util.is_param(strip(t[1]), 1)):
        return False
    name = str(t[2]).lstrip('*&')
    for l, n in cj.names.items():
        if n == name:
            whole = [d for d in cj.defs().get(l, []) if d[4]]
            if len(whole) == 1:
                dt = strip(cj._def_term(whole[0]))
                return isinstance(dt, tuple) and dt[0] == 'call' and cname(dt[1]).split('::')[-1] == 'inverse'
    return False


def run(ctx):
    prog = ctx.prog
    ctx.rule('R15.1', 'column i: joints copy with slot i += epsilon; rows 0..3 = (P_pert - P_cur)/eps; rows 3..6 = scaled_axis(R_pert * R_cur^-1)/eps; stored at (0,i),(3,i), i in 0..6')
    ctx.rule('R15.2', 'torques = transpose(J) * F; velocities = try_inverse(J) * X, else pseudo_inverse(J, epsilon) * X')
    ctx.rule('R15.3', 'isometry entry points pack (t.x,t.y,t.z, w.x,w.y,w.z) and agree with the vector entry points')
    cj = util.find_one(ctx, suffix='jacobian::compute_jacobian')
    cls = util.closure_bodies(prog, cj.path)
    if not cls:
        # the columns are computed and stored in one loop of compute_jacobian itself
        _columns_in_a_loop(ctx, cj)
        _entry_points(ctx, prog, cj)
        return
    ctx.require(len(cls) == 1, 'column closure of compute_jacobian')
    c = cls[0]
    ctx.fn(c)
    # closure: perturbed copy
    # the closure captures compute_jacobian's joints (parameter 2) and epsilon (parameter 3); upvar fields carry the
    # captured variable's name, so they are matched against the parent's parameter names, whatever those are
    jn, en = cj.name_of(2), cj.name_of(3)
    ctx.require(jn is not None and en is not None and cj.local_ty(3) == 'f64', 'compute_jacobian(robot, joints, epsilon)')

    def is_eps(t):
        return mir.contains(t, lambda x: x[0] == 'fld' and str(x[2]).lstrip('*&') == en and util.is_param(strip(x[1]), 1))
    ok = False
    found = None
    step = None
    fwd_calls = [(bi, t) for bi, t in c.calls() if cname(callee_name(t)) == 'Kinematics::forward']
    if len(fwd_calls) == 1:
        bi, t = fwd_calls[0]
        from .C16 import _root_local
        loc = _root_local(c, t['args'][1], bi)
        if loc is not None:
            init = [d for d in c.defs().get(loc, []) if d[4]]
            ws = partial_writes(c, lambda lhs, i, j: lhs['local'] == loc and len(lhs['proj']) == 1)
            if len(init) == 1 and len(ws) == 1:
                A = strip(c._def_term(init[0]))
                i, j, it, v = ws[0]
                v = strip(v)
                found = 'q[%s] := %s' % (show(it, maxdepth=3), show(v, maxdepth=4))
                init_ok = isinstance(A, tuple) and A[0] == 'fld' and str(A[2]).lstrip('*&') == jn and util.is_param(strip(A[1]), 1)
                idx_ok = util.is_param(it, 2)
                val_ok = isinstance(v, tuple) and v[0] == 'bin' and v[1] == 'Add' and isinstance(strip(v[2]), tuple) and strip(v[2])[0] == 'idx' and \
                    util.is_param(strip(v[2])[2], 2) and is_eps(v[3])
                ok = init_ok and idx_ok and val_ok
                step = strip(v[3]) if isinstance(v, tuple) and v[0] == 'bin' else None
    ctx.check(ok, 'R15.1', 'perturbation', c.where(0), c.path, 'column i must be computed at joints with exactly slot i increased by epsilon', found=found, detail=found or '')
    rv = [strip(x[0]) for x in c.return_values()]
    okp = oko = False
    fp = fo = None
    packed = None
    if len(rv) == 1 and isinstance(rv[0], tuple) and rv[0][0] == 'call' and cname(rv[0][1]).split('::')[-1] == 'new' and len(rv[0]) == 8:
        # the column packed at once: Vector6::new(l.x, l.y, l.z, a.x, a.y, a.z)
        def coord(a):
            a = strip(a)
            if isinstance(a, tuple) and a[0] == 'fld' and a[2] in ('x', 'y', 'z'):
                base = strip(a[1])
                if isinstance(base, tuple) and base[0] == 'call' and cname(base[1]) == 'Deref::deref':
                    base = strip(base[2])
                return base, a[2]
            return None, None
        cs = [coord(a) for a in rv[0][2:]]
        if [k for b_, k in cs] == ['x', 'y', 'z', 'x', 'y', 'z'] and cs[0][0] is not None and cs[0][0] == cs[1][0] == cs[2][0] and \
                cs[3][0] is not None and cs[3][0] == cs[4][0] == cs[5][0]:
            packed = (cs[0][0], cs[3][0])
    if packed is not None or (len(rv) == 1 and isinstance(rv[0], tuple) and rv[0][0] == 'agg' and len(rv[0]) == 4):
        dp, do = packed if packed is not None else (strip(rv[0][2]), strip(rv[0][3]))
        fp, fo = show(dp, maxdepth=6), show(do, maxdepth=7)
        pert = strip(c.call_term(fwd_calls[0][1], (fwd_calls[0][0], None))) if fwd_calls else None
        # the differences are divided by the very step the joint was moved by (a clamped or otherwise different step on one
        # side scales every column)
        if isinstance(dp, tuple) and dp[0] == 'call' and cname(dp[1]).endswith('::div') and is_eps(dp[3]) and strip(dp[3]) == step:
            s = strip(dp[2])
            if isinstance(s, tuple) and s[0] == 'call' and cname(s[1]).endswith('::sub'):
                a, b = strip(s[2]), strip(s[3])
                okp = mir.contains(a, lambda x: x == pert) and _captures_unperturbed(cj, b, 'translation') and 'translation' in show(a, maxdepth=5)
        if isinstance(do, tuple) and do[0] == 'call' and cname(do[1]).endswith('::div') and is_eps(do[3]) and strip(do[3]) == step:
            sa = strip(do[2])
            if isinstance(sa, tuple) and sa[0] == 'call' and cname(sa[1]).endswith('::scaled_axis'):
                w = algebra.word(sa[2])
                # the inverse of the current orientation may be taken once outside the closure and captured
                e2 = (-w[1][1] if _captured_inverse(cj, w[1][0]) else w[1][1]) if len(w) == 2 else None
                oko = len(w) == 2 and w[0][1] == 1 and e2 == -1 and mir.contains(w[0][0], lambda x: x == algebra.canon(pert)) and \
                    'rotation' in show(w[0][0], maxdepth=5) and _captures_unperturbed(cj, w[1][0], 'rotation')
                fo = algebra.show_word(w, lambda a: show(a, maxdepth=3))
    ctx.check(okp, 'R15.1', 'position-rows', c.where(0), c.path, 'position rows must be (P_perturbed - P_current) / epsilon', found=fp, detail=fp or '')
    ctx.check(oko, 'R15.1', 'rotation-rows', c.where(0), c.path,
              'rotation rows must be scaled_axis(R_perturbed * R_current^-1) / epsilon (rotation difference in the world frame)', found=fo,
              expected='R_perturbed * R_current^-1', detail=fo or '')
    if packed is not None:
        # storage and column range: the matrix is from_columns(&array::from_fn(column closure)) over six columns
        from .. import census
        rt = strip(cj.return_term())
        ok = False
        found = show(rt, maxdepth=4)
        if isinstance(rt, tuple) and rt[0] == 'call' and cname(rt[1]).split('::')[-1] == 'from_columns':
            ff = mir.subterms(rt[2], lambda x: x[0] == 'call' and cname(x[1]) == 'array::from_fn')
            if len(ff) == 1:
                cb2, caps2 = util.closure_of_term(prog, ff[0][2])
                ok = cb2 is c
            ncols = census.closure_from_fn_len(c)
            if not ff:
                # ... or from_columns(&(0..6).map(column closure).collect::<Vec<_>>()): the columns in the order of the range
                ms = mir.subterms(rt[2], lambda x: x[0] == 'call' and cname(x[1]) == 'Iterator::map' and len(x) == 4)
                if len(ms) == 1:
                    cb2, caps2 = util.closure_of_term(prog, ms[0][3])
                    r = util.range_of(ms[0][2])
                    outer = []
                    def names(x, stop):
                        if x is stop or not isinstance(x, tuple):
                            return
                        if x[0] == 'call':
                            outer.append(cname(x[1]))
                        for y in x[1:]:
                            names(y, stop)
                    names(rt[2], ms[0])
                    plain = all(n_ in ('Iterator::collect', 'Deref::deref', 'Vec::as_slice', 'AsRef::as_ref', 'Borrow::borrow') for n_ in outer)
                    if cb2 is c and r is not None and util.const_val(r[0]) == 0 and not [a for a in r[2] if a != 'into_iter'] and plain:
                        ok = True
                        ncols = util.const_val(r[1])
        ctx.check(ok, 'R15.1', 'storage', cj.where(0), cj.path,
                  'column i must receive the position difference at rows 0..3 and the rotation difference at rows 3..6 of the same column', found=found, detail='from_columns(from_fn(column))')
        ctx.check(ncols == 6, 'R15.1', 'all-columns', cj.where(0), cj.path, 'columns must be computed for i in 0..6')
        _entry_points(ctx, prog, cj)
        return
    # storage
    views = [(bi, t) for bi, t in cj.calls() if cname(callee_name(t)).endswith('::fixed_view_mut')]
    copies = [(bi, t) for bi, t in cj.calls() if cname(callee_name(t)).endswith('::copy_from')]
    ok = len(views) == 2 and len(copies) == 2
    found = None
    if ok:
        rows = {}
        for bi, t in copies:
            dst = strip(cj.op_term(t['args'][0], (bi, None)))
            src = strip(cj.op_term(t['args'][1], (bi, None)))
            while isinstance(dst, tuple) and dst[0] == 'mutb':
                dst = strip(dst[2])
            if isinstance(dst, tuple) and dst[0] == 'call' and cname(dst[1]).endswith('::fixed_view_mut'):
                row = util.const_val(dst[3])
                col = strip(dst[4])
                comp = src[2] if isinstance(src, tuple) and src[0] == 'fld' else None
                pair = strip(src[1]) if isinstance(src, tuple) and src[0] == 'fld' else None
                # col == element.0 ; src == element.1.<comp>
                col_ok = isinstance(col, tuple) and col[0] == 'fld' and col[2] == '0'
                elem = strip(col[1]) if col_ok else None
                src_ok = isinstance(pair, tuple) and pair[0] == 'fld' and pair[2] == '1' and strip(pair[1]) == elem
                lsrc = util.loop_source(elem) if elem is not None else None
                chain = util.iter_chain(lsrc)[1] if lsrc is not None else None
                rows[row] = (comp, col_ok and src_ok, chain)
        found = str(rows)
        ok = rows.get(0, (None,))[0] == '0' and rows.get(3, (None,))[0] == '1' and all(v[1] for v in rows.values()) and \
            all(v[2] is not None and 'enumerate' in v[2] and not [a for a in v[2] if a in ('skip', 'take', 'rev', 'filter', 'step_by')] for v in rows.values())
    ctx.check(ok, 'R15.1', 'storage', cj.where(views[0][0]) if views else cj.where(0), cj.path,
              'column i must receive the position difference at rows 0..3 and the rotation difference at rows 3..6 of the same column', found=found, detail=found or '')
    # 0..6 map(closure)
    ok = False
    for bi, t in cj.calls():
        if cname(callee_name(t)) == 'Iterator::map':
            base, ad = util.iter_chain(cj.op_term(t['args'][0], (bi, None)))
            base = strip(base)
            ok = isinstance(base, tuple) and base[0] == 'agg' and base[1].endswith('Range') and util.const_val(base[2]) == 0 and util.const_val(base[3]) == 6
    ctx.check(ok, 'R15.1', 'all-columns', cj.where(0), cj.path, 'columns must be computed for i in 0..6')

    _entry_points(ctx, prog, cj)


def _entry_points(ctx, prog, cj):
    # ---- R15.2 / R15.3
    J = {}
    for name in ('velocities', 'velocities_fixed', 'velocities_from_vector', 'torques', 'torques_from_vector', 'new'):
        J[name] = util.find_one(ctx, suffix='jacobian::Jacobian::' + name)
    tv = J['torques_from_vector']
    rv = [strip(x[0]) for x in tv.return_values()]
    ok = False
    if len(rv) == 1:
        m = _tr_mul_normal(_unwrap_v6(rv[0]))
        ok = isinstance(m, tuple) and m[0] == 'call' and cname(m[1]).endswith('::mul') and _is_transpose_of_matrix(m[2]) and util.is_param(m[3], 2)
    ctx.check(ok, 'R15.2', 'torques_from_vector', tv.where(0), tv.path, 'torques must be transpose(J) * F', found=show(rv[0], maxdepth=5) if rv else None)
    t = J['torques']
    rv = [strip(x[0]) for x in t.return_values()]
    ok = False
    pk = None
    if len(rv) == 1:
        m = _tr_mul_normal(_unwrap_v6(rv[0]))
        if isinstance(m, tuple) and m[0] == 'call' and cname(m[1]).endswith('::mul') and _is_transpose_of_matrix(m[2]):
            pk = _pack_order(m[3], t)
            ok = pk == ['t.x', 't.y', 't.z', 'w.x', 'w.y', 'w.z']
        elif isinstance(rv[0], tuple) and rv[0][0] == 'call' and rv[0][1] == tv.path and util.is_param(rv[0][2], 1):
            # delegation to the vector entry point (checked above as transpose(J) * F)
            pk = _pack_order(rv[0][3], t)
            ok = pk == ['t.x', 't.y', 't.z', 'w.x', 'w.y', 'w.z']
    ctx.check(ok, 'R15.3', 'torques', t.where(0), t.path, 'torques(isometry) must equal torques_from_vector(pack(isometry)) with pack = (t.x,t.y,t.z,w.x,w.y,w.z)', found=pk)
    v = J['velocities']
    rv = [strip(x[0]) for x in v.return_values()]
    ok = False
    pk = None
    if len(rv) == 1 and isinstance(rv[0], tuple) and rv[0][0] == 'call' and rv[0][1] == J['velocities_from_vector'].path and util.is_param(rv[0][2], 1):
        pk = _pack_order(rv[0][3], v)
        ok = pk == ['t.x', 't.y', 't.z', 'w.x', 'w.y', 'w.z']
    ctx.check(ok, 'R15.3', 'velocities', v.where(0), v.path, 'velocities(isometry) must be velocities_from_vector(pack(isometry))', found=pk)
    vf = J['velocities_fixed']
    rv = [strip(x[0]) for x in vf.return_values()]
    ok = False
    if len(rv) == 1 and isinstance(rv[0], tuple) and rv[0][0] == 'call' and rv[0][1] == J['velocities_from_vector'].path:
        p = strip(rv[0][3])
        ok = isinstance(p, tuple) and p[0] == 'call' and len(p) == 8 and [util.param_index(x) for x in p[2:5]] == [2, 3, 4] and all(util.const_val(x) == 0.0 for x in p[5:8])
    ctx.check(ok, 'R15.3', 'velocities_fixed', vf.where(0), vf.path, 'velocities_fixed must be velocities_from_vector((vx,vy,vz,0,0,0))')
    vv = J['velocities_from_vector']
    muls = [(bi, c2) for bi, c2 in vv.calls() if cname(callee_name(c2)).endswith('::mul')]
    inv_ok = pinv_ok = False
    for bi, c2 in muls:
        a = strip(vv.op_term(c2['args'][0], (bi, None)))
        x = vv.op_term(c2['args'][1], (bi, None))
        gs = [(strip(g), k) for g, k, sw in vv.guard_terms(bi)]
        s = show(a, maxdepth=6)
        if 'try_inverse' in s and 'matrix' in s and util.is_param(x, 2) and any(g[0] == 'discr' and 'try_inverse' in show(g, maxdepth=3) and k == 1 for g, k in gs):
            inv_ok = True
        if 'pseudo_inverse' in s and 'matrix' in s and 'epsilon' in s and util.is_param(x, 2) and \
                any(g[0] == 'discr' and 'try_inverse' in show(g, maxdepth=3) and k in (0, 'otherwise') for g, k in gs):
            pinv_ok = True
    if not (inv_ok and pinv_ok):
        # one product whose left factor is chosen by a match on try_inverse(): decided per case
        for bi, c2 in muls:
            a_raw = vv.op_term(c2['args'][0], (bi, None))
            x = vv.op_term(c2['args'][1], (bi, None))
            conds = [c for c in util.branch_conditions(vv, a_raw) if isinstance(c, tuple) and c[0] == 'discr' and 'try_inverse' in show(c, maxdepth=4)]
            if len(conds) != 1 or not util.is_param(x, 2):
                continue
            some = show(util.resolve_case(vv, a_raw, {conds[0]: True}), maxdepth=14)
            none = show(util.resolve_case(vv, a_raw, {conds[0]: False}), maxdepth=14)
            inv_ok = 'try_inverse' in some and 'matrix' in some and 'pseudo_inverse' not in some
            pinv_ok = 'pseudo_inverse' in none and 'matrix' in none and 'epsilon' in none
    ctx.check(inv_ok and pinv_ok, 'R15.2', 'velocities_from_vector', vv.where(0), vv.path,
              'velocities must be try_inverse(J) * X, or pseudo_inverse(J, epsilon) * X exactly when no inverse exists', found='inverse=%s pseudo-inverse=%s' % (inv_ok, pinv_ok))
    nw = J['new']
    rt = strip(nw.return_term())
    ok = isinstance(rt, tuple) and rt[0] == 'agg' and isinstance(strip(rt[2]), tuple) and strip(rt[2])[0] == 'call' and strip(rt[2])[1] == cj.path and \
        [util.param_index(x) for x in strip(rt[2])[2:5]] == [1, 2, 3] and util.is_param(rt[3], 3)
    ctx.check(ok, 'R15.2', 'new', nw.where(0), nw.path, 'Jacobian::new must store compute_jacobian(robot, qs, epsilon) and the same epsilon')
    # the matrix is obtained by differencing forward(): it is the geometric Jacobian of the robot only if forward() is the
    # robot's forward kinematics (one joint convention in forward() and in the link model) - the clauses of C03 are re-checked here
    from . import C03
    C03.run(ctx)


def _columns_in_a_loop(ctx, cj):
    """R15.1 when compute_jacobian has no column closure: one loop over i in 0..6 perturbs slot i of a copy of the joints,
    differences forward() against the unperturbed pose and stores both differences into column i."""
    from .C16 import _root_local
    ctx.require(cj.local_ty(3) == 'f64', 'compute_jacobian(robot, joints, epsilon)')

    def is_eps(t):
        return util.is_param(t, 3)
    fwd = [(bi, t) for bi, t in cj.calls() if cname(callee_name(t)) == 'Kinematics::forward']
    unpert = [(bi, t) for bi, t in fwd if util.is_param(cj.op_term(t['args'][1], (bi, None)), 2)]
    pertc = [(bi, t) for bi, t in fwd if (bi, t) not in unpert]
    ctx.require(len(unpert) == 1 and len(pertc) == 1, 'one forward() at the given joints and one at the perturbed joints')
    cur = strip(cj.call_term(unpert[0][1], (unpert[0][0], None)))
    pbi, pt = pertc[0]
    pert = strip(cj.call_term(pt, (pbi, None)))
    ok = False
    found = None
    index = None
    step = None
    loc = _root_local(cj, pt['args'][1], pbi)
    if loc is not None:
        init = [d for d in cj.defs().get(loc, []) if d[4]]
        ws = partial_writes(cj, lambda lhs, i, j: lhs['local'] == loc and len(lhs['proj']) == 1)
        if len(init) == 1 and len(ws) == 1:
            A = strip(cj._def_term(init[0]))
            i, j, it, v = ws[0]
            v = strip(v)
            found = 'q[%s] := %s' % (show(it, maxdepth=3), show(v, maxdepth=4))
            init_ok = util.is_param(A, 2)
            src = util.loop_source(it)
            r = util.range_of(src) if src is not None else None
            idx_ok = r is not None and util.const_val(r[0]) == 0 and util.const_val(r[1]) == 6 and not [a for a in r[2] if a != 'into_iter']
            val_ok = isinstance(v, tuple) and v[0] == 'bin' and v[1] == 'Add' and isinstance(strip(v[2]), tuple) and strip(v[2])[0] == 'idx' and \
                strip(strip(v[2])[2]) == strip(it) and is_eps(v[3])
            step = strip(v[3]) if isinstance(v, tuple) and v[0] == 'bin' else None
            ok = init_ok and idx_ok and val_ok
            index = strip(it)
            ctx.check(idx_ok, 'R15.1', 'all-columns', cj.where(i, j), cj.path, 'columns must be computed for i in 0..6', found=show(it, maxdepth=4))
    ctx.check(ok, 'R15.1', 'perturbation', cj.where(pbi), cj.path, 'column i must be computed at joints with exactly slot i increased by epsilon', found=found, detail=found or '')

    def is_unperturbed(t, part):
        return mir.contains(t, lambda x: x == cur) and not mir.contains(t, lambda x: x == pert) and part in show(t, maxdepth=6)
    rows = {}
    for bi, t in cj.calls():
        if not cname(callee_name(t)).endswith('::copy_from'):
            continue
        dst = strip(cj.op_term(t['args'][0], (bi, None)))
        src = strip(cj.op_term(t['args'][1], (bi, None)))
        while isinstance(dst, tuple) and dst[0] == 'mutb':
            dst = strip(dst[2])
        if isinstance(dst, tuple) and dst[0] == 'call' and cname(dst[1]).endswith('::fixed_view_mut') and len(dst) == 5:
            rows[util.const_val(dst[3])] = (strip(dst[4]), src, bi)
    okp = oko = False
    fp = fo = None
    if 0 in rows:
        col, dp, bi = rows[0]
        fp = show(dp, maxdepth=6)
        if col == index and isinstance(dp, tuple) and dp[0] == 'call' and cname(dp[1]).endswith('::div') and is_eps(dp[3]) and strip(dp[3]) == step:
            sb = strip(dp[2])
            if isinstance(sb, tuple) and sb[0] == 'call' and cname(sb[1]).endswith('::sub'):
                a, b_ = strip(sb[2]), strip(sb[3])
                okp = mir.contains(a, lambda x: x == pert) and 'translation' in show(a, maxdepth=5) and is_unperturbed(b_, 'translation')
    if 3 in rows:
        col, do, bi = rows[3]
        fo = show(do, maxdepth=7)
        if col == index and isinstance(do, tuple) and do[0] == 'call' and cname(do[1]).endswith('::div') and is_eps(do[3]) and strip(do[3]) == step:
            sa = strip(do[2])
            if isinstance(sa, tuple) and sa[0] == 'call' and cname(sa[1]).endswith('::scaled_axis'):
                w = algebra.word(sa[2])
                oko = len(w) == 2 and w[0][1] == 1 and w[1][1] == -1 and mir.contains(w[0][0], lambda x: x == algebra.canon(pert)) and \
                    'rotation' in show(w[0][0], maxdepth=5) and mir.contains(w[1][0], lambda x: x == algebra.canon(cur)) and 'rotation' in show(w[1][0], maxdepth=5)
                fo = algebra.show_word(w, lambda a: show(a, maxdepth=3))
    ctx.check(okp, 'R15.1', 'position-rows', cj.where(rows[0][2]) if 0 in rows else cj.where(0), cj.path, 'position rows must be (P_perturbed - P_current) / epsilon', found=fp, detail=fp or '')
    ctx.check(oko, 'R15.1', 'rotation-rows', cj.where(rows[3][2]) if 3 in rows else cj.where(0), cj.path,
              'rotation rows must be scaled_axis(R_perturbed * R_current^-1) / epsilon (rotation difference in the world frame)', found=fo,
              expected='R_perturbed * R_current^-1', detail=fo or '')
    ctx.check(set(rows) == {0, 3} and index is not None and all(v[0] == index for v in rows.values()), 'R15.1', 'storage', cj.where(0), cj.path,
              'column i must receive the position difference at rows 0..3 and the rotation difference at rows 3..6 of the same column', found=str(sorted(rows)))


def _unwrap_v6(t):
    t = strip(t)
    if isinstance(t, tuple) and t[0] == 'call' and cname(t[1]).endswith('vector6_to_joints'):
        return strip(t[2])
    return None


def _is_transpose_of_matrix(t):
    t = strip(t)
    return isinstance(t, tuple) and t[0] == 'call' and cname(t[1]).endswith('::transpose') and isinstance(strip(t[2]), tuple) and strip(t[2])[0] == 'fld' and \
        strip(t[2])[2] == 'matrix' and util.is_param(strip(t[2])[1], 1)


def _tr_mul_normal(m):
    """nalgebra's A.tr_mul(&x) is transpose(A) * x: present it as that product"""
    m = strip(m) if m is not None else None
    if isinstance(m, tuple) and m[0] == 'call' and cname(m[1]).split('::')[-1] == 'tr_mul' and len(m) == 4:
        return ('call', 'std::ops::Mul::mul', ('call', 'nalgebra::Matrix::transpose', m[2]), m[3])
    return m


def _kind_of(x):
    s = show(x, maxdepth=8)
    return 'w' if 'scaled_axis' in s else ('t' if 'translation' in s else '?')


def _pack_order(t, body=None):
    """component order of the 6-vector handed on: Vector6::new(six components), or a vector local filled by two
    fixed_rows_mut::<3>(r).copy_from(&three-vector) at r = 0 and r = 3 (each 3-vector in its own x, y, z order)"""
    t0 = t
    if body is not None:
        t = util.peval(body.prog, t)       # a helper that packs the isometry is written out
    t = strip(t)
    if isinstance(t, tuple) and t[0] == 'call' and len(t) == 8:
        out = []
        for x in t[2:]:
            x = strip(x)
            comp = x[2] if isinstance(x, tuple) and x[0] == 'fld' else '?'
            out.append('%s.%s' % (_kind_of(x), comp))
        return out
    if body is None:
        return None
    # assembled in place
    root = t0
    while isinstance(root, tuple) and root[0] in ('ref', 'deref'):
        root = root[1]
    if not (isinstance(root, tuple) and root[0] == 'mutb'):
        return None
    loc = root[1]
    parts = {}
    others = 0
    for bi, c in body.calls():
        n = cname(callee_name(c)).split('::')[-1]
        if n == 'copy_from':
            dst = strip(body.op_term(c['args'][0], (bi, None)))
            while isinstance(dst, tuple) and dst[0] == 'mutb':
                dst = strip(dst[2])
            if isinstance(dst, tuple) and dst[0] == 'call' and cname(dst[1]).split('::')[-1] == 'fixed_rows_mut' and '<3' in dst[1].replace(' ', '') + '<3':
                v = dst[2]
                while isinstance(v, tuple) and v[0] in ('ref', 'deref'):
                    v = v[1]
                if isinstance(v, tuple) and v[0] == 'mutb' and v[1] == loc:
                    parts[util.const_val(dst[3])] = _kind_of(body.op_term(c['args'][1], (bi, None)))
                    continue
        if c['args'] and n not in ('zeros', 'copy_from', 'fixed_rows_mut'):
            a0 = body.op_term(c['args'][0], (bi, None))
            r0 = a0
            while isinstance(r0, tuple) and r0[0] in ('ref', 'deref'):
                r0 = r0[1]
            if isinstance(r0, tuple) and r0[0] == 'mutb' and r0[1] == loc and bi not in [b2 for b2, _ in body.calls() if False]:
                others += 1
    if set(parts) == {0, 3}:
        return ['%s.%s' % (parts[0], c) for c in 'xyz'] + ['%s.%s' % (parts[3], c) for c in 'xyz']
    return None
