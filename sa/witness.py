"""Compile-fail witness (thorough tier): Kinematics: Send + Sync.  Runs rustdoc's compile_fail,E0277 doc-test and its
compiling twin against the analysed tree with `cargo +nightly test --doc`."""
import os
import shutil
import subprocess

from .facts import CACHE, VERIF, MachineryError


def run(root):
    wdir = os.path.join(CACHE, 'witness')
    os.makedirs(os.path.join(wdir, 'src'), exist_ok=True)
    shutil.copy(os.path.join(VERIF, 'witness', 'src', 'lib.rs'), os.path.join(wdir, 'src', 'lib.rs'))
    with open(os.path.join(wdir, 'Cargo.toml'), 'w') as fh:
        fh.write('[package]\nname = "opw-witness"\nversion = "0.0.0"\nedition = "2021"\n[dependencies]\n'
                 'rs-opw-kinematics = { path = "%s", default-features = false }\nnalgebra = "0.33"\n[workspace]\n' % root)
    shutil.copy(os.path.join(root, 'Cargo.lock'), os.path.join(wdir, 'Cargo.lock'))
    env = dict(os.environ, CARGO_NET_OFFLINE='true', CARGO_TARGET_DIR=os.path.join(CACHE, 'witness-target'))
    p = subprocess.run(['cargo', '+nightly', 'test', '--doc', '--offline'], cwd=wdir, env=env, capture_output=True, text=True)
    out = p.stdout + p.stderr
    lines = [l for l in out.splitlines() if l.startswith('test ') and ' ... ' in l]
    res = {'compile_fail': None, 'twin': None}
    for l in lines:
        if 'compile fail' in l:
            res['compile_fail'] = l.endswith('ok')
        else:
            res['twin'] = l.endswith('ok')
    if res['compile_fail'] is None or res['twin'] is None:
        raise MachineryError('witness crate did not run both doc-tests:\n' + '\n'.join(out.splitlines()[-15:]))
    return res, lines
