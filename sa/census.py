"""E5: panic-site census.  Every panic originates at an explicit MIR construct (an Assert terminator or a call to a
panicking std function).  For the crate-local bodies reachable from an entry point the census enumerates these sites and
discharges each by (a) a constant/loop-bound argument, (b) a dominating guard, or (c) an allow-list entry keyed by
(function, site kind, ordinal) with a reason (spec/allow.json).  Anything else is reported."""
import json
import os
import re

from . import mir, util
from .facts import VERIF
from .mir import cname, callee_name, strip, show

PANICKY_CALLS = {
    'Option::unwrap', 'Option::expect', 'Result::unwrap', 'Result::expect', 'Result::unwrap_err', 'Result::expect_err',
    'Index::index', 'IndexMut::index_mut', 'slice::windows', 'slice::chunks', 'slice::copy_from_slice', 'slice::split_at',
    'Rng::gen_range', 'Rng::random_range', 'RefCell::borrow', 'RefCell::borrow_mut', 'Vec::remove', 'Vec::swap_remove', 'Vec::insert',
    'Vec::drain', 'Vec::split_off', 'slice::swap', 'String::remove', 'str::split_at', 'Duration::from_secs_f64', 'Iterator::step_by',
    'Vec::swap', 'HashMap::index', 'Instant::duration_since', 'f64::clamp', 'slice::sort_by', 'slice::sort_unstable_by', 'slice::sort_by_key',
}
PANIC_FNS = ('panicking::panic', 'panic_fmt', 'panic_display', 'begin_panic', 'assert_failed', 'panic_explicit', 'unreachable_display',
             'panic_nounwind', 'panic_cold', 'panic_bounds_check', 'unwrap_failed', 'expect_failed')


def load_allow(prog=None):
    """allow-list entries: {"key": "<function path>|<kind>|<ordinal>", "reason": ..}; instead of a literal function path an
    entry may carry "role": {"module": "m::", "calls": "str::find"} = the unique function of module m calling that std function
    (private helpers are identified by what they do, so renaming them does not invalidate the entry)."""
    p = os.path.join(VERIF, 'spec', 'allow.json')
    if not os.path.exists(p):
        return {}
    out = {}
    with open(p) as fh:
        for e in json.load(fh):
            if 'role' in e and prog is not None:
                c = [b.path for b in prog.bodies.values() if b.path.startswith(e['role']['module']) and b.kind != 'Closure' and
                     any(cname(callee_name(t)) == e['role']['calls'] for _, t in b.calls())]
                if len(c) == 1:
                    out['%s|%s' % (c[0], e['site'])] = e
            else:
                out[e['key']] = e
    return out


def array_len_of_type(ty):
    """outermost array length of a type string like `[[f64; 6]; 8]` / `&[f64; 6]`"""
    ty = ty.strip()
    while ty.startswith('&'):
        ty = ty[1:].strip()
        if ty.startswith('mut '):
            ty = ty[4:]
    m = re.match(r'^\[(.*); (\d+)\]$', ty)
    if m:
        return int(m.group(2))
    return None


class Bounds:
    """tiny interval evaluation of usize terms: constants, loop variables of constant ranges, + - * casts"""

    def __init__(self, body):
        self.b = body

    def rng(self, t, depth=0):
        t = strip(t)
        if depth > 12 or not isinstance(t, tuple):
            return None
        c = util.const_val(t)
        if isinstance(c, int) and not isinstance(c, bool):
            return (c, c)
        if t[0] == 'cast':
            return self.rng(t[1], depth + 1)
        if t[0] == 'fld' and t[2] in ('0',) and isinstance(t[1], tuple) and t[1][0] == 'agg' and t[1][1] == 'tuple':
            return self.rng(t[1][2], depth + 1)          # (x op y).0 of a checked arithmetic result
        src = util.loop_source(t)
        if src is not None:
            r = util.range_of(src)
            if r is not None:
                lo, hi = self.rng(r[0], depth + 1), self.rng(r[1], depth + 1)
                if lo is not None and hi is not None and not [a for a in r[2] if a not in ('into_iter', 'rev')]:
                    return (lo[0], max(lo[0], hi[1] - 1))
            # enumerate index over a fixed-size array
            base, ad = util.iter_chain(src)
            return None
        if t[0] == 'fld' and t[2] == '0':
            # index of (i, x) from enumerate over array/slice of known length
            src = util.loop_source(t[1])
            if src is not None:
                base, ad = util.iter_chain(src)
                if 'enumerate' in ad:
                    n = self.len_of(base)
                    if n is not None:
                        return (0, max(0, n[1] - 1))
        if t[0] == 'fld' and t[2] == '0' and self.b.kind == 'Closure' and isinstance(strip(t[1]), tuple) and strip(t[1])[0] == 'param' and strip(t[1])[1] == 2:
            # first component of the (index, item) pair a closure receives from enumerate()
            n = closure_enumerate_len(self.b)
            if n is not None:
                return (0, n - 1)
        if t[0] == 'param' and t[1] == 2 and self.b.kind == 'Closure':
            # the index a closure receives from `std::array::from_fn::<_, N, _>`: 0..N
            n = closure_from_fn_len(self.b)
            if n is not None:
                return (0, n - 1)
        if t[0] == 'param' and t[1] == 2 and self.b.kind == 'Closure':
            # the element a closure receives from `[0, 1, 2, 3].map(closure)` (and from nothing else): the hull of the literal
            r = closure_array_map_range(self.b)
            if r is not None:
                return r
        if t[0] == 'param' and t[1] >= 2 and self.b.kind == 'Closure' and depth < 6:
            # parameter of a local closure that is only ever called directly (`let f = |i| ..; f(0); f(1)`): the hull of the arguments
            prog = self.b.prog
            sites = [(cb, bi, ct) for cb in prog.bodies.values() for bi, ct in cb.calls() if ct['callee'].get('resolved') == self.b.path and len(ct['args']) == 2]
            if sites:
                lo = hi = None
                for cb, bi, ct in sites:
                    tup = strip(cb.op_term(ct['args'][1], (bi, None)))
                    if not (isinstance(tup, tuple) and tup[0] == 'agg' and t[1] - 2 < len(tup) - 2):
                        lo = None
                        break
                    r = Bounds(cb).rng(tup[2 + t[1] - 2], depth + 3)
                    if r is None:
                        lo = None
                        break
                    lo = r[0] if lo is None else min(lo, r[0])
                    hi = r[1] if hi is None else max(hi, r[1])
                else:
                    # ... and it is not handed to anything else as a value
                    creators = [cb for cb in prog.bodies.values() for i2, j2, st in cb.stmts()
                                if st['rv']['k'] == 'agg' and isinstance(st['rv'].get('kind'), dict) and st['rv']['kind'].get('closure') == self.b.path]
                    passed = False
                    for cb in creators:
                        for bi, ct in cb.calls():
                            if ct['callee'].get('resolved') == self.b.path:
                                continue
                            for a in ct['args']:
                                cl, _ = util.closure_of_term(prog, cb.op_term(a, (bi, None)))
                                if cl is not None and cl.path == self.b.path:
                                    passed = True
                    if lo is not None and not passed:
                        return (lo, hi)
        if t[0] == 'fld' and self.b.kind == 'Closure' and util.is_param(t[1], 1):
            # captured variable: evaluate it where the closure is created
            cap = closure_capture(self.b, t[2])
            if cap is not None:
                pb, term = cap
                return Bounds(pb).rng(term, depth + 1)
        if t[0] == 'param' and self.b.kind != 'Closure' and self.b.local_ty(t[1]) == 'usize' and str(self.b.raw.get('vis')).startswith('Restricted'):
            # index parameter of a private helper: the hull of what its callers pass (every call site must be bounded)
            prog = self.b.prog
            sites = [(cb, bi, ct) for cb in prog.bodies.values() for bi, ct in cb.calls() if ct['callee'].get('resolved') == self.b.path]
            fn_refs = any(self.b.path in cb.fn_refs() for cb in prog.bodies.values())
            if sites and not fn_refs and depth < 6:
                lo = hi = None
                for cb, bi, ct in sites:
                    if t[1] - 1 >= len(ct['args']):
                        return None
                    r = Bounds(cb).rng(cb.op_term(ct['args'][t[1] - 1], (bi, None)), depth + 3)
                    if r is None:
                        return None
                    lo = r[0] if lo is None else min(lo, r[0])
                    hi = r[1] if hi is None else max(hi, r[1])
                return (lo, hi)
        if t[0] == 'bin' and t[1] in ('Add', 'Sub', 'Mul'):
            a, b = self.rng(t[2], depth + 1), self.rng(t[3], depth + 1)
            if a is None or b is None:
                return None
            if t[1] == 'Add':
                return (a[0] + b[0], a[1] + b[1])
            if t[1] == 'Sub':
                return (a[0] - b[1], a[1] - b[0])
            return (a[0] * b[0], a[1] * b[1])
        if t[0] == 'call' and cname(t[1]) in ('slice::len', 'Vec::len', 'array::len'):
            return self.len_of(t[2])
        return None

    def _unsized(self):
        """{term of an unsizing cast `&[T; N] -> &[T]`: N}: the length a slice had when it still was an array"""
        if not hasattr(self, '_unsized_map'):
            m = {}
            for i, j, st in self.b.stmts():
                rv = st['rv']
                if rv['k'] == 'cast' and rv['op'].get('k') in ('copy', 'move') and not rv['op']['place']['proj'] and re.match(r'^&\s*(mut\s+)?\[[^;]*\]$', rv.get('ty', '')):
                    n = array_len_of_type(self.b.local_ty(rv['op']['place']['local']).lstrip('&').replace('mut ', '', 1).strip())
                    if n is not None:
                        m[strip(self.b.rv_term(rv, (i, j)))] = n
                        m[strip(self.b.op_term(rv['op'], (i, j)))] = n          # the array reference itself
            self._unsized_map = m
        return self._unsized_map

    def len_of(self, t):
        t0 = t
        t = strip(t)
        if isinstance(t, tuple) and t[0] in ('cast', 'fld', 'as'):
            n = self._unsized().get(t)
            if n is not None:
                return (n, n)
        while isinstance(t, tuple) and t[0] == 'cast':
            t = strip(t[1])
        # the payload of an Option<[T; N]> (or a copy of it): opt.unwrap_or_else(|| DEFAULT), opt.unwrap(), .clone(), (opt as Some).0
        for _ in range(4):
            if isinstance(t, tuple) and t[0] == 'call' and len(t) >= 3 and cname(t[1]).split('::')[-1] in (
                    'unwrap_or_else', 'unwrap_or', 'unwrap', 'expect', 'clone', 'copied', 'cloned', 'as_ref', 'unwrap_or_default'):
                inner = strip(t[2])
                while isinstance(inner, tuple) and inner[0] == 'cast':
                    inner = strip(inner[1])
                if isinstance(inner, tuple) and inner[0] in ('param', 'mparam', 'var', 'mutb'):
                    l = inner[2] if inner[0] == 'var' else inner[1]
                    m = re.match(r'^&?\s*(?:mut\s+)?(?:std::option::)?Option<\s*&?\s*\[(.*); (\d+)\]\s*>$', self.b.local_ty(l).strip())
                    if m:
                        return (int(m.group(2)), int(m.group(2)))
                t = inner
            else:
                break
        if isinstance(t, tuple) and t[0] in ('var', 'mutb') or (isinstance(t, tuple) and t[0] in ('param', 'mparam')):
            l = t[2] if t[0] == 'var' else t[1]
            n = array_len_of_type(self.b.local_ty(l))
            if n is not None:
                return (n, n)
        if isinstance(t, tuple) and t[0] == 'call' and cname(t[1]) == 'array::map' and len(t) == 4:
            return self.len_of(t[2])                  # [T; N]::map keeps the length
        if isinstance(t, tuple) and t[0] == 'agg' and t[1] == 'array':
            return (len(t) - 2, len(t) - 2)
        if isinstance(t, tuple) and t[0] == 'repeat':
            try:
                n = int(str(t[2]).split('_')[0])
                return (n, n)
            except ValueError:
                return None
        if isinstance(t, tuple) and t[0] == 'const' and str(t[1]).startswith('raw:['):
            n = array_len_of_type(t[1][4:])
            if n is not None:
                return (n, n)
        return None


def closure_array_map_range(cb):
    """(min, max) of the integer literals of the array a closure is mapped over with `array::map`, when that is its only use"""
    prog = cb.prog
    lo = hi = None
    for pb in prog.bodies.values():
        makes = any(st['rv']['k'] == 'agg' and isinstance(st['rv'].get('kind'), dict) and st['rv']['kind'].get('closure') == cb.path for i, j, st in pb.stmts())
        if not makes:
            continue
        for bi, ct in pb.calls():
            if ct['callee'].get('resolved') == cb.path:
                return None                      # also called directly: the other rule bounds it
            for k, a in enumerate(ct['args']):
                cl, _ = util.closure_of_term(prog, pb.op_term(a, (bi, None)))
                if cl is None or cl.path != cb.path:
                    continue
                if cname(callee_name(ct)) != 'array::map' or k != 1:
                    return None
                arr = strip(pb.op_term(ct['args'][0], (bi, None)))
                if not (isinstance(arr, tuple) and arr[0] == 'agg' and arr[1] == 'array' and len(arr) > 2):
                    return None
                vals = [util.const_val(x) for x in arr[2:]]
                if not all(isinstance(v, int) and not isinstance(v, bool) for v in vals):
                    return None
                lo = min(vals) if lo is None else min(lo, min(vals))
                hi = max(vals) if hi is None else max(hi, max(vals))
    return None if lo is None else (lo, hi)


def closure_from_fn_len(cb):
    """N when closure body cb is the generator passed to array::from_fn producing [T; N] in its parent, else None"""
    parent = cb.prog.bodies.get(cb.raw.get('parent'))
    owners = [parent] if parent is not None else []
    # the closure may be created inside another closure of the same parent
    owners += [b for b in cb.prog.bodies.values() if b.kind == 'Closure' and b.raw.get('parent') == cb.raw.get('parent') and b is not cb]
    for pb in owners:
        for bi, t in pb.calls():
            if cname(callee_name(t)) == 'array::from_fn' and len(t['args']) == 1:
                cl, caps = util.closure_of_term(cb.prog, pb.op_term(t['args'][0], (bi, None)))
                if cl is not None and cl.path == cb.path:
                    return array_len_of_type(pb.local_ty(t['dest']['local']))
    return None


def closure_capture(cb, name):
    """(creating body, operand term) of the captured variable `name` of closure body cb"""
    idx = None
    for blk in cb.blocks:
        for st in blk['stmts']:
            for pl in _places(st['rv']):
                if pl['local'] == 1:
                    for e in pl['proj']:
                        if e['k'] == 'field':
                            if e['name'] == name:
                                idx = e['i']
                            break
    if idx is None:
        return None
    for pb in cb.prog.bodies.values():
        for i, j, st in pb.stmts():
            rv = st['rv']
            if rv['k'] == 'agg' and rv['kind'].get('closure') == cb.path and idx < len(rv['ops']):
                t = pb.op_term(rv['ops'][idx], (i, j))
                return pb, t
    return None


def closure_enumerate_len(cb):
    """If closure cb is handed to an iterator consumer whose receiver is enumerate() over a sequence of known length, that length."""
    for pb in cb.prog.bodies.values():
        for bi, t in pb.calls():
            for k, a in enumerate(t['args']):
                if k == 0:
                    continue
                at = strip(pb.op_term(a, (bi, None)))
                if isinstance(at, tuple) and at[0] == 'agg' and at[1] == 'closure:' + cb.path:
                    base, ad = util.iter_chain(pb.op_term(t['args'][0], (bi, None)))
                    if 'enumerate' in ad and not [x for x in ad if x in ('skip', 'chain', 'zip', 'step_by', 'filter', 'rev') and ad.index(x) < ad.index('enumerate')]:
                        n = Bounds(pb).len_of(base)
                        if n is not None:
                            return n[1]
    return None


def _places(rv):
    out = []
    k = rv.get('k')
    if k == 'use' and rv['op'].get('k') in ('copy', 'move'):
        out.append(rv['op']['place'])
    elif k == 'bin':
        for o in (rv['a'], rv['b']):
            if o.get('k') in ('copy', 'move'):
                out.append(o['place'])
    elif k in ('ref', 'discr'):
        out.append(rv['place'])
    elif k in ('un', 'cast'):
        o = rv.get('a') or rv.get('op')
        if o.get('k') in ('copy', 'move'):
            out.append(o['place'])
    return out


def sites_of(body):
    """[(kind, bb, description, node)] of potential panic sites in one body"""
    out = []
    for bi in sorted(body.reachable()):
        blk = body.blocks[bi]
        if blk['cleanup']:
            continue
        t = blk['term']
        if t['k'] == 'assert':
            out.append(('assert:' + t['msg'].split(' ')[0].split('{')[0].split('(')[0], bi, t))
        elif t['k'] == 'call':
            n = cname(callee_name(t))
            full = callee_name(t)
            if n in PANICKY_CALLS or any(p in full for p in PANIC_FNS):
                out.append(('call:' + n, bi, t))
            elif t['target'] < 0 and not any(p in full for p in PANIC_FNS):
                out.append(('diverging:' + n, bi, t))
    return out


def _fallback_of_sized_conversion(prog, body):
    """body is the closure given to `unwrap_or_else` on `vec.try_into()` whose target is [T; N] while the vector has length N on
    every path from the last test of its length: the closure (`|_| unreachable!()`) never runs"""
    if body.kind != 'Closure':
        return None
    for pb in prog.bodies.values():
        if pb.path != body.raw.get('parent'):
            continue
        for bi, t in pb.calls():
            if cname(callee_name(t)).split('::')[-1] != 'unwrap_or_else' or len(t['args']) != 2:
                continue
            cl, _ = util.closure_of_term(prog, pb.op_term(t['args'][1], (bi, None)))
            if cl is None or cl.path != body.path:
                continue
            recv = strip(pb.op_term(t['args'][0], (bi, None)))
            if not (isinstance(recv, tuple) and recv[0] == 'call' and cname(recv[1]) in ('TryInto::try_into', 'TryFrom::try_from')):
                continue
            m = re.search(r'\[.*; (\d+)\]', pb.local_ty(t['dest']['local']))
            conv = [(cbi, ct) for cbi, ct in pb.calls() if ct['dest']['local'] == (t['args'][0].get('place') or {}).get('local') and not ct['dest']['proj']]
            if m and len(conv) == 1:
                vec = util._ref_root(pb, conv[0][1]['args'][0])
                ls = util.lengths_reaching(pb, vec, conv[0][0]) if vec is not None else None
                if ls is not None and ls == {int(m.group(1))}:
                    return 'fallback of try_into().unwrap_or_else(..) on a vector whose length is %s on every path (pushes counted): never called' % m.group(1)
    return None


def discharge(prog, body, kind, bi, t, bounds):
    """Return a reason string if the site provably cannot panic, else None."""
    if body.kind == 'Closure' and (kind.startswith('call:') and any(kind.endswith(x) or x in kind for x in PANIC_FNS)):
        why = _fallback_of_sized_conversion(prog, body)
        if why is not None:
            return why
    if kind.startswith('call:') and any(kind.endswith(x) or x in kind for x in PANIC_FNS):
        # `_ => unreachable!()` of a match on an index whose range is known and whose every value has an arm of its own
        for g, k, sw in body.guard_terms(bi):
            if k != 'otherwise':
                continue
            r = bounds.rng(g)
            if r is None:
                continue
            named = {v for v, tg in body.switch_edges(sw) if isinstance(v, int)}
            if r[0] >= 0 and r[1] - r[0] < 64 and all(v in named for v in range(r[0], r[1] + 1)):
                return 'fallback arm of a match on a value in [%d,%d], every one of which has its own arm' % r
    if kind in ('call:Index::index', 'call:IndexMut::index_mut') and 'RangeFull' in (t['callee'].get('args') or ''):
        return 'indexing by `..` takes the whole sequence'
    if kind in ('call:Index::index', 'call:IndexMut::index_mut') and len(t['args']) == 2:
        # a constant range within a sequence of known length: `row[..5]` of a [f64; 6]
        r = strip(body.op_term(t['args'][1], (bi, None)))
        if isinstance(r, tuple) and r[0] == 'agg' and str(r[1]).split('::')[-1] in ('Range', 'RangeTo', 'RangeFrom', 'RangeToInclusive'):
            knd = str(r[1]).split('::')[-1]
            vals = [bounds.rng(x) or _len_by_tests(body, x, bi) for x in r[2:]]
            base = strip(body.op_term(t['args'][0], (bi, None)))
            ln = bounds.len_of(base)
            if ln is None:
                # the receiver may be a reference to an array local: look at the type of the argument local
                o = t['args'][0]
                if o.get('k') in ('copy', 'move'):
                    n = array_len_of_type(body.local_ty(o['place']['local']).lstrip('&').replace('mut ', '', 1).strip())
                    ln = (n, n) if n is not None else None
            if ln is not None and all(v is not None for v in vals):
                lo = vals[0][0] if knd in ('Range', 'RangeFrom') else 0
                hi = (vals[-1][1] + (1 if knd == 'RangeToInclusive' else 0)) if knd != 'RangeFrom' else ln[0]
                if 0 <= lo <= hi <= ln[0]:
                    return 'range %d..%d within length %d' % (lo, hi, ln[0])
    if kind == 'call:slice::copy_from_slice' and len(t['args']) == 2:
        # `dst[..src.len()].copy_from_slice(&src)`: the destination is cut to the length of the source
        dst = strip(body.op_term(t['args'][0], (bi, None)))
        src = strip(body.op_term(t['args'][1], (bi, None)))
        while isinstance(dst, tuple) and dst[0] in ('ref', 'deref', 'mutb') and isinstance(dst[1], tuple):
            dst = strip(dst[1])
        if isinstance(dst, tuple) and dst[0] == 'call' and cname(dst[1]) == 'IndexMut::index_mut' and len(dst) == 4:
            r = strip(dst[3])
            if isinstance(r, tuple) and r[0] == 'agg' and str(r[1]).split('::')[-1] == 'RangeTo' and len(r) == 3:
                lc = _len_call_of(body, r[2])
                sv = util._ref_root(body, t['args'][1])
                if lc is not None and sv != lc[1]:
                    # the source reaches the call through deref / as_slice of the vector
                    x = body.op_term(t['args'][1], (bi, None))
                    while isinstance(x, tuple) and ((x[0] == 'call' and cname(x[1]) in ('Deref::deref', 'Vec::as_slice', 'AsRef::as_ref')) or x[0] in ('ref', 'deref')):
                        x = x[2] if x[0] == 'call' else x[1]
                    if isinstance(x, tuple) and x[0] == 'mutb':
                        sv = x[1]
                    else:
                        sv = x[2] if isinstance(x, tuple) and x[0] == 'var' and x[1] == body.path else None
                if lc is not None and sv == lc[1] and not any(
                        cname(callee_name(gt)) not in util._LEN_CALLS + ('Deref::deref', 'Vec::as_slice', 'Vec::iter', 'slice::iter', 'Vec::is_empty') and gt['args'] and
                        util._ref_root(body, gt['args'][0]) == lc[1] and body.reaches(lc[0], gb) and body.reaches(gb, bi) for gb, gt in body.calls()):
                    return 'the destination is cut to the measured length of the source'
        return None
    if kind.startswith('assert:BoundsCheck'):
        c = strip(body.op_term(t['cond'], (bi, None)))
        if isinstance(c, tuple) and c[0] == 'bin' and c[1] == 'Lt':
            idx = bounds.rng(c[2])
            ln = bounds.rng(c[3])
            if ln is None:
                ln = bounds.len_of(c[3])
            if idx is not None and ln is not None and idx[0] >= 0 and idx[1] < ln[0]:
                return 'index in [%d,%d] < length %d' % (idx[0], idx[1], ln[0])
        return None
    if kind.startswith('assert:Overflow'):
        c = body.op_term(t['cond'], (bi, None))
        # cond is (x op y).1 of a checked operation: bound the operation
        c = strip(c)
        if isinstance(c, tuple) and c[0] == 'const':
            return 'constant'
        # locate the WithOverflow statement defining the tuple
        op = t['cond']
        if op['k'] in ('copy', 'move'):
            l = op['place']['local']
            for d in body.defs().get(l, []):
                if d[0] == 'st' and d[3]['rv']['k'] == 'bin' and d[3]['rv']['op'].endswith('WithOverflow'):
                    rv = d[3]['rv']
                    a = bounds.rng(body.op_term(rv['a'], (d[1], d[2])))
                    b2 = bounds.rng(body.op_term(rv['b'], (d[1], d[2])))
                    if a is not None and b2 is not None:
                        o = rv['op'][:3]
                        lo, hi = {'Add': (a[0] + b2[0], a[1] + b2[1]), 'Sub': (a[0] - b2[1], a[1] - b2[0]), 'Mul': (a[0] * b2[0], a[1] * b2[1])}[o]
                        if lo >= 0 and hi < 2 ** 31:
                            return '%s of values in %s and %s stays in [%d,%d]' % (o, a, b2, lo, hi)
        return None
    if kind.startswith('assert:MisalignedPointerDereference') or kind.startswith('assert:NullPointerDereference'):
        if t.get('span', {}).get('exp'):
            return 'compiler-inserted pointer check inside a std macro expansion (fresh Box allocation)'
        return None
    if kind in ('call:Option::unwrap', 'call:Option::expect', 'call:Result::unwrap', 'call:Result::expect'):
        recv = strip(body.op_term(t['args'][0], (bi, None)))
        want = 1 if kind.startswith('call:Option') else 0
        for g, k, sw in body.guard_terms(bi):
            g = strip(g)
            if isinstance(g, tuple) and g[0] == 'discr' and strip(g[1]) == recv and k == want:
                return 'receiver is on its Some/Ok edge'
            if isinstance(g, tuple) and g[0] == 'call' and cname(g[1]) in ('Option::is_some', 'Result::is_ok') and strip(g[2]) == recv and k in (1, 'otherwise'):
                return 'dominated by is_some()/is_ok()'
        # x.as_ref().unwrap() on the edge where map_or(DEFAULT, ..) of the same option differs from DEFAULT
        for g, k, sw in body.guard_terms(bi):
            g = strip(g)
            if isinstance(g, tuple) and g[0] == 'bin' and g[1] in ('Eq', 'Ne'):
                w, c = strip(g[2]), strip(g[3])
                differs = (g[1] == 'Eq' and k == 0) or (g[1] == 'Ne' and k in (1, 'otherwise'))
                if differs and isinstance(w, tuple) and w[0] == 'call' and cname(w[1]) == 'Option::map_or' and strip(w[2]) == recv and \
                        util.const_val(w[3]) is not None and util.const_val(w[3]) == util.const_val(c):
                    return 'the option is Some whenever map_or(default, ..) of the same option differs from the default'
        # try_into().unwrap() of a Vec whose length was checked
        if isinstance(recv, tuple) and recv[0] == 'call' and cname(recv[1]) in ('TryInto::try_into', 'TryFrom::try_from'):
            src = strip(recv[2])
            m = re.search(r'\[.*; (\d+)\]', body.local_ty(t['dest']['local']))
            if m:
                n = int(m.group(1))
                for g, k, sw in body.guard_terms(bi):
                    g = strip(g)
                    if isinstance(g, tuple) and g[0] == 'bin' and g[1] in ('Ne', 'Eq') and util.const_val(g[3]) == n and \
                            isinstance(strip(g[2]), tuple) and strip(g[2])[0] == 'call' and cname(strip(g[2])[1]) == 'Vec::len':
                        holds_eq = (g[1] == 'Eq' and k in (1, 'otherwise')) or (g[1] == 'Ne' and k == 0)
                        if holds_eq:
                            return 'length == %d on the dominating edge' % n
                # ... or whose length is n on every path from the last test of it (`match v.len() { 5 => v.push(..), 6 => {}, _ => return Err }`)
                conv = [(cbi, ct) for cbi, ct in body.calls() if ct['dest']['local'] == (t['args'][0].get('place') or {}).get('local') and not ct['dest']['proj']]
                if len(conv) == 1:
                    vec = util._ref_root(body, conv[0][1]['args'][0])
                    ls = util.lengths_reaching(body, vec, conv[0][0]) if vec is not None else None
                    if ls is not None and ls == {n}:
                        return 'length == %d on every path from the test of the length (pushes counted)' % n
        if isinstance(recv, tuple) and recv[0] == 'call' and cname(recv[1]) == 'Regex::new':
            a = strip(recv[2])
            if isinstance(a, tuple) and a[0] == 'const' and a[1] == 'str':
                import sre_parse
                try:
                    sre_parse.parse(a[2])
                    return 'Regex::new of the literal %r (pattern parses)' % a[2]
                except Exception:
                    return None
        return None
    if kind in ('call:slice::sort_by', 'call:slice::sort_unstable_by'):
        cb, caps = util.closure_of_term(prog, body.op_term(t['args'][1], (bi, None)))
        if cb is not None:
            rv = [strip(x[0]) for x in cb.return_values()]
            if len(rv) == 1 and isinstance(rv[0], tuple) and rv[0][0] == 'call' and cname(rv[0][1]) == 'Option::unwrap_or' and \
                    isinstance(strip(rv[0][2]), tuple) and strip(rv[0][2])[0] == 'call' and cname(strip(rv[0][2])[1]) == 'PartialOrd::partial_cmp':
                return 'comparator is partial_cmp(..).unwrap_or(Equal) on f64 costs (a total order on the finite costs established by R04.4); the comparator itself cannot panic'
        return None
    if kind in ('call:Index::index', 'call:IndexMut::index_mut'):
        full = callee_name(t)
        if 'Rotation' in full or 'Matrix' in full and '(usize, usize)' in full:
            idx = strip(body.op_term(t['args'][1], (bi, None)))
            if isinstance(idx, tuple) and idx[0] == 'agg' and all(isinstance(util.const_val(x), int) and util.const_val(x) < 3 for x in idx[2:]):
                return 'constant (row, col) < 3 of a 3x3 rotation matrix'
        if 'yaml_rust2::Yaml' in full or 'Yaml as' in full:
            return 'Yaml::index returns the BadValue sentinel instead of panicking'
        if 'Vec<' in full or 'slice' in full or '[T]' in full:
            recv = strip(body.op_term(t['args'][0], (bi, None)))
            idx = body.op_term(t['args'][1], (bi, None))
            kc = util.const_val(idx)
            if isinstance(kc, int):
                # constant index below a length established on the dominating edge
                for g, k, sw in body.guard_terms(bi):
                    g = strip(g)
                    n = None
                    if isinstance(g, tuple) and g[0] == 'bin' and g[1] in ('Eq', 'Ne') and _is_len_of(g[2], recv) and isinstance(util.const_val(g[3]), int):
                        if (g[1] == 'Eq' and k in (1, 'otherwise')) or (g[1] == 'Ne' and k == 0):
                            n = util.const_val(g[3])
                    elif _is_len_of(g, recv) and isinstance(k, int):
                        n = k          # `match v.len() { n => .. }`
                    if n is not None and kc < n:
                        return 'constant index %d < length %d established on the dominating edge' % (kc, n)
            src = util.loop_source(idx)
            if src is not None:
                r = util.range_of(src)
                if r is not None and util.const_val(r[0]) == 0:
                    end = strip(r[1])
                    if isinstance(end, tuple) and end[0] == 'call' and cname(end[1]) == 'Vec::len' and _same_vec(strip(end[2]), recv):
                        if not _shrinks(body, recv):
                            return 'index is the loop variable of 0..v.len() over the same, non-shrinking vector'
        return None
    return None


def _len_call_of(body, x):
    """(block, vec local) of the `v.len()` call that term x denotes"""
    x = strip(x)
    if not (isinstance(x, tuple) and x[0] == 'call' and cname(x[1]) in util._LEN_CALLS):
        return None
    for lb, lt in body.calls():
        if cname(callee_name(lt)) in util._LEN_CALLS and strip(body.call_term(lt, (lb, None))) == x:
            vec = util._ref_root(body, lt['args'][0])
            if vec is not None:
                return lb, vec
    return None


def _len_by_tests(body, x, site):
    """range of `v.len()` at the site when every path to it passed tests of that length which name it (`len != 5 && len != 6`
    left behind on the error edge) and nothing but counted pushes touched the vector since"""
    lc = _len_call_of(body, x)
    if lc is None:
        return None
    ls = util.lengths_reaching(body, lc[1], site)
    if ls and all(isinstance(v, int) for v in ls):
        # the value used is the one measured by the call: no push may lie between the call and the site
        for gb, gt in body.calls():
            if cname(callee_name(gt)) in util._GROW_BY_ONE and util._ref_root(body, gt['args'][0]) == lc[1] and body.reaches(lc[0], gb) and body.reaches(gb, site):
                return None
        return (min(ls), max(ls))
    return None


def _is_len_of(t, recv):
    t = strip(t)
    return isinstance(t, tuple) and t[0] == 'call' and cname(t[1]) in ('Vec::len', 'slice::len') and _same_vec(t[2], recv)


def _same_vec(a, b):
    def peel(t):
        t = strip(t)
        while isinstance(t, tuple) and t[0] == 'call' and cname(t[1]) in ('Deref::deref', 'DerefMut::deref_mut'):
            t = strip(t[2])
        return t
    return peel(a) == peel(b)


def _shrinks(body, recv):
    for bi, t in body.calls():
        n = cname(callee_name(t)).split('::')[-1]
        if n in ('pop', 'truncate', 'remove', 'swap_remove', 'clear', 'drain', 'retain', 'split_off'):
            if _same_vec(body.op_term(t['args'][0], (bi, None)), recv):
                return True
    return False


def census(ctx, rule, entry_paths, follow_virtual=None, skip_bodies=()):
    """Run the census; emits ok/violation instances into ctx.  Returns (n_sites, n_discharged, n_allowed)."""
    prog = ctx.prog
    allow = load_allow(prog)
    reach = prog.reachable_bodies(entry_paths, follow_virtual)
    n = nd = na = 0
    used_allow = set()
    for p in reach:
        if p in skip_bodies:
            continue
        body = prog.bodies[p]
        if body.raw.get('span', {}).get('file', '').startswith('src/tests'):
            continue
        ctx.fn(body)
        bounds = Bounds(body)
        ordinals = {}
        for kind, bi, t in sites_of(body):
            ordinals[kind] = ordinals.get(kind, 0) + 1
            key = '%s|%s|%d' % (p, kind, ordinals[kind])
            n += 1
            why = discharge(prog, body, kind, bi, t, bounds)
            if why is not None:
                nd += 1
                ctx.ok(rule, key, body.where(bi), why, nontrivial=not kind.startswith('assert:BoundsCheck') or 'loop' in why)
                continue
            if key in allow:
                na += 1
                used_allow.add(key)
                ctx.ok(rule, key, body.where(bi), 'allow-listed: ' + allow[key]['reason'])
                continue
            ctx.violation(rule, key, body.where(bi), p, 'possible panic: %s is neither discharged by a bound/guard nor allow-listed' % kind,
                          found=show(body.call_term(t, (bi, None)), maxdepth=4) if t['k'] == 'call' else show(body.op_term(t['cond'], (bi, None)), maxdepth=5))
    return n, nd, na
