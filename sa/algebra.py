"""E3: algebraic normal forms over reconstructed terms.
 (a) commutative-ring normal form (polynomials with rational coefficients over opaque atoms, optional s*s=1 axiom);
 (b) free-group words for products of rigid transforms with inverse().
Neither explores program paths nor calls a solver; both are syntactic normalisers."""
from fractions import Fraction

from .mir import path_tail, strip


# ------------------------------------------------------------------ ring
class Poly:
    __slots__ = ('m',)

    def __init__(self, m=None):
        self.m = m or {}

    @staticmethod
    def const(c):
        c = Fraction(c)
        return Poly({(): c} if c != 0 else {})

    @staticmethod
    def atom(a):
        return Poly({((a, 1),): Fraction(1)})

    def __add__(self, o):
        r = dict(self.m)
        for k, v in o.m.items():
            nv = r.get(k, 0) + v
            if nv == 0:
                r.pop(k, None)
            else:
                r[k] = nv
        return Poly(r)

    def scale(self, c):
        c = Fraction(c)
        if c == 0:
            return Poly()
        return Poly({k: v * c for k, v in self.m.items()})

    def __neg__(self):
        return self.scale(-1)

    def __sub__(self, o):
        return self + (-o)

    def mul(self, o, unit_square=None):
        r = {}
        for k1, v1 in self.m.items():
            for k2, v2 in o.m.items():
                d = dict(k1)
                for a, p in k2:
                    d[a] = d.get(a, 0) + p
                if unit_square:
                    for a in list(d):
                        u = unit_square(a)
                        if u == 'cube':
                            # a in {-1, 0, 1}: a^3 = a, but a^2 = 1 only for a != 0
                            if d[a] > 2:
                                d[a] = 2 - (d[a] % 2)
                        elif u:
                            d[a] %= 2
                            if d[a] == 0:
                                del d[a]
                k = tuple(sorted(d.items(), key=lambda x: repr(x[0])))
                nv = r.get(k, 0) + v1 * v2
                if nv == 0:
                    r.pop(k, None)
                else:
                    r[k] = nv
        return Poly(r)

    def is_zero(self):
        return not self.m

    def is_const(self):
        return all(k == () for k in self.m)

    def const_value(self):
        return self.m.get((), Fraction(0))

    def key(self):
        return tuple(sorted(((k, v) for k, v in self.m.items()), key=repr))

    def __eq__(self, o):
        return isinstance(o, Poly) and self.m == o.m

    def __hash__(self):
        return hash(self.key())

    def atoms(self):
        s = set()
        for k in self.m:
            for a, p in k:
                s.add(a)
        return s

    def show(self, showatom=repr):
        if not self.m:
            return '0'
        parts = []
        for k, v in sorted(self.m.items(), key=repr):
            mon = '*'.join((showatom(a) + ('^%d' % p if p != 1 else '')) for a, p in k)
            c = float(v) if v.denominator != 1 else int(v)
            if mon:
                parts.append(('%s*%s' % (c, mon)) if v != 1 else mon)
            else:
                parts.append(str(c))
        return ' + '.join(parts)


class Ring:
    """Normalise numeric terms into Poly.  `atomize(term)` may rewrite an opaque sub-term into a canonical atom
    (or return None to keep the term itself); `unit_square(atom)` tells which atoms satisfy a*a = 1."""

    def __init__(self, atomize=None, unit_square=None, pure_calls=True):
        self.atomize = atomize
        self.unit_square = unit_square
        self.memo = {}

    def nf(self, t):
        if t in self.memo:
            return self.memo[t]
        r = self._nf(t)
        self.memo[t] = r
        return r

    def _atom(self, t):
        if self.atomize:
            a = self.atomize(t)
            if a is not None:
                if isinstance(a, Poly):
                    return a
                return Poly.atom(a)
        return Poly.atom(t)

    def _nf(self, t):
        if not isinstance(t, tuple):
            return Poly.atom(('lit', t))
        k = t[0]
        if k in ('ref', 'deref'):
            return self.nf(t[1])
        if k == 'mutb':
            return self._atom(t)
        if k == 'const':
            if isinstance(t[2], (int, float)) and not isinstance(t[2], bool):
                v = t[2]
                if isinstance(v, float):
                    if v != v or v in (float('inf'), float('-inf')):
                        return Poly.atom(('special', repr(v)))
                return Poly.const(Fraction(v))
            return self._atom(t)
        if k == 'bin':
            op = t[1]
            if op in ('Add', 'Sub', 'Mul'):
                a = self.nf(t[2])
                b = self.nf(t[3])
                if op == 'Add':
                    return a + b
                if op == 'Sub':
                    return a - b
                return a.mul(b, self.unit_square)
            if op == 'Div':
                a = self.nf(t[2])
                b = self.nf(t[3])
                if b.is_const() and b.const_value() != 0:
                    return a.scale(1 / b.const_value())
                return self._atom(('div', a.key(), b.key()))
            return self._atom(t)
        if k == 'un' and t[1] == 'Neg':
            return -self.nf(t[2])
        if k == 'cast':
            inner = self.nf(t[1])
            if inner.is_const():
                return inner
            return self._atom(t)
        if k == 'call':
            # pure function of normalised arguments
            args = tuple(self.nf(x).key() if _numeric_arg(x) else _canon(x) for x in t[2:])
            return self._atom(('call', _canon_name(t[1])) + args)
        return self._atom(_canon(t))

    def equal(self, a, b):
        return (self.nf(a) - self.nf(b)).is_zero()


def _canon_name(name):
    from .mir import cname
    return cname(name)


def _numeric_arg(x):
    return isinstance(x, tuple)


def _canon(t):
    """Remove ref/deref noise so that `*a.b` and `a.b` are the same atom."""
    if not isinstance(t, tuple):
        return t
    if t[0] in ('ref', 'deref'):
        return _canon(t[1])
    if t[0] == 'const':
        return ('const', t[1], t[2])
    if t[0] == 'param':
        return t
    return (t[0],) + tuple(_canon(x) for x in t[1:])


canon = _canon


# ------------------------------------------------------------------ free group words
MUL_TAILS = ('isometry_ops::mul', 'Mul::mul', 'ops::mul', 'unit_complex_ops::mul', 'quaternion_ops::mul',
             'translation_ops::mul', 'rotation_ops::mul', 'matrix::ops::mul')


def is_mul(t):
    if not (isinstance(t, tuple) and t and t[0] == 'call'):
        return False
    n = _canon_name(t[1])
    return n.endswith('::mul') or n == 'mul'


def is_inverse(t):
    if not (isinstance(t, tuple) and t and t[0] == 'call'):
        return False
    return _canon_name(t[1]).endswith('::inverse')


def is_div(t):
    if not (isinstance(t, tuple) and t and t[0] == 'call'):
        return False
    n = _canon_name(t[1])
    return n.endswith('::div') or n == 'div'


def word(t, subst=None):
    """Flatten a product of transforms into [(atom, +1|-1)], cancelling x*x^-1.  subst: atom -> word."""
    t = strip(t)
    if is_mul(t) and len(t) == 4:
        w = word(t[2], subst) + word(t[3], subst)
    elif is_div(t) and len(t) == 4:
        # a / b of transforms is a * b^-1 (nalgebra defines isometry division as multiplication by the inverse)
        w = word(t[2], subst) + [(a, -e) for a, e in reversed(word(t[3], subst))]
    elif is_inverse(t) and len(t) == 3:
        w = [(a, -e) for a, e in reversed(word(t[2], subst))]
    else:
        a = _canon(t)
        if subst is not None:
            s = subst(a)
            if s is not None:
                return list(s)
        w = [(a, 1)]
    out = []
    for a, e in w:
        if out and out[-1][0] == a and out[-1][1] == -e:
            out.pop()
        else:
            out.append((a, e))
    return out


def show_word(w, showatom):
    return ' * '.join(showatom(a) + ('^-1' if e < 0 else '') for a, e in w) or 'identity'
