"""Helpers that take the varying step as a closure.  `self.solve_unframed(tcp, |robot, pose| robot.inverse(pose))` hides
the call on the wrapped robot from every rule that reads the body of `inverse`: the call sits in a closure that is handed
to a private helper and invoked there through `FnOnce::call_once` on a type parameter.  For exactly that shape - a call
of a crate-local function with a closure literal among its arguments, where the callee invokes a closure-typed parameter -
the loaded facts are rewritten the way rustc's own MIR inliner would: the helper's blocks are copied into the caller
(locals and blocks renumbered, parameters assigned from the arguments, `return` replaced by an assignment to the call's
destination), and inside the copy the invocation of the closure parameter is replaced by a copy of the closure's body
(captures read from the values that were captured, tuple arguments spread).  The caller then denotes the same computation
in one body.  Nothing else is inlined; what does not match the shape is left as it is."""
import copy

CALL_TRAITS = {'std::ops::FnOnce': 'call_once', 'std::ops::Fn': 'call', 'std::ops::FnMut': 'call_mut'}
MAX_BLOCKS = 400


def _shift(x, loff, boff):
    """renumber locals and block targets of a copied fragment, in place"""
    if isinstance(x, dict):
        if 'local' in x and isinstance(x['local'], int) and not isinstance(x['local'], bool):
            x['local'] += loff
        k = x.get('k')
        if k in ('goto', 'drop', 'assert', 'call') and isinstance(x.get('target'), int) and x['target'] >= 0:
            x['target'] += boff
        if k == 'switch':
            x['targets'] = [[v, t + boff] for v, t in x['targets']]
            x['otherwise'] += boff
        for key, v in x.items():
            if key == 'callee':
                continue
            if isinstance(v, (dict, list)):
                _shift(v, loff, boff)
    elif isinstance(x, list):
        for v in x:
            _shift(v, loff, boff)


def _single_def(body, loc):
    ds = [(bi, si, s) for bi, blk in enumerate(body['blocks']) for si, s in enumerate(blk['stmts']) if s['lhs']['local'] == loc]
    dests = [blk for blk in body['blocks'] if (blk.get('term') or {}).get('k') == 'call' and (blk['term'].get('dest') or {}).get('local') == loc]
    if len(ds) == 1 and not dests and not ds[0][2]['lhs']['proj'] and loc > body['arg_count']:
        return ds[0][2]
    return None


def _closure_of_operand(body, op, depth=8):
    """(closure path, captured operands, by_ref) when the operand is - through plain moves/copies and one borrow - a local
    that is defined once, by a closure literal"""
    by_ref = False
    while depth > 0 and op.get('k') in ('move', 'copy') and not op['place']['proj']:
        s = _single_def(body, op['place']['local'])
        if s is None:
            return None
        rv = s['rv']
        if rv['k'] == 'agg' and isinstance(rv.get('kind'), dict) and 'closure' in rv['kind']:
            return rv['kind']['closure'], rv['ops'], by_ref
        if rv['k'] == 'use':
            op = rv['op']
        elif rv['k'] == 'ref' and not rv['place']['proj'] and not by_ref:
            by_ref = True
            op = {'k': 'copy', 'place': rv['place']}
        else:
            return None
        depth -= 1
    return None


def _tuple_ops(body, op):
    if op.get('k') in ('move', 'copy') and not op['place']['proj']:
        s = _single_def(body, op['place']['local'])
        if s is not None and s['rv']['k'] == 'agg' and s['rv'].get('kind') == {'other': 'Tuple'}:
            return s['rv']['ops']
    return None


def _as_copy(op):
    if op.get('k') == 'move':
        return {'k': 'copy', 'place': copy.deepcopy(op['place'])}
    return copy.deepcopy(op)


def _local_ty(body, op):
    if op.get('k') in ('move', 'copy') and not op['place']['proj']:
        return body['locals'][op['place']['local']]['ty']
    if op.get('k') == 'const':
        return op.get('ty')
    return None


def _splice(caller, bi, callee, assigns_of):
    """copy `callee` into `caller` in place of the call that ends block bi; assigns_of(loff) yields the parameter
    initialisations (statements over renumbered locals).  Returns the range of new block indices."""
    t = caller['blocks'][bi]['term']
    loff = len(caller['locals'])
    boff = len(caller['blocks'])
    caller.setdefault('inline_local_base', loff)
    for l in callee['locals']:
        caller['locals'].append({'i': l['i'] + loff, 'ty': l['ty']})
    span = t.get('span')
    new = copy.deepcopy(callee['blocks'])
    for blk in new:
        _shift(blk, loff, boff)
        if blk['term'].get('k') == 'return':
            if t['target'] >= 0:
                blk['stmts'].append({'lhs': copy.deepcopy(t['dest']), 'rv': {'k': 'use', 'op': {'k': 'move', 'place': {'local': loff, 'proj': []}}}, 'span': span})
                blk['term'] = {'k': 'goto', 'target': t['target']}
            else:
                blk['term'] = {'k': 'unreachable'}
    caller['blocks'].extend(new)
    for d in callee.get('debug', []):
        d2 = copy.deepcopy(d)
        if d2.get('place'):
            _shift(d2['place'], loff, 0)
        caller.setdefault('debug', []).append(d2)
    for st in assigns_of(loff):
        st.setdefault('span', span)
        caller['blocks'][bi]['stmts'].append(st)
    caller['blocks'][bi]['term'] = {'k': 'goto', 'target': boff}
    return range(boff, boff + len(new))


def _rewrite_env(blocks_, rng, env_local, caps, by_ref):
    """places `_env.i` / `(*_env).i` of the copied closure body -> the local holding capture i"""
    def f(x):
        if isinstance(x, dict):
            if x.get('local') == env_local and isinstance(x.get('proj'), list):
                pr = x['proj']
                k = 1 if by_ref else 0
                if len(pr) > k and (not by_ref or pr[0].get('k') == 'deref') and pr[k].get('k') == 'field' and pr[k]['i'] in caps:
                    x['local'] = caps[pr[k]['i']]
                    x['proj'] = pr[k + 1:]
            for v in x.values():
                if isinstance(v, (dict, list)):
                    f(v)
        elif isinstance(x, list):
            for v in x:
                f(v)
    for i in rng:
        f(blocks_[i])


def _invokes_param(callee):
    for blk in callee['blocks']:
        t = blk.get('term') or {}
        if t.get('k') == 'call' and (t['callee'].get('trait') in CALL_TRAITS) and t['callee'].get('kind') == 'unresolved':
            return True
    return False


def apply(facts):
    by_path = {b['path']: b for b in facts.get('bodies', [])}
    done = []
    for caller in facts.get('bodies', []):
        if len(caller['blocks']) > MAX_BLOCKS:
            continue
        n0 = len(caller['blocks'])
        for bi in range(n0):
            t = caller['blocks'][bi].get('term') or {}
            if t.get('k') != 'call':
                continue
            c = t['callee']
            callee = by_path.get(c.get('resolved')) if c.get('local') and c.get('kind') == 'item' else None
            if callee is None or callee is caller or callee['kind'] == 'Closure' or len(callee['blocks']) > 60 or len(t['args']) != callee['arg_count']:
                continue
            if not any(_closure_of_operand(caller, a) for a in t['args']) or not _invokes_param(callee):
                continue
            if any((b2.get('term') or {}).get('k') == 'call' and (b2['term']['callee'].get('resolved') == callee['path']) for b2 in callee['blocks']):
                continue                                    # recursive helper
            args = t['args']
            rng = _splice(caller, bi, callee, lambda loff: [{'lhs': {'local': loff + 1 + k, 'proj': []}, 'rv': {'k': 'use', 'op': a}} for k, a in enumerate(args)])
            done.append((caller['path'], callee['path']))
            # invocations of a closure parameter inside the copy
            for ci in list(rng):
                ct = caller['blocks'][ci].get('term') or {}
                if ct.get('k') != 'call' or ct['callee'].get('trait') not in CALL_TRAITS or ct['callee'].get('kind') != 'unresolved' or len(ct['args']) != 2:
                    continue
                found = _closure_of_operand(caller, ct['args'][0])
                spread = _tuple_ops(caller, ct['args'][1])
                if not found or spread is None:
                    continue
                kpath, cap_ops, by_ref = found
                kb = by_path.get(kpath)
                if kb is None or kb['arg_count'] != 1 + len(spread):
                    continue
                env_by_ref = kb['locals'][1]['ty'].startswith('&')
                cap_tys = [_local_ty(caller, o) for o in cap_ops]
                if any(ty is None for ty in cap_tys) or any(o.get('k') != 'const' and _single_def(caller, o['place']['local']) is None and o['place']['local'] > caller['arg_count']
                                                            for o in cap_ops):
                    continue
                cap_locals = {}
                cap_stmts = []
                for i, (o, ty) in enumerate(zip(cap_ops, cap_tys)):
                    caller['locals'].append({'i': len(caller['locals']), 'ty': ty})
                    cap_locals[i] = len(caller['locals']) - 1
                    cap_stmts.append({'lhs': {'local': cap_locals[i], 'proj': []}, 'rv': {'k': 'use', 'op': _as_copy(o)}})
                env_arg = ct['args'][0]

                def assigns(loff, cap_stmts=cap_stmts, spread=spread, env_arg=env_arg):
                    out = list(cap_stmts)
                    out.append({'lhs': {'local': loff + 1, 'proj': []}, 'rv': {'k': 'use', 'op': env_arg}})
                    for k, o in enumerate(spread):
                        out.append({'lhs': {'local': loff + 2 + k, 'proj': []}, 'rv': {'k': 'use', 'op': _as_copy(o)}})
                    return out
                loff = len(caller['locals'])
                krng = _splice(caller, ci, kb, assigns)
                _rewrite_env(caller['blocks'], krng, loff + 1, cap_locals, env_by_ref)
                done.append((caller['path'], kpath))
    return done
