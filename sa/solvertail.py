"""What the internal solvers do with their eight candidates, decided by symbolic interpretation.

The structural rules read the tail of `inverse_intern` / `inverse_intern_5_dof` in the shape it has today: an index loop over
the candidate array, a validity flag, two reduction loops, the gate, a push.  A rewrite of that tail (iterator chains,
`all()`, a helper returning Option, `filter_map`) keeps the behaviour and changes every one of those shapes.  Here the whole
solver is interpreted with the floats it computes kept symbolic:

* every trigonometric / square-root call returns a fresh tag T_k, arithmetic builds terms over the tags, library calls on
  symbolic values return a symbol of their own call (`sa.absint` symbolic mode);
* `is_finite(e)` is answered by a script: false iff e contains a tag of the scenario's `bad` set;
* `e > PI` / `e < -PI` are answered by a script over e = base + n * 2*pi: the scenario says how many turns `base` is away
  from (-pi, pi], so the reduction loops terminate with the net number of turns the scenario asks for;
* `forward(row)` returns a pose symbol that remembers the row; every comparison that involves such a pose is a gate
  comparison and is answered "within tolerance" iff the scenario lets that row pass.

After a run the returned rows are compared with what the property demands for that scenario: exactly the rows all of whose
checked slots are finite and whose gate passes, each with every checked slot reduced by whole turns into (-pi, pi], gated on
the very values that are returned, (5-DOF) slot 6 the requested J6 untouched.  The scenarios: nothing wrong; each slot of
each row non-finite in turn; each checked column one turn high / one turn low; each row failing the gate.  The analysis
needs no knowledge of how the tail is written; what it cannot interpret it reports as such (None), and the structural
rules stay in charge."""
import math
from . import absint
from . import util
from .absint import Interp, Iv, Sym

TWO_PI = 2 * math.pi
TRIG = ('f64::atan2', 'f64::sqrt', 'f64::sin', 'f64::cos', 'f64::acos', 'f64::asin', 'f64::atan', 'f64::tan', 'f64::hypot', 'f64::powi', 'f64::powf', 'f64::sin_cos')


def tags_of(e, acc=None):
    acc = set() if acc is None else acc
    if isinstance(e, Sym):
        t = e.tag
        if t == 'j6-arg':
            acc.add('j6')          # the requested J6 of the 5-DOF solver: scripted a turn high / low like a computed angle
        if isinstance(t, tuple):
            if t and t[0] == 'T':
                acc.add(t[1])
            else:
                for x in t:
                    tags_of(x, acc)
    elif isinstance(e, (tuple, list)):
        for x in e:
            tags_of(x, acc)
    return acc


def poses_in(e, acc=None):
    acc = set() if acc is None else acc
    if isinstance(e, Sym):
        t = e.tag
        if isinstance(t, tuple):
            if t and t[0] == 'pose':
                acc.add(t[1])
            else:
                for x in t:
                    poses_in(x, acc)
    elif isinstance(e, (tuple, list)):
        for x in e:
            poses_in(x, acc)
    return acc


def _is_turn(x):
    return isinstance(x, Iv) and x.is_point() and abs(abs(x.lo) - TWO_PI) < 1e-9


def strip_turns(e):
    """(base, net): e = base + net * 2*pi"""
    net = 0
    while isinstance(e, Sym) and isinstance(e.tag, tuple) and e.tag and e.tag[0] == 'bin' and e.tag[1] in ('Add', 'Sub'):
        _, op, a, c = e.tag
        if _is_turn(c):
            s = 1 if c.lo > 0 else -1
            net += s if op == 'Add' else -s
            e = a
        elif _is_turn(a) and op == 'Add':
            net += 1 if a.lo > 0 else -1
            e = c
        else:
            break
    return e, net


class Scenario:
    def __init__(self, bad=(), high=(), low=(), gate_false=()):
        self.bad, self.high, self.low, self.gate_false = frozenset(bad), frozenset(high), frozenset(low), frozenset(gate_false)

    def need(self, base):
        tg = tags_of(base)
        if tg & self.high:
            return -1
        if tg & self.low:
            return 1
        return 0


class Tail:
    def __init__(self, prog, body, five):
        self.prog, self.b, self.five = prog, body, five
        self.ncols = 5 if five else 6
        self.baseline = None
        self.error = None

    # ------------------------------------------------------------------ one run
    def run(self, sc):
        log = {'forward': [], 'gate': [], 'finite': []}
        counter = [0]

        def val(I, st, a):
            while isinstance(a, tuple) and a and a[0] in ('ref', 'refval', 'mref'):
                a = I.deref(a, st)
            return a

        def fresh(name):
            def h(I, st, a, t, b):
                counter[0] += 1
                return Sym(('T', counter[0], name))
            return h

        def h_finite(I, st, a, t, b):
            e = val(I, st, a[0])
            if isinstance(e, Iv):
                return not e.nan and math.isfinite(e.lo) and math.isfinite(e.hi)
            log['finite'].append(e)
            return not (tags_of(e) & sc.bad)

        def h_forward(I, st, a, t, b):
            row = val(I, st, a[1])
            if not isinstance(row, (tuple, list)):
                raise absint.Unsupported('forward() of %r' % (row,))
            log['forward'].append(tuple(row))
            return Sym(('pose', len(log['forward']) - 1))

        def row_of_pose(pid):
            row = log['forward'][pid]
            return self.row_index(row)

        def oracle(op, a, c):
            pa, pc = poses_in(a), poses_in(c)
            if pa or pc:
                # a gate comparison: `distance <op> tolerance`
                pid = next(iter(pa or pc))
                passes = row_of_pose(pid) not in sc.gate_false
                log['gate'].append((pid, op, a, c))
                small_side_left = bool(pa)
                if op in ('Lt', 'Le'):
                    return passes if small_side_left else not passes
                if op in ('Gt', 'Ge'):
                    return (not passes) if small_side_left else passes
                return None
            # a reduction comparison: e <op> +-pi (or +-2*pi .. any constant): decided by the turns still to go
            if isinstance(a, Sym) and isinstance(c, Iv) and c.is_point():
                e, k, flip = a, c.lo, False
            elif isinstance(c, Sym) and isinstance(a, Iv) and a.is_point():
                e, k, flip = c, a.lo, True
                op = {'Lt': 'Gt', 'Le': 'Ge', 'Gt': 'Lt', 'Ge': 'Le'}.get(op, op)
            else:
                return None
            base, net = strip_turns(e)
            if isinstance(base, Sym) and isinstance(base.tag, tuple) and base.tag and base.tag[0] == 'call' and base.tag[1].endswith('abs'):
                return None
            togo = sc.need(base) - net          # < 0: the value is still too high, > 0: still too low
            if abs(abs(k) - math.pi) < 1e-9:
                if op in ('Gt', 'Ge'):
                    return (togo < 0) if k > 0 else (togo <= 0)
                if op in ('Lt', 'Le'):
                    return (togo > 0) if k < 0 else (togo >= 0)
            return None
        H = {n: fresh(n) for n in TRIG}
        H.update({'f64::is_finite': h_finite, 'Kinematics::forward': h_forward})
        me = {'#adt': 'kinematics_impl::OPWKinematics'}
        adt = self.prog.adts.get('kinematics_impl::OPWKinematics')
        if adt:
            for f in adt['variants'][0]['fields']:
                me[f['name']] = Sym(f['name'])
        I = Interp(self.prog, H, fuel=600000, max_paths=16)
        I.symbolic, I.oracle = True, oracle
        th = util.table_locals(self.b)[0]
        if th is not None:
            I.watch = (self.b.path, th)
        args = [('refval', me, ()), ('refval', Sym('pose-arg'), ())] + ([Sym('j6-arg')] if self.five else [])
        outs = I.run(self.b.path, args)
        self.last_table = getattr(I, 'watched', None)
        if len(outs) != 1:
            raise absint.Undecided('the solver forks (%d outcomes)' % len(outs))
        ret = outs[0].ret
        if not isinstance(ret, (tuple, list)) or any(not isinstance(r, (tuple, list)) or len(r) != 6 for r in ret):
            raise absint.Unsupported('the solver returned %r' % (ret,))
        return [tuple(r) for r in ret], log

    def row_index(self, row):
        key = tuple(strip_turns(x)[0] for x in row[:5])
        for r, brow in enumerate(self.baseline):
            if tuple(brow[:5]) == key:
                return r
        return None

    # ------------------------------------------------------------------ the whole analysis
    def analyse(self):
        """list of findings (rule-key, message) - empty when every scenario comes out as demanded - or None when the solver
        cannot be interpreted (self.error says why)"""
        try:
            rows, log = self.run_baseline()
        except (absint.Unsupported, absint.Undecided) as e:
            self.error = '%s: %s' % (type(e).__name__, e)
            return None
        findings = []
        if len(rows) != 8:
            findings.append(('verify-all-rows', 'with every candidate finite and passing the gate the solver returns %d rows, not 8' % len(rows)))
            return findings
        scenarios = [('nothing wrong', Scenario())]
        for r in range(8):
            for c in range(6):
                tg = tags_of(self.baseline[r][c])
                if tg:
                    scenarios.append(('row %d slot %d not finite' % (r, c), Scenario(bad=tg)))
        for c in range(self.ncols):
            tg = set()
            for r in range(8):
                tg |= tags_of(self.baseline[r][c])
            scenarios.append(('column %d one turn high' % c, Scenario(high=tg)))
            scenarios.append(('column %d one turn low' % c, Scenario(low=tg)))
        for r in range(8):
            scenarios.append(('row %d fails the gate' % r, Scenario(gate_false=[r])))
        if self.five:
            # the requested J6 outside (-pi, pi]: it must come back as it is (a reduction that reaches slot 6 shows here)
            scenarios.append(('requested J6 one turn high', Scenario(high=['j6'])))
            scenarios.append(('requested J6 one turn low', Scenario(low=['j6'])))
        self.n_scenarios = len(scenarios)
        seen_keys = set()
        for name, sc in scenarios:
            try:
                rows, log = self.run(sc)
            except (absint.Unsupported, absint.Undecided) as e:
                self.error = 'scenario "%s": %s: %s' % (name, type(e).__name__, e)
                return None
            for key, msg in self.judge(name, sc, rows, log):
                if key not in seen_keys:
                    seen_keys.add(key)
                    findings.append((key, msg))
        return findings

    def run_baseline(self):
        self.baseline = []
        sc = Scenario()
        # rows are identified through the baseline itself: first run without identification
        self.baseline = [()] * 0
        rows, log = self.run(sc)
        self.baseline = [tuple(strip_turns(x)[0] for x in r) for r in rows]
        self.table = self.last_table           # the candidate table `theta` as the baseline run computed it
        self.gates = list(log['gate'])
        return rows, log

    def gate_clauses(self):
        """the comparisons the gate consists of, as seen in the run where everything passes:
        [(kind, op, tolerance)] with kind 'position' for norm(requested translation - forward translation), 'angle' for an
        angle between the two rotations, '?' otherwise; the side holding the distance is normalised to the left"""
        out = []

        def has(e, what):
            if isinstance(e, Sym):
                t = e.tag
                if t == what:
                    return True
                if isinstance(t, tuple):
                    return any(has(x, what) for x in t) or (what in t)
            return False

        def calls(e, suffix):
            if isinstance(e, Sym) and isinstance(e.tag, tuple):
                if e.tag and e.tag[0] == 'call' and str(e.tag[1]).split('::')[-1] == suffix:
                    return True
                return any(calls(x, suffix) for x in e.tag)
            return False
        for pid, op, a, c in getattr(self, 'gates', []):
            if poses_in(c) and not poses_in(a):
                a, c = c, a
                op = {'Lt': 'Gt', 'Le': 'Ge', 'Gt': 'Lt', 'Ge': 'Le'}.get(op, op)
            d = a
            while isinstance(d, Sym) and isinstance(d.tag, tuple) and d.tag and d.tag[0] == 'call' and str(d.tag[1]).endswith('abs'):
                d = d.tag[2]
            kind = '?'
            if isinstance(d, Sym) and isinstance(d.tag, tuple) and d.tag[0] == 'call' and str(d.tag[1]).split('::')[-1] == 'norm' and len(d.tag) == 3:
                df = d.tag[2]
                if isinstance(df, Sym) and isinstance(df.tag, tuple) and df.tag[0] == 'bin' and df.tag[1] == 'Sub':
                    x, y = df.tag[2], df.tag[3]
                    req = [z for z in (x, y) if has(z, 'pose-arg') and not poses_in(z)]
                    fwd = [z for z in (x, y) if poses_in(z) and not has(z, 'pose-arg')]
                    if len(req) == 1 and len(fwd) == 1 and all(has(z, 'translation') for z in (x, y)) and not calls(df, 'norm'):
                        kind = 'position'
            elif calls(d, 'angle_to') and has(d, 'pose-arg') and has(d, 'rotation'):
                kind = 'angle'
            out.append((kind, op, c))
        return out

    def expected(self, sc):
        out = []
        for r, brow in enumerate(self.baseline):
            if any(tags_of(brow[c]) & sc.bad for c in range(self.ncols)):
                continue
            if r in sc.gate_false:
                continue
            out.append((r, tuple((brow[c], sc.need(brow[c])) if c < self.ncols else (brow[c], 0) for c in range(6))))
        return out

    def judge(self, name, sc, rows, log):
        findings = []
        exp = dict(self.expected(sc))
        got = {}
        for row in rows:
            r = self.row_index(row)
            dec = tuple(strip_turns(x) for x in row)
            if r is None:
                findings.append(('gate', '%s: a returned vector is none of the eight candidates: %r' % (name, row[:2])))
                continue
            got[r] = (row, dec)
        for r, (row, dec) in sorted(got.items()):
            brow = self.baseline[r]
            nf = [c for c in range(self.ncols) if tags_of(brow[c]) & sc.bad]
            if nf:
                findings.append(('finite-slots', '%s: candidate %d is returned although its slot %d is not finite' % (name, r, nf[0])))
                continue
            if r in sc.gate_false:
                findings.append(('gate', '%s: candidate %d is returned although it fails the forward-kinematics gate' % (name, r)))
                continue
            for c in range(self.ncols):
                base, net = dec[c]
                if base != brow[c]:
                    findings.append(('reduce-to-pi', '%s: slot %d of candidate %d is not the candidate value moved by whole turns' % (name, c, r)))
                elif net != sc.need(brow[c]):
                    findings.append(('reduce-to-pi', '%s: slot %d of candidate %d is returned %+d turns away from (-pi, pi] (moved by %+d, needed %+d)' %
                                     (name, c, r, net - sc.need(brow[c]), net, sc.need(brow[c]))))
            if self.five:
                if row[5] != Sym('j6-arg'):
                    findings.append(('slot5', '%s: slot 6 of candidate %d is %r, not the requested J6' % (name, r, row[5])))
            # gated on the very values that are returned
            if tuple(row) not in [tuple(x) for x in log['forward']]:
                findings.append(('gate-fresh', '%s: candidate %d is returned with values the gate did not see' % (name, r)))
        for r in sorted(set(exp) - set(got)):
            findings.append(('verify-all-rows', '%s: candidate %d is finite and passes the gate, yet it is not returned' % (name, r)))
        return findings

    # ------------------------------------------------------------------ the joint map of the candidates (R02.1 / R06.6)
    def inverse_map(self):
        """[(row, col, ok, shown)]: every checked slot of the baseline must be (theta + offsets[c]) * sign_corrections[c]"""
        out = []

        def is_param_elem(x, field, c):
            while isinstance(x, Sym) and isinstance(x.tag, tuple) and x.tag and x.tag[0] in ('cast', 'deref'):
                x = x.tag[1]
            return isinstance(x, Sym) and isinstance(x.tag, tuple) and x.tag[0] == 'idx' and x.tag[2] == c and isinstance(x.tag[1], Sym) and \
                isinstance(x.tag[1].tag, tuple) and x.tag[1].tag[0] == 'fld' and x.tag[1].tag[2] == field
        for r, brow in enumerate(self.baseline or []):
            for c in range(self.ncols):
                e = brow[c]
                ok = False
                if isinstance(e, Sym) and isinstance(e.tag, tuple) and e.tag[0] == 'bin' and e.tag[1] == 'Mul':
                    a, s = e.tag[2], e.tag[3]
                    if is_param_elem(a, 'sign_corrections', c):
                        a, s = s, a
                    if is_param_elem(s, 'sign_corrections', c) and isinstance(a, Sym) and isinstance(a.tag, tuple) and a.tag[0] == 'bin' and a.tag[1] == 'Add':
                        x, o = a.tag[2], a.tag[3]
                        if is_param_elem(x, 'offsets', c):
                            x, o = o, x
                        ok = is_param_elem(o, 'offsets', c) and not (tags_of(x) == set())
                        # ... and the angle is entry [r][c] of the candidate table (not another column's, not another row's)
                        tb = getattr(self, 'table', None)
                        if ok and isinstance(tb, (tuple, list)) and len(tb) == 8 and all(isinstance(row, (tuple, list)) and len(row) >= self.ncols for row in tb):
                            ok = strip_turns(tb[r][c])[0] == strip_turns(x)[0]
                        elif ok:
                            # no table to compare with: at least no two slots of one candidate may carry the same angle
                            ok = not any(cc != c and isinstance(brow[cc], Sym) and repr(x) in repr(brow[cc]) for cc in range(self.ncols))
                out.append((r, c, ok, repr(e)[:160]))
        return out
