"""Role discovery for the OPWKinematics solver internals (shared by C01, C04, C05, C06, C08).
Helpers are identified by what they do (role), not by their names."""
from . import mir, util
from . import util as U
from .mir import cname, strip, callee_name

OPW = 'kinematics_impl::OPWKinematics'


def solver_helpers(prog):
    """Free functions (any module) that the methods of OPWKinematics call directly or from their closures: the helper
    roles (gates, near-normaliser, joint distance) are looked for among these, by signature, not by module or name."""
    own = [b.path for b in prog.bodies.values() if b.raw.get('impl_self') == OPW]
    own += [c for p in list(own) for c in prog.closures_of.get(p, [])]
    out = {}
    for p in own:
        for _, t in prog.bodies[p].calls():
            c = t['callee']
            r = c.get('resolved') if c.get('local') else None
            cb = prog.bodies.get(r)
            if cb is not None and cb.kind == 'Fn' and not cb.raw.get('impl_self'):
                out[cb.path] = cb
    for b in prog.bodies.values():
        # ... and the solver's own inherent methods / associated functions
        if b.raw.get('impl_self') == OPW and not b.raw.get('impl_trait') and b.kind != 'Closure':
            out[b.path] = b
    return list(out.values())


def sentinel_constants(ctx, rule):
    """A previous-joints constant whose first entry is NaN is a sentinel by the solver's own test (`prev[0].is_nan()` selects the
    constraint centres).  The 5-DOF continuation still reads entry 5 of what it was given as the J6 to deliver, and sorting and
    normalisation never see the other entries - so a sentinel must be NaN in entry 0 only: with NaN in entry 5 every 5-DOF
    candidate carries a NaN joint, fails the FK gate and the answer is empty."""
    import math
    from . import util as U
    prog = ctx.prog
    n = 0
    for path, c in prog.consts.items():
        t = prog.const_term(path)
        if not (isinstance(t, tuple) and t[0] == 'agg' and t[1] == 'array' and len(t) == 8 and 'f64' in c.local_ty(0)):
            t2 = strip(t) if t is not None else None
            # [x; 6]
            if isinstance(t2, tuple) and t2[0] == 'repeat' and 'f64; 6' in c.local_ty(0):
                v = U.const_val(t2[1])
                if isinstance(v, float) and v != v:
                    n += 1
                    ctx.violation(rule, 'sentinel/%s' % path.split('::')[-1], c.where(0), path,
                                  'the sentinel constant is NaN in every entry: the 5-DOF continuation takes entry 5 as the requested J6')
            continue
        vals = [U.const_val(x) for x in t[2:]]
        if not (isinstance(vals[0], float) and vals[0] != vals[0]):
            continue
        n += 1
        bad = [i for i, v in enumerate(vals) if i > 0 and not (isinstance(v, (int, float)) and math.isfinite(v))]
        ctx.check(not bad, rule, 'sentinel/%s' % path.split('::')[-1], c.where(0), path,
                  'entries %s of the sentinel constant are not finite: the 5-DOF continuation takes entry 5 as the requested J6 (a NaN there empties the answer)' % bad,
                  found=str(vals), detail='NaN in entry 0 only')
    ctx.floor(rule + ' sentinel constants', n, 1)


def truth(key, edges=None):
    """Truth value of a bool switch edge key (0 -> False, 1/otherwise -> True)."""
    if key == 0:
        return False
    if key == 1 or key == 'otherwise':
        return True
    return None


def opw_methods(prog):
    return {m: prog.trait_impl_method(OPW, 'Kinematics', m) for m in util.KIN_METHODS}


def is_self_constraints_payload(t):
    """term is the Some-payload of self.constraints (through refs / as_ref)"""
    t = strip(t)
    # (self.constraints as Some).0   or ((&self.constraints) as Some).0
    if isinstance(t, tuple) and t[0] == 'fld' and isinstance(t[1], tuple) and t[1][0] == 'as' and t[1][2] == 'Some':
        base = strip(t[1][1])
        while isinstance(base, tuple) and base[0] == 'call' and cname(base[1]) in ('Option::as_ref',):
            base = strip(base[2])
        return isinstance(base, tuple) and base[0] == 'fld' and base[2] == 'constraints' and util.is_param(base[1], 1)
    return False


def filter_role(prog):
    """Bodies F(self, solutions) == match self.constraints {Some(c) => c.filter(&solutions), None => solutions}."""
    out = []
    for b in prog.bodies.values():
        if b.raw.get('impl_self') != OPW or b.arg_count != 2:
            continue
        rv = b.return_values()
        if len(rv) != 2:
            continue
        kinds = set()
        for t, d, rb in rv:
            t = strip(t)
            if isinstance(t, tuple) and t[0] == 'call' and cname(t[1]) == 'Constraints::filter' and is_self_constraints_payload(t[2]) and util.is_param(t[3], 2):
                g = [(x, k) for x, k, sw in b.guard_terms(d[1])]
                if any(_is_discr_of_self_constraints(x) and k == 1 for x, k in g):
                    kinds.add('some')
            elif util.is_param(t, 2):
                g = [(x, k) for x, k, sw in b.guard_terms(d[1])]
                if any(_is_discr_of_self_constraints(x) and k == 0 for x, k in g):
                    kinds.add('none')
        if kinds == {'some', 'none'}:
            out.append(b)
    if not out:
        # in place: if let Some(c) = &self.constraints { solutions.retain(|s| c.compliant(s)) }  solutions
        for b in prog.bodies.values():
            if b.raw.get('impl_self') != OPW or b.arg_count != 2 or b.kind == 'Closure':
                continue
            rv = b.return_values()
            if len(rv) != 1 or not U.is_param(strip(rv[0][0]), 2):
                continue
            rets = [(bi, t) for bi, t in b.calls() if cname(callee_name(t)) == 'Vec::retain']
            if len(rets) != 1:
                continue
            bi, t = rets[0]
            if not U.is_param(strip(b.op_term(t['args'][0], (bi, None))), 2):
                continue
            if not any(_is_discr_of_self_constraints(x) and k == 1 for x, k, sw in b.guard_terms(bi)):
                continue
            cb, caps = U.closure_of_term(prog, b.op_term(t['args'][1], (bi, None)))
            crv = cb.return_values() if cb is not None else []
            if len(crv) != 1:
                continue
            r = strip(U.subst_closure(cb, crv[0][0], list(caps), [('const', 'marker', 'element', None)]))
            if isinstance(r, tuple) and r[0] == 'call' and cname(r[1]) == 'Constraints::compliant' and is_self_constraints_payload(r[2]) and \
                    strip(r[3]) == ('const', 'marker', 'element', None):
                others = [cname(callee_name(ct)) for ci, ct in b.calls() if ci != bi and ct['args'] and U.is_param(strip(b.op_term(ct['args'][0], (ci, None))), 2)
                          and cname(callee_name(ct)).split('::')[0] in ('Vec', 'slice')]
                if not others:
                    out.append(b)
    return out


def _is_discr_of_self_constraints(x):
    x = strip(x)
    if isinstance(x, tuple) and x[0] == 'discr':
        base = strip(x[1])
        while isinstance(base, tuple) and base[0] == 'call' and cname(base[1]) in ('Option::as_ref',):
            base = strip(base[2])
        return isinstance(base, tuple) and base[0] == 'fld' and base[2] == 'constraints' and util.is_param(base[1], 1)
    return False


def compliant_role(prog):
    """Bodies G(self, joints) == match self.constraints {Some(c) => c.compliant(&joints), None => true}."""
    out = []
    for b in prog.bodies.values():
        if b.raw.get('impl_self') != OPW or b.arg_count != 2:
            continue
        rv = b.return_values()
        if len(rv) == 1 and _is_map_or_compliant(prog, b, strip(rv[0][0])):
            out.append(b)
            continue
        if len(rv) != 2:
            continue
        kinds = set()
        for t, d, rb in rv:
            t = strip(t)
            if isinstance(t, tuple) and t[0] == 'call' and cname(t[1]) == 'Constraints::compliant' and is_self_constraints_payload(t[2]) and util.is_param(t[3], 2):
                if any(_is_discr_of_self_constraints(x) and k == 1 for x, k, sw in b.guard_terms(d[1])):
                    kinds.add('some')
            elif util.const_val(t) in (1, True):
                if any(_is_discr_of_self_constraints(x) and k == 0 for x, k, sw in b.guard_terms(d[1])):
                    kinds.add('none')
        if kinds == {'some', 'none'}:
            out.append(b)
    return out


def _is_map_or_compliant(prog, b, t):
    """t == self.constraints.as_ref().map_or(true, |c| c.compliant(&joints))"""
    if not (isinstance(t, tuple) and t[0] == 'call' and cname(t[1]) == 'Option::map_or' and len(t) == 5):
        return False
    recv = strip(t[2])
    while isinstance(recv, tuple) and recv[0] == 'call' and cname(recv[1]) in ('Option::as_ref', 'Option::as_deref'):
        recv = strip(recv[2])
    if not (isinstance(recv, tuple) and recv[0] == 'fld' and recv[2] == 'constraints' and util.is_param(recv[1], 1)):
        return False
    if util.const_val(t[3]) not in (1, True):
        return False
    cl = strip(t[4])
    if not (isinstance(cl, tuple) and cl[0] == 'agg' and str(cl[1]).startswith('closure:')):
        return False
    cb = prog.bodies.get(cl[1][len('closure:'):])
    caps = [strip(x) for x in cl[2:]]
    if cb is None or len(caps) != 1 or not util.is_param(caps[0], 2):
        return False
    rv = cb.return_values()
    if len(rv) != 1:
        return False
    r = strip(rv[0][0])
    if not (isinstance(r, tuple) and r[0] == 'call' and cname(r[1]) == 'Constraints::compliant' and util.is_param(r[2], 2)):
        return False
    a = strip(r[3])
    return isinstance(a, tuple) and a[0] == 'fld' and util.is_param(strip(a[1]), 1)


def intern_solvers(prog):
    """(six_dof_body, five_dof_body): crate-local OPWKinematics methods returning Vec<[f64;6]> that build the
    8-row candidate table; the 5-DOF variant takes a third (j6: f64) parameter."""
    six = five = None
    for b in prog.bodies.values():
        if b.raw.get('impl_self') != OPW or b.raw.get('impl_trait'):
            continue
        if 'Vec<[f64; 6]>' not in b.local_ty(0):
            continue
        n_atan2 = sum(1 for bb in [b] + [prog.bodies[c] for c in prog.closures_of.get(b.path, [])] for _, t in bb.calls() if cname(callee_name(t)) == 'f64::atan2')
        if n_atan2 < 6:
            continue
        if b.arg_count == 2:
            six = b
        elif b.arg_count == 3 and b.local_ty(3) == 'f64':
            five = b
    return six, five


VEC_REMOVERS = {'retain', 'retain_mut', 'truncate', 'pop', 'dedup', 'dedup_by', 'dedup_by_key', 'drain', 'remove',
                'swap_remove', 'clear', 'split_off', 'resize', 'set_len', 'extract_if'}
ITER_DROPPERS = {'filter', 'filter_map', 'take', 'skip', 'take_while', 'skip_while', 'step_by', 'find', 'find_map', 'nth', 'last'}
VEC_REORDER = {'sort', 'sort_by', 'sort_by_key', 'sort_unstable', 'sort_unstable_by', 'sort_unstable_by_key', 'reverse', 'swap',
               'rotate_left', 'rotate_right', 'swap_remove', 'select_nth_unstable', 'par_sort_by'}


_TAILS = {}


def solver_tail(ctx, b, five):
    """(findings, tail) of the symbolic analysis of an internal solver's tail (sa/solvertail.py), once per body and tree;
    findings is None when the solver cannot be interpreted."""
    from . import solvertail
    key = (id(ctx.prog), b.path)
    if key not in _TAILS:
        t = solvertail.Tail(ctx.prog, b, five)
        try:
            f = t.analyse()
        except Exception as e:          # the fallback must never take the check down with it
            f = None
            t.error = 'internal: %s: %s' % (type(e).__name__, e)
        _TAILS[key] = (f, t)
    return _TAILS[key]


def tail_verdict(ctx, b, five, kinds):
    """(ok, message) from the symbolic tail analysis for the finding kinds given, or None when it is not available"""
    f, t = solver_tail(ctx, b, five)
    if f is None:
        return None
    hit = [m for k, m in f if k in kinds]
    return (not hit, hit[0] if hit else 'by symbolic interpretation of the solver (%d scenarios)' % getattr(t, 'n_scenarios', 0))
