"""Rule context, findings, known-findings handling, evidence and report writers, CLI driver."""
import importlib
import json
import os
import sys
import time
import traceback

from . import facts as factsmod
from . import mir
from .facts import MachineryError, VERIF

PROPS = ['C%02d' % i for i in range(1, 21)]


class Ctx:
    def __init__(self, pid, tier, seed):
        self.pid = pid
        self.tier = tier
        self.seed = seed
        self.prog = None
        self.info = {}
        self.instances = []      # (rule, key, status, where, detail)
        self.violations = []     # dicts
        self.samples = []
        self.evaluations = 0
        self.nontrivial = set()
        self.functions = set()
        self.rules = {}          # rule id -> text
        self.notes = []
        self.assumptions = []
        self.extra = {}

    # -- anchors -------------------------------------------------------
    def require(self, cond, what):
        if not cond:
            raise MachineryError('anchor missing or unrecognised shape: ' + what)
        return cond

    def floor(self, rule, n, floor):
        if n < floor:
            raise MachineryError('%s: %d instances, floor is %d (a rule matching too few sites would pass vacuously)' % (rule, n, floor))

    def rule(self, rid, text):
        self.rules[rid] = text

    def fn(self, body):
        if body is not None:
            self.functions.add(body.path if hasattr(body, 'path') else str(body))

    # -- outcomes ------------------------------------------------------
    def ok(self, rule, key, where='', detail='', nontrivial=True):
        self.instances.append((rule, key, 'ok', where, detail))
        self.evaluations += 1
        if nontrivial:
            self.nontrivial.add((rule, key))
        if len(self.samples) < 12 or (len(self.samples) < 40 and not any(s['rule'] == rule for s in self.samples)):
            self.samples.append({'rule': rule, 'instance': key, 'where': where, 'status': 'holds', 'detail': str(detail)[:300]})

    def violation(self, rule, key, where, function, message, found=None, expected=None):
        full = '%s/%s/%s' % (self.pid, rule, key)
        self.instances.append((rule, key, 'violation', where, message))
        self.evaluations += 1
        self.nontrivial.add((rule, key))
        self.violations.append({'key': full, 'rule': rule, 'rule_text': self.rules.get(rule, ''), 'instance': key,
                                'where': where, 'function': function, 'message': message,
                                'found': None if found is None else str(found)[:2000],
                                'expected': None if expected is None else str(expected)[:2000]})

    def check(self, cond, rule, key, where, function, message, found=None, expected=None, detail=''):
        if cond:
            self.ok(rule, key, where, detail)
        else:
            self.violation(rule, key, where, function, message, found, expected)
        return cond

    def note(self, s):
        self.notes.append(s)


def load_known():
    p = os.path.join(VERIF, 'known_findings.json')
    if not os.path.exists(p):
        return {'open': [], 'fixed': []}
    with open(p) as fh:
        return json.load(fh)


R00_TOKENS = ['unsafe ', 'unsafe{', 'static mut', 'RefCell', 'Cell<', 'Mutex', 'RwLock', 'OnceCell', 'thread_local', 'UnsafeCell', 'OnceLock', 'LazyLock']


def r00_preconditions(root):
    """Global analysis preconditions: no unsafe / interior mutability in the anchored (non-test, non-visual) sources."""
    bad = []
    src = os.path.join(root, 'src')
    for dp, dn, fn in os.walk(src):
        if os.sep + 'tests' in dp or os.sep + 'visualize' in dp:
            continue
        for f in fn:
            if not f.endswith('.rs') or f == 'main.rs':
                continue
            path = os.path.join(dp, f)
            in_tests = False
            for ln, line in enumerate(open(path, encoding='utf-8', errors='replace'), 1):
                s = line.strip()
                if s.startswith('#[cfg(test)]'):
                    in_tests = True
                if in_tests:
                    continue
                if s.startswith('//'):
                    continue
                code = s.split('//')[0]
                for tok in R00_TOKENS:
                    if tok in code:
                        bad.append('%s:%d: %s' % (os.path.relpath(path, root), ln, tok.strip()))
    return bad


def run_property(pid, tier='quick', seed=0, explain=None):
    t0 = time.time()
    ctx = Ctx(pid, tier, seed)
    root = factsmod.repo_root()
    facts, info = factsmod.extract('full', root)
    ctx.info = info
    ctx.prog = mir.Program(facts)
    bad = r00_preconditions(root)
    if bad:
        raise MachineryError('analysis preconditions R00 not met: ' + '; '.join(bad[:5]))
    mod = importlib.import_module('sa.rules.' + pid)
    known = load_known()
    open_keys = {e['key']: e for e in known.get('open', []) if e.get('property') == pid}
    try:
        mod.run(ctx)
        if tier == 'thorough':
            if hasattr(mod, 'run_thorough'):
                mod.run_thorough(ctx)
            thorough_extras(ctx, pid, root, facts)
    except MachineryError as e:
        # A definite violation found before the analysis had to stop stays a definite violation (the construct that broke
        # the rule is usually also what the later anchor or instance count misses); without one the run fails closed.
        if not any(v['key'] not in open_keys for v in ctx.violations):
            raise
        ctx.note('analysis stopped early: %s' % e)
        print('  note     analysis stopped after the violations below: %s' % str(e)[:300])
    new = []
    known_hit = []
    for v in ctx.violations:
        if v['key'] in open_keys:
            known_hit.append((v, open_keys[v['key']]))
        else:
            new.append(v)
    wall = time.time() - t0
    ev = build_evidence(ctx, mod, new, known_hit, wall)
    outdir = VERIF if os.path.realpath(root) == '/repo' else os.path.join(VERIF, '.cache', 'scratch-out')
    os.makedirs(os.path.join(outdir, 'evidence'), exist_ok=True)
    with open(os.path.join(outdir, 'evidence', pid + '.json'), 'w') as fh:
        json.dump(ev, fh, indent=1)
    for v, e in known_hit:
        print('KNOWN-FINDING: property=%s %s [%s at %s]' % (pid, e.get('what', v['message']), v['key'], v['where']))
    rep_path = os.path.join(outdir, 'reports', pid + '.json')
    os.makedirs(os.path.dirname(rep_path), exist_ok=True)
    if new:
        with open(rep_path, 'w') as fh:
            json.dump({'property': pid, 'tree_sha256': info['tree_sha256'], 'violations': new}, fh, indent=1)
        if len(new) > 8:
            print('  (%d violations; first 8 shown, all in %s)' % (len(new), rep_path))
        for v in new[:8]:
            print('  rule     %s %s' % (v['rule'], v['rule_text'][:160]))
            print('  instance %s' % v['instance'])
            print('  where    %s  (%s)' % (v['where'], v['function']))
            print('  message  %s' % v['message'])
            if v['found'] is not None:
                print('  found    %s' % v['found'][:400])
            if v['expected'] is not None:
                print('  expected %s' % v['expected'][:400])
            print('  key      %s' % v['key'])
        print('VIOLATION property=%s replay=%s' % (pid, rep_path))
        return 1
    if os.path.exists(rep_path):
        os.remove(rep_path)
    n_ok = sum(1 for i in ctx.instances if i[2] == 'ok')
    print('OK property=%s tier=%s instances=%d holding=%d known=%d functions=%d tree=%s wall=%.1fs' % (
        pid, tier, len(ctx.instances), n_ok, len(known_hit), len(ctx.functions), info['tree_sha256'][:12], wall))
    return 0


def _norm_body(b):
    """body facts with configuration-dependent *printing* removed (re-export paths, DefIds in closure types)"""
    import re
    t = json.dumps(b['blocks'], sort_keys=True)
    t = t.replace('bitflags::__private::core::', 'std::').replace('core::', 'std::')
    t = re.sub(r'DefId\([^)]*\)', 'DefId', t)
    t = re.sub(r'\{closure@[^}]*\}', '{closure}', t)
    return t


def thorough_extras(ctx, pid, root, full_facts):
    """Thorough tier: (T.config) every analysed body is identical in the other buildable feature configurations;
    (T.witness) compile-fail witness for Kinematics: Send + Sync (properties with rayon clauses);
    (T.selftest) the catalogued mutants of this property are reported and its behaviour-preserving variants are not."""
    import subprocess
    ctx.rule('T.config', 'bodies analysed for this property are identical in every buildable non-visual feature configuration that contains them')
    full = {b['path']: b for b in full_facts['bodies']}
    configs = ['full']
    for cfg in ('bare', 'collisions', 'fs_collisions'):
        other, _ = factsmod.extract(cfg, root)
        configs.append(cfg)
        ob = {b['path']: b for b in other['bodies']}
        shared = [p for p in ctx.functions if p in ob and p in full]
        diff = [p for p in shared if _norm_body(ob[p]) != _norm_body(full[p])]
        if diff:
            raise MachineryError('configuration-dependent bodies (%s vs full): %s' % (cfg, diff[:5]))
        ctx.ok('T.config', cfg, '', '%d of %d analysed bodies exist in this configuration and are identical' % (len(shared), len(ctx.functions)), nontrivial=bool(shared))
    ctx.extra['configs'] = configs
    if pid in ('C10', 'C12', 'C14'):
        from . import witness
        ctx.rule('T.witness', 'a Kinematics implementation holding Rc<Cell<_>> must fail to compile (E0277) while its Arc<AtomicUsize> twin compiles: Kinematics: Send + Sync')
        res, lines = witness.run(root)
        ctx.check(res['compile_fail'] and res['twin'], 'T.witness', 'Kinematics: Send + Sync', 'src/kinematic_traits.rs', 'kinematic_traits::Kinematics',
                  'the trait no longer forces implementations to be Send + Sync: closures evaluated by rayon could race (%s)' % res, detail='; '.join(lines))
    if os.path.realpath(root) == '/repo':
        ctx.rule('T.selftest', 'catalogued mutants of this property make the quick check fail with the named rule; behaviour-preserving variants keep it silent')
        sys.path.insert(0, VERIF)
        from selftest.mutants import MUTANTS, KEEP
        try:
            from selftest.mutants import OPEN_REWRITES
        except ImportError:
            OPEN_REWRITES = {}
        # rewrites recorded as not silent yet are left out here: their state is reported by tools/run_selftest.py
        ids = [m[0] for m in MUTANTS if m[4] == pid] + [k[0] for k in KEEP if pid in k[4] and k[0] not in OPEN_REWRITES]
        if ids:
            outp = os.path.join(factsmod.CACHE, 'selftest-%s.json' % pid)
            p = subprocess.run([sys.executable, os.path.join(VERIF, 'tools', 'run_selftest.py'), '--only', ','.join(ids), '--checks', pid, '--jobs', '8', '--json', outp],
                               capture_output=True, text=True, env=dict(os.environ, VERIF_TIER='quick'))
            res = json.load(open(outp))
            for r in res['mutants']:
                if r.get('property') not in (None, pid):
                    continue
                if not r['ok']:
                    raise MachineryError('self-test: mutant %s (%s) was not reported by %s: %s' % (r['id'], r.get('desc'), pid, r.get('why')))
                ctx.ok('T.selftest', r['id'], '', 'mutant "%s" reported by %s' % (r.get('desc'), ','.join(r.get('fired', []))))
            for r in res['keep']:
                if not r['ok']:
                    raise MachineryError('self-test: behaviour-preserving variant %s (%s) raised an alarm: %s' % (r['id'], r.get('desc'), r.get('checks')))
                ctx.ok('T.selftest', r['id'], '', 'variant "%s" silent' % r.get('desc'))


def build_evidence(ctx, mod, new, known_hit, wall):
    n_ok = sum(1 for i in ctx.instances if i[2] == 'ok')
    per_rule = {}
    for r, k, st, w, d in ctx.instances:
        e = per_rule.setdefault(r, {'instances': 0, 'holding': 0})
        e['instances'] += 1
        e['holding'] += 1 if st == 'ok' else 0
    cov = {
        'explanation': getattr(mod, 'EXPLANATION', '') or ('static analysis of rustc MIR facts for ' + ctx.pid),
        'rule': 'Each case is one rule instance (a call site, path, cell of a table, term identity or abstract-interpretation cell) '
                'found in the MIR of /repo\'s current tree; non-trivial = its check involved at least one non-constant operand, guard or path.',
        'obligations': len(ctx.instances),
        'discharged': n_ok,
        'evaluations': max(ctx.evaluations, 1),
        'distinct_nontrivial': len(ctx.nontrivial),
        'samples': ctx.samples[:40] or [{'note': 'no instances'}],
        'per_rule': per_rule,
        'rules': ctx.rules,
        'functions_analysed': sorted(ctx.functions),
        'tree_sha256': ctx.info.get('tree_sha256'),
        'configurations': ctx.extra.get('configs', ['full']),
        'facts_cached': ctx.info.get('cached'),
        'checker_cmd': './check %s --tier %s' % (ctx.pid, ctx.tier),
        'trusted_base': ['rustc MIR construction and const-eval (nightly)', 'opw-facts driver serialisation', 'Python engines in /verif/sa', 'specification tables in /verif/spec'],
        'known_findings_reported': [v['key'] for v, _ in known_hit],
        'new_violations': [v['key'] for v in new],
        'not_decided': getattr(mod, 'NOT_DECIDED', ''),
        'notes': ctx.notes,
        'exhaustive': False,
    }
    cov.update({k: v for k, v in ctx.extra.items() if k not in cov})
    return {
        'property_id': ctx.pid,
        'tier': ctx.tier,
        'seed': int(ctx.seed),
        'level': 'other',
        'coverage': cov,
        'assumptions': list(getattr(mod, 'ASSUMPTIONS', [])) + ctx.assumptions,
        'wall_s': round(wall, 3),
        'violations': len(new),
    }


def main(argv):
    import argparse
    ap = argparse.ArgumentParser()
    ap.add_argument('pid')
    ap.add_argument('--tier', default=os.environ.get('VERIF_TIER', 'quick'))
    ap.add_argument('--explain', default=None)
    a = ap.parse_args(argv)
    seed = int(os.environ.get('VERIF_SEED', '0') or 0)
    pids = PROPS if a.pid == 'all' else [a.pid]
    rc = 0
    for pid in pids:
        try:
            if a.explain:
                with open(a.explain) as fh:
                    rep = json.load(fh)
                print(json.dumps(rep, indent=1))
            r = run_property(pid, a.tier if a.tier in ('quick', 'thorough') else 'quick', seed)
        except MachineryError as e:
            print('ERROR property=%s machinery: %s' % (pid, e))
            r = 2
        except Exception:
            traceback.print_exc()
            print('ERROR property=%s internal error' % pid)
            r = 2
        rc = max(rc, r)
    return rc


if __name__ == '__main__':
    sys.exit(main(sys.argv[1:]))
