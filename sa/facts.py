"""Fact extraction runner: builds /repo's current working tree under the opw-facts rustc driver and
returns the MIR fact base.  Facts are cached by the SHA-256 of the analysed sources, so all checks of one
tree state share one extraction; any edit to the tree forces a new one.  Fails closed (MachineryError)."""
import fcntl
import hashlib
import json
import os
import shutil
import subprocess
import time

VERIF = os.path.dirname(os.path.dirname(os.path.abspath(__file__)))
CACHE = os.path.join(VERIF, '.cache')
DRIVER = os.path.join(VERIF, 'driver', 'target', 'release', 'opw-facts')

CONFIGS = {
    # name -> cargo feature arguments.  "full" hosts every anchored module.
    'full': ['--no-default-features', '--features', 'allow_filesystem,collisions,stroke_planning'],
    'bare': ['--no-default-features'],
    'collisions': ['--no-default-features', '--features', 'collisions'],
    'fs_collisions': ['--no-default-features', '--features', 'allow_filesystem,collisions'],
}


class MachineryError(Exception):
    """The machinery cannot decide (exit 2); never a silent pass, never a VIOLATION."""


FACTS_VERSION = 5      # bump when the driver's output changes: older cached fact files are then ignored


def repo_root():
    return os.environ.get('OPW_REPO', '/repo')


def tree_hash(root):
    h = hashlib.sha256()
    files = []
    for base in ('src',):
        for dp, dn, fn in os.walk(os.path.join(root, base)):
            dn.sort()
            for f in sorted(fn):
                if f.endswith('.rs'):
                    files.append(os.path.join(dp, f))
    for f in ('Cargo.toml', 'Cargo.lock'):
        files.append(os.path.join(root, f))
    for f in sorted(files):
        if not os.path.exists(f):
            continue
        h.update(os.path.relpath(f, root).encode())
        h.update(b'\0')
        with open(f, 'rb') as fh:
            h.update(fh.read())
        h.update(b'\0')
    return h.hexdigest()


def _sysroot_lib():
    out = subprocess.run(['rustc', '+nightly', '--print', 'sysroot'], capture_output=True, text=True)
    if out.returncode != 0:
        raise MachineryError('nightly toolchain not available: ' + out.stderr.strip())
    return os.path.join(out.stdout.strip(), 'lib')


def _ensure_driver():
    """Build the driver when it is missing or older than its source (normally done by setup.sh)."""
    src = os.path.join(VERIF, 'driver', 'src', 'main.rs')
    if os.path.exists(DRIVER) and os.path.getmtime(DRIVER) >= os.path.getmtime(src):
        return
    import fcntl
    os.makedirs(CACHE, exist_ok=True)
    with open(os.path.join(CACHE, 'driver.lock'), 'w') as lk:
        fcntl.flock(lk, fcntl.LOCK_EX)
        if os.path.exists(DRIVER) and os.path.getmtime(DRIVER) >= os.path.getmtime(src):
            return
        p = subprocess.run(['cargo', 'build', '--release', '--offline'], cwd=os.path.join(VERIF, 'driver'), capture_output=True, text=True,
                           env=dict(os.environ, CARGO_NET_OFFLINE='true'))
        if p.returncode != 0 or not os.path.exists(DRIVER):
            raise MachineryError('driver does not build (run ./setup.sh): ' + p.stderr.strip()[-400:])
        os.utime(DRIVER, None)


def extract(config='full', root=None, quiet=True):
    """Return (facts dict, info dict).  Uses the cache when the tree hash matches."""
    root = root or repo_root()
    _ensure_driver()
    os.makedirs(os.path.join(CACHE, 'facts'), exist_ok=True)
    th = tree_hash(root)
    fpath = os.path.join(CACHE, 'facts', '%s.%s.v%d.json' % (th, config, FACTS_VERSION))
    info = {'tree_sha256': th, 'config': config, 'repo': root, 'cached': True, 'extract_s': 0.0}
    facts = None
    for attempt in range(3):
        if not os.path.exists(fpath):
            info['cached'] = False
            t0 = time.time()
            with open(os.path.join(CACHE, 'lock'), 'w') as lk:
                fcntl.flock(lk, fcntl.LOCK_EX)
                if not os.path.exists(fpath):
                    _run_driver(root, config, th, fpath, quiet)
            info['extract_s'] = round(time.time() - t0, 2)
        try:
            os.utime(fpath)              # least-recently-used eviction: a file in use is young
            with open(fpath) as fh:
                facts = json.load(fh)
            break
        except FileNotFoundError:
            continue                     # evicted by a concurrent run between the existence test and the read: extract again
    if facts is None:
        raise MachineryError('fact file %s kept disappearing' % fpath)
    if facts.get('tree_sha256') != th:
        raise MachineryError('stale fact file %s' % fpath)
    return facts, info


def _run_driver(root, config, th, fpath, quiet):
    target = os.path.join(CACHE, 'target')
    fp_dir = os.path.join(target, 'debug', '.fingerprint')
    if os.path.isdir(fp_dir):
        for d in os.listdir(fp_dir):
            if d.startswith('rs-opw-kinematics-'):
                shutil.rmtree(os.path.join(fp_dir, d), ignore_errors=True)
    nonce = '%d-%d' % (os.getpid(), time.time_ns())
    tmp_out = fpath + '.tmp.%d' % os.getpid()
    env = dict(os.environ)
    env.update({
        'OPWFACTS_OUT': tmp_out,
        'OPWFACTS_NONCE': nonce,
        'LD_LIBRARY_PATH': _sysroot_lib() + ':' + env.get('LD_LIBRARY_PATH', ''),
        'RUSTFLAGS': '-Zmir-opt-level=0 -Awarnings',
        'RUSTC_WORKSPACE_WRAPPER': DRIVER,
        'CARGO_TARGET_DIR': target,
        'CARGO_NET_OFFLINE': 'true',
        'CARGO_INCREMENTAL': '0',
    })
    cmd = ['cargo', '+nightly', 'check', '--offline', '--lib'] + CONFIGS[config]
    p = subprocess.run(cmd, cwd=root, env=env, capture_output=True, text=True)
    if p.returncode != 0:
        tail = '\n'.join(p.stderr.strip().splitlines()[-25:])
        raise MachineryError('cargo check (%s) failed on %s:\n%s' % (config, root, tail))
    if not os.path.exists(tmp_out):
        raise MachineryError('driver produced no fact file (wrapper skipped?)')
    with open(tmp_out) as fh:
        facts = json.load(fh)
    os.remove(tmp_out)
    if facts.get('nonce') != nonce:
        raise MachineryError('fact file nonce mismatch')
    if tree_hash(root) != th:
        raise MachineryError('source tree changed during extraction')
    facts['tree_sha256'] = th
    facts['config'] = config
    with open(tmp_out, 'w') as fh:
        json.dump(facts, fh)
    os.replace(tmp_out, fpath)
    # keep the cache bounded
    fdir = os.path.dirname(fpath)
    files = sorted((os.path.getmtime(os.path.join(fdir, f)), f) for f in os.listdir(fdir) if f.endswith('.json'))
    now = time.time()
    for mt, f in files[:-120]:
        if now - mt > 900:               # never evict what a concurrent run may be about to read
            try:
                os.remove(os.path.join(fdir, f))
            except FileNotFoundError:
                pass
