"""E4/E6: abstract interpreter over MIR facts.
Domain: ints/bools/enum discriminants as constants (conditional constant propagation, constant-bounded loops are
unrolled), f64/f32 as outward-rounded intervals with a NaN flag, aggregates field-wise, references as place paths,
opaque symbolic tags for everything the rule does not interpret.  An indefinite comparison forks the abstract path
and refines the compared operands.  No library code is executed: the interpreter walks the MIR facts; external calls
are given by transfer functions supplied by the rule (their contracts are listed in the evidence as assumptions)."""
import re
import math
from math import inf, nextafter

from .mir import cname, callee_name


class Undecided(Exception):
    pass


class Unsupported(Exception):
    pass


class Iv:
    __slots__ = ('lo', 'hi', 'nan')

    def __init__(self, lo, hi=None, nan=False):
        self.lo = float(lo)
        self.hi = float(lo if hi is None else hi)
        self.nan = nan

    def __repr__(self):
        return '[%.9g, %.9g]%s' % (self.lo, self.hi, '?nan' if self.nan else '')

    def __eq__(self, o):
        return isinstance(o, Iv) and self.lo == o.lo and self.hi == o.hi and self.nan == o.nan

    def __hash__(self):
        return hash((self.lo, self.hi, self.nan))

    def is_point(self):
        return self.lo == self.hi and not self.nan

    def empty(self):
        return self.lo > self.hi


def dn(x):
    return nextafter(x, -inf) if math.isfinite(x) else x


def up(x):
    return nextafter(x, inf) if math.isfinite(x) else x


def _mk(lo, hi, nan):
    if lo != lo or hi != hi:
        return Iv(-inf, inf, True)
    return Iv(dn(lo), up(hi), nan)


def _pt(a, b):
    return a.lo == a.hi and b.lo == b.hi and not a.nan and not b.nan and math.isfinite(a.lo) and math.isfinite(b.lo)


def iv_add(a, b):
    if _pt(a, b):
        return Iv(a.lo + b.lo)      # IEEE round-to-nearest is deterministic: constants fold exactly
    nan = a.nan or b.nan or (a.lo == -inf and b.hi == inf) or (a.hi == inf and b.lo == -inf)
    lo = a.lo + b.lo if not (math.isinf(a.lo) and math.isinf(b.lo) and a.lo != b.lo) else -inf
    hi = a.hi + b.hi if not (math.isinf(a.hi) and math.isinf(b.hi) and a.hi != b.hi) else inf
    return _mk(lo, hi, nan)


def iv_neg(a):
    return Iv(-a.hi, -a.lo, a.nan)


def iv_sub(a, b):
    if _pt(a, b):
        return Iv(a.lo - b.lo)
    return iv_add(a, iv_neg(b))


def iv_mul(a, b):
    if _pt(a, b):
        r = a.lo * b.lo
        if math.isfinite(r):
            return Iv(r)
    c = []
    nan = a.nan or b.nan
    for x in (a.lo, a.hi):
        for y in (b.lo, b.hi):
            p = x * y if not ((x == 0 and math.isinf(y)) or (y == 0 and math.isinf(x))) else None
            if p is None:
                nan = nan or True
                p = 0.0
            c.append(p)
    return _mk(min(c), max(c), nan)


def iv_div(a, b):
    if _pt(a, b) and b.lo != 0:
        return Iv(a.lo / b.lo)
    if b.lo <= 0 <= b.hi:
        return Iv(-inf, inf, True)
    c = []
    nan = a.nan or b.nan
    for x in (a.lo, a.hi):
        for y in (b.lo, b.hi):
            if math.isinf(x) and math.isinf(y):
                nan = True
                c.append(0.0)
            else:
                c.append(x / y)
    return _mk(min(c), max(c), nan)


def iv_rem(a, b):
    """Rust `%` on floats = fmod (sign of the dividend); divisor must be a positive point."""
    if not (b.is_point() and b.lo > 0):
        return Iv(-inf, inf, True)
    m = b.lo
    if math.isinf(a.lo) or math.isinf(a.hi):
        return Iv(-m, m, True)
    if a.is_point():
        return Iv(math.fmod(a.lo, m))
    if a.lo >= 0:
        k = math.floor(a.lo / m)
        if a.hi < (k + 1) * m:
            return Iv(max(0.0, dn(dn(a.lo - k * m))), min(m, up(up(a.hi - k * m))), a.nan)
        return Iv(0.0, m, a.nan)
    if a.hi <= 0:
        r = iv_rem(iv_neg(a), b)
        return iv_neg(r)
    return Iv(-m, m, a.nan)


def iv_rem_euclid(a, b):
    if not (b.is_point() and b.lo > 0):
        return Iv(-inf, inf, True)
    m = b.lo
    if math.isinf(a.lo) or math.isinf(a.hi):
        return Iv(0.0, m, True)
    if a.is_point():
        r = math.fmod(a.lo, m)          # Rust: let r = self % rhs; if r < 0.0 { r + rhs.abs() } else { r }
        if r < 0.0:
            r = r + abs(m)
        return Iv(r)
    k = math.floor(a.lo / m)
    if a.hi < (k + 1) * m:
        return Iv(max(0.0, dn(dn(a.lo - k * m))), min(m, up(up(a.hi - k * m))), a.nan)
    return Iv(0.0, m, a.nan)


def iv_abs(a):
    if a.lo >= 0:
        return Iv(a.lo, a.hi, a.nan)
    if a.hi <= 0:
        return Iv(-a.hi, -a.lo, a.nan)
    return Iv(0.0, max(-a.lo, a.hi), a.nan)


def iv_cmp(op, a, b):
    """three-valued comparison (None = indefinite).  NaN operands make ordered comparisons false."""
    if a.nan or b.nan:
        if a.lo == -inf and a.hi == inf and a.nan or b.lo == -inf and b.hi == inf and b.nan:
            return None
        return None
    if op == 'Lt':
        if a.hi < b.lo:
            return True
        if a.lo >= b.hi:
            return False
        return None
    if op == 'Le':
        if a.hi <= b.lo:
            return True
        if a.lo > b.hi:
            return False
        return None
    if op == 'Gt':
        return iv_cmp('Lt', b, a)
    if op == 'Ge':
        return iv_cmp('Le', b, a)
    if op == 'Eq':
        if a.is_point() and b.is_point() and a.lo == b.lo:
            return True
        if a.hi < b.lo or b.hi < a.lo:
            return False
        return None
    if op == 'Ne':
        r = iv_cmp('Eq', a, b)
        return None if r is None else (not r)
    raise Unsupported('cmp ' + op)


class Top:
    def __repr__(self):
        return 'T'


TOP = Top()


class Sym:
    """Opaque symbolic tag (a mesh, a pose, a robot...)."""
    __slots__ = ('tag',)

    def __init__(self, tag):
        self.tag = tag

    def __repr__(self):
        return 'sym%r' % (self.tag,)

    def __eq__(self, o):
        return isinstance(o, Sym) and self.tag == o.tag

    def __hash__(self):
        return hash(('sym', self.tag))


def enum(idx, *payload):
    return ('enum', idx, tuple(payload))


SOME = lambda v: enum(1, v)
NONE = enum(0)


class Cmp:
    """Result of a float comparison kept symbolic until it is switched on."""
    __slots__ = ('op', 'a', 'b', 'res')

    def __init__(self, op, a, b, res):
        self.op, self.a, self.b, self.res = op, a, b, res


class Outcome:
    __slots__ = ('ret', 'cells', 'trace', 'forked', 'cmp_forked')

    def __init__(self, ret, cells, trace, forked, cmp_forked=False):
        self.ret = ret
        self.cells = cells
        self.trace = trace
        self.forked = forked
        self.cmp_forked = cmp_forked


class Interp:
    def __init__(self, prog, handlers=None, fuel=200000, max_paths=4096):
        self.prog = prog
        self.handlers = handlers or {}
        self.fuel = fuel
        self.max_paths = max_paths
        self.steps = 0
        self.depth = 0
        # symbolic mode: floats the library computes are opaque symbols (arithmetic on them builds terms, unknown library
        # calls return a symbol of their own call, comparisons are answered by `oracle(op, a, b)`)
        self.symbolic = False
        self.oracle = None

    # ---------------------------------------------------------------- values / places
    def const(self, o):
        ty = o.get('ty', '')
        if 'variant' in o:
            return ('enum', self._variant_index(ty, o['variant']), ())
        if 'hex' in o:
            return ('bytes', o['hex'])
        if 'f' in o:
            v = float(o['f'])
            if v != v:
                return Iv(-inf, inf, True) if False else Iv(0.0, 0.0, True)
            return Iv(v, v)
        if 'bits' in o:
            v = int(o['bits'])
            if ty == 'bool':
                return bool(v)
            if ty == 'char':
                return chr(v)
            size = o.get('size', 8)
            if ty.startswith('i') and v >= 1 << (8 * size - 1):
                v -= 1 << (8 * size)
            return v
        if ty == '()':
            return ()
        if 'raw' in o and o.get('raw_ty', '').startswith('[f64;'):
            import struct
            raw = bytes.fromhex(o['raw'])
            vals = struct.unpack('<%dd' % (len(raw) // 8), raw)
            return tuple(Iv(x, x) if x == x else Iv(0.0, 0.0, True) for x in vals)
        if 'raw' in o and o.get('raw_ty') in ('f32', 'f64') and ty.startswith('&'):
            import struct
            raw = bytes.fromhex(o['raw'])
            x = struct.unpack('<f' if o['raw_ty'] == 'f32' else '<d', raw)[0]
            return ('refval', Iv(x, x) if x == x else Iv(0.0, 0.0, True), ())
        if 'raw' in o and ty.startswith('&') and o.get('raw_ty') in ('usize', 'u16', 'u32', 'u64', 'u8', 'i8', 'i16', 'i32', 'i64', 'isize', 'bool'):
            raw = bytes.fromhex(o['raw'])
            return ('refval', int.from_bytes(raw, 'little', signed=o['raw_ty'].startswith('i')), ())
        if re.match(r'^&\[.*; 0\]$', ty or ''):
            return ('refval', (), ())           # the empty array literal
        if re.match(r'^\[.*; 0\]$', ty or ''):
            return ()
        if 'str' in o:
            return o['str']
        if 'fn' in o:
            return Sym(('fn', o['fn']))
        if o.get('promoted') and len(o.get('promoted_consts') or []) == 1:
            return ('refval', self.const(o['promoted_consts'][0]), ())
        nm = o.get('name')
        if nm and nm in getattr(self.prog, 'consts', {}):
            # a named constant of the crate that rustc left unevaluated here: the value of its initialiser, when that is a literal
            ct = self.prog.const_term(nm)
            if isinstance(ct, tuple) and ct[0] == 'const' and ct[1] == 'str':
                return ct[2]
            if isinstance(ct, tuple) and ct[0] == 'const' and isinstance(ct[2], float):
                return Iv(ct[2], ct[2]) if ct[2] == ct[2] else Iv(0.0, 0.0, True)
            if isinstance(ct, tuple) and ct[0] == 'const' and isinstance(ct[2], int):
                return ct[2]
        if nm and o.get('ty') and not any(o['ty'].startswith(x) for x in ('f64', 'f32', 'i', 'u', 'bool', '&', '[', '(')):
            # an associated or named constant of a struct type that is only passed on (a bitflags value, ..): itself
            return Sym(('const', nm))
        raise Unsupported('const ' + str(o)[:120])

    def get_path(self, v, proj, st):
        for e in proj:
            k = e['k']
            if k == 'deref':
                v = self.deref(v, st)
            elif k == 'field':
                if isinstance(v, dict) and '#closure' in v:
                    v = v['#caps'][e['i']]
                elif isinstance(v, dict):
                    if e['name'] not in v:
                        raise Unsupported('field %s of %r' % (e['name'], list(v)))
                    v = v[e['name']]
                elif isinstance(v, tuple) and v and v[0] == 'enum':
                    v = v[2][e['i']]
                elif isinstance(v, tuple):
                    v = v[e['i']]
                elif self.symbolic and isinstance(v, Sym):
                    v = Sym(('fld', v, e.get('name', e['i'])))
                else:
                    raise Unsupported('field of %r' % (v,))
            elif k == 'index':
                i = st[e['local']]
                if not isinstance(i, int):
                    raise Undecided('symbolic index')
                if self.symbolic and isinstance(v, Sym):
                    v = Sym(('idx', v, i))
                    continue
                if not isinstance(v, (tuple, list)) or i >= len(v):
                    raise Undecided('index %r out of model bounds' % i)
                v = v[i]
            elif k == 'cindex':
                v = Sym(('idx', v, e['off'])) if (self.symbolic and isinstance(v, Sym)) else v[e['off']]
            elif k == 'downcast':
                pass
            else:
                raise Unsupported('proj ' + k)
        return v

    def set_path(self, v, proj, new, st):
        if not proj:
            return new
        e = proj[0]
        k = e['k']
        if k == 'field':
            if isinstance(v, dict):
                d = dict(v)
                d[e['name']] = self.set_path(v[e['name']], proj[1:], new, st)
                return d
            if isinstance(v, tuple) and v and v[0] == 'enum':
                pl = list(v[2])
                pl[e['i']] = self.set_path(pl[e['i']], proj[1:], new, st)
                return ('enum', v[1], tuple(pl))
            l = list(v)
            l[e['i']] = self.set_path(l[e['i']], proj[1:], new, st)
            return tuple(l)
        if k in ('index', 'cindex'):
            i = st[e['local']] if k == 'index' else e['off']
            if not isinstance(i, int):
                raise Undecided('symbolic index write')
            l = list(v)
            l[i] = self.set_path(l[i], proj[1:], new, st)
            return tuple(l)
        if k == 'downcast':
            return self.set_path(v, proj[1:], new, st)
        raise Unsupported('set proj ' + k)

    def deref(self, r, st):
        if isinstance(r, tuple) and r:
            if r[0] == 'ref':
                return self.get_path(st[r[1]], r[2], st)
            if r[0] == 'refval':
                return self.get_path(r[1], r[2], st)
            if r[0] == 'mref':
                return self.get_path(st['#cells'][r[1]], r[2], st)
        if isinstance(r, Sym):
            return Sym(('deref', r.tag))
        if isinstance(r, str):
            return r
        raise Unsupported('deref of %r' % (r,))

    def read_place(self, st, p):
        l = p['local']
        if l not in st:
            raise Unsupported('read of unset local _%d' % l)
        v = st[l]
        proj = p['proj']
        i = 0
        while i < len(proj):
            e = proj[i]
            if e['k'] == 'deref':
                v = self.deref(v, st)
                i += 1
            else:
                j = i
                while j < len(proj) and proj[j]['k'] != 'deref':
                    j += 1
                v = self.get_path(v, proj[i:j], st)
                i = j
        return v

    def write_place(self, st, p, val):
        l = p['local']
        proj = p['proj']
        if not proj:
            st[l] = val
            return
        if proj[0]['k'] == 'deref':
            r = st[l]
            rest = proj[1:]
            if any(e['k'] == 'deref' for e in rest):
                raise Unsupported('nested deref write')
            if r[0] == 'ref':
                tgt = r[1]
                st[tgt] = self.set_path(st[tgt], list(r[2]) + rest, val, st)
                return
            if r[0] == 'mref':
                cells = dict(st['#cells'])
                cells[r[1]] = self.set_path(cells[r[1]], list(r[2]) + rest, val, st)
                st['#cells'] = cells
                return
            raise Unsupported('write through %r' % (r[0],))
        if any(e['k'] == 'deref' for e in proj):
            raise Unsupported('deref inside write path')
        st[l] = self.set_path(st.get(l), proj, val, st)

    def make_ref(self, st, p):
        proj = [({'k': 'cindex', 'off': st[e['local']]} if (e['k'] == 'index' and isinstance(st.get(e['local']), int)) else e) for e in p['proj']]
        if any(e['k'] == 'index' for e in proj):
            raise Undecided('symbolic index in borrow')
        if proj and proj[0]['k'] == 'deref':
            r = st[p['local']]
            rest = tuple(proj[1:])
            if any(e['k'] == 'deref' for e in rest):
                # materialise: take a snapshot reference of the value
                return ('refval', self.read_place(st, p), ())
            if isinstance(r, tuple) and r and r[0] in ('ref', 'mref', 'refval'):
                return (r[0], r[1], tuple(r[2]) + rest)
            if isinstance(r, dict) and '#subslice' in r and not rest:
                return r                  # reborrow of a narrowed mutable slice
            if isinstance(r, Sym):
                if not rest:
                    return r              # `&*r` of an opaque reference is that reference
                return Sym(('ref', r.tag, tuple(e.get('name', e['k']) for e in rest)))
            if (isinstance(r, str) or (isinstance(r, tuple) and r and r[0] == 'bytes')) and not rest:
                return r                  # a &str / &[u8] constant is modelled by the text itself
            raise Unsupported('reborrow of %r' % (r,))
        if any(e['k'] == 'deref' for e in proj):
            return ('refval', self.read_place(st, p), ())
        # freeze index locals
        fr = []
        for e in proj:
            if e['k'] == 'index':
                i = st[e['local']]
                if not isinstance(i, int):
                    raise Undecided('symbolic index in borrow')
                fr.append({'k': 'cindex', 'off': i})
            else:
                fr.append(e)
        return ('ref', p['local'], tuple(fr))

    def op(self, st, o):
        if o['k'] in ('copy', 'move'):
            return self.read_place(st, o['place'])
        return self.const(o)

    # ---------------------------------------------------------------- execution
    def run(self, path, args, cells=None):
        """Interpret body `path` on abstract arguments; returns [Outcome]."""
        b = self.prog.bodies.get(path)
        if b is None:
            raise Unsupported('no body ' + path)
        if self.depth > 12:
            raise Unsupported('call depth')
        st0 = {'#cells': dict(cells or {}), '#alias': {}}
        for i, a in enumerate(args):
            st0[i + 1] = a
        return self._run_from(b, st0)

    def _kill_alias(self, st, l):
        al = st['#alias']
        if l in al or l in al.values():
            al = {k: v for k, v in al.items() if k != l and v != l}
            st['#alias'] = al

    def exec_stmt(self, b, st, stt):
        lhs, rv = stt['lhs'], stt['rv']
        k = rv['k']
        if k == 'use':
            v = self.op(st, rv['op'])
            if not lhs['proj']:
                self._kill_alias(st, lhs['local'])
                o = rv['op']
                if o['k'] in ('copy', 'move') and not o['place']['proj']:
                    src = o['place']['local']
                    al = dict(st['#alias'])
                    al[lhs['local']] = al.get(src, src)
                    st['#alias'] = al
            self.write_place(st, lhs, v)
            return
        if k == 'bin':
            a = self.op(st, rv['a'])
            c = self.op(st, rv['b'])
            v = self.binop(rv['op'], a, c, rv['a'], rv['b'])
        elif k == 'un':
            a = self.op(st, rv['a'])
            o = rv['op']
            if o == 'Neg':
                v = iv_neg(a) if isinstance(a, Iv) else (TOP if a is TOP else Sym(('neg', a)) if (self.symbolic and isinstance(a, Sym)) else -a)
            elif o == 'Not':
                if isinstance(a, Cmp):
                    inv = {'Lt': 'Ge', 'Le': 'Gt', 'Gt': 'Le', 'Ge': 'Lt', 'Eq': 'Ne', 'Ne': 'Eq'}[a.op]
                    v = Cmp(inv, a.a, a.b, None if a.res is None else (not a.res))
                elif a is TOP:
                    v = TOP
                elif isinstance(a, bool):
                    v = not a
                else:
                    v = ~a
            elif o == 'PtrMetadata':
                tgt = self.deref(a, st)
                v = len(tgt) if isinstance(tgt, (tuple, list)) else TOP
            else:
                raise Unsupported('unop ' + o)
        elif k == 'ref':
            v = self.make_ref(st, rv['place'])
        elif k == 'agg':
            ops = [self.op(st, o) for o in rv['ops']]
            kd = rv['kind']
            if 'adt' in kd:
                adt = kd['adt']
                var = kd.get('variant')
                if adt.endswith('Option') or adt.endswith('Result') or self._is_enum(adt):
                    v = ('enum', self._variant_index(adt, var), tuple(ops))
                else:
                    v = dict(zip(kd['fields'], ops))
                    v['#adt'] = adt
            elif 'closure' in kd:
                v = {'#closure': kd['closure'], '#caps': tuple(ops)}
            else:
                v = tuple(ops)
        elif k == 'discr':
            e = self.read_place(st, rv['place'])
            if isinstance(e, tuple) and e and e[0] == 'enum':
                v = e[1]
            elif e is TOP or isinstance(e, Sym):
                v = TOP
            else:
                raise Unsupported('discriminant of %r' % (e,))
        elif k == 'cast':
            a = self.op(st, rv['op'])
            ty = rv['ty']
            if isinstance(a, Cmp):
                a = a.res if a.res is not None else TOP
            if isinstance(a, bool) and ty in ('f64', 'f32'):
                v = Iv(float(a))
            elif isinstance(a, int) and not isinstance(a, bool) and ty in ('f64', 'f32'):
                v = Iv(float(a))
            elif isinstance(a, Iv) and ty in ('f64', 'f32'):
                v = a
            elif isinstance(a, Iv):
                if a.is_point() and math.isfinite(a.lo):
                    v = int(a.lo)
                else:
                    v = TOP
            else:
                v = a
                if self.symbolic and isinstance(a, Sym) and ty in ('f64', 'f32') and 'IntToFloat' in str(rv.get('kind')):
                    v = Sym(('cast', a))
                if self.symbolic and 'Unsize' in str(rv.get('kind')) and rv['op'].get('k') in ('copy', 'move'):
                    # &[T; N] -> &[T] of a symbolic array: its N element symbols (the length is only in the source type)
                    import re as _re
                    m = _re.search(r'\[[^\[\];]+; (\d+)\]$', b.local_ty(rv['op']['place']['local']).strip())
                    tgt = a
                    while isinstance(tgt, tuple) and tgt and tgt[0] in ('ref', 'refval', 'mref'):
                        tgt = self.deref(tgt, st)
                    if m and isinstance(tgt, Sym):
                        v = ('refval', tuple(Sym(('idx', tgt, i)) for i in range(int(m.group(1)))), ())
        elif k == 'repeat':
            a = self.op(st, rv['op'])
            n = int(str(rv['n']).split('_')[0]) if str(rv['n'])[0].isdigit() else None
            if n is None:
                raise Unsupported('repeat count ' + str(rv['n']))
            v = tuple([a] * n)
        elif k == 'other' and str(rv.get('dbg', '')).startswith('&raw const (fake) (*_'):
            # the fake raw borrow rustc takes of a scrutinee for slice patterns (`[a, b] = *r`): the reference itself
            import re as _re
            m = _re.match(r'&raw const \(fake\) \(\*_(\d+)\)$', rv['dbg'])
            if not m or int(m.group(1)) not in st:
                raise Unsupported('rvalue ' + str(rv.get('dbg')))
            v = st[int(m.group(1))]
        else:
            raise Unsupported('rvalue ' + k)
        if not lhs['proj']:
            self._kill_alias(st, lhs['local'])
        self.write_place(st, lhs, v)

    def _is_enum(self, adt):
        a = self.prog.adts.get(adt)
        return a is not None and a['kind'] == 'Enum'

    def _variant_index(self, adt, var):
        if adt.endswith('Option'):
            return {'None': 0, 'Some': 1}[var]
        if adt.endswith('Result'):
            return {'Ok': 0, 'Err': 1}[var]
        a = self.prog.adts[adt]
        for i, v in enumerate(a['variants']):
            if v['name'] == var:
                return i
        raise Unsupported('variant %s of %s' % (var, adt))

    def binop(self, o, a, c, oa=None, ob=None):
        if isinstance(a, Cmp):
            a = a.res if a.res is not None else TOP
        if isinstance(c, Cmp):
            c = c.res if c.res is not None else TOP
        if isinstance(a, Iv) and isinstance(c, Iv):
            if o == 'Add':
                return iv_add(a, c)
            if o == 'Sub':
                return iv_sub(a, c)
            if o == 'Mul':
                return iv_mul(a, c)
            if o == 'Div':
                return iv_div(a, c)
            if o == 'Rem':
                return iv_rem(a, c)
            return Cmp(o, oa, ob, iv_cmp(o, a, c))
        if a is TOP or c is TOP:
            if o.endswith('WithOverflow'):
                return (TOP, False)
            return TOP
        if isinstance(a, (int, bool)) and isinstance(c, (int, bool)):
            if o in ('Add', 'AddUnchecked'):
                return a + c
            if o in ('Sub', 'SubUnchecked'):
                return a - c
            if o in ('Mul', 'MulUnchecked'):
                return a * c
            if o == 'AddWithOverflow':
                return (a + c, False)
            if o == 'SubWithOverflow':
                return (a - c, a - c < 0)
            if o == 'MulWithOverflow':
                return (a * c, False)
            if o == 'Div':
                return a // c
            if o == 'Rem':
                return a % c
            if o == 'Lt':
                return a < c
            if o == 'Le':
                return a <= c
            if o == 'Gt':
                return a > c
            if o == 'Ge':
                return a >= c
            if o == 'Eq':
                return a == c
            if o == 'Ne':
                return a != c
            if o == 'BitAnd':
                return a & c
            if o == 'BitOr':
                return a | c
            if o == 'BitXor':
                return a ^ c
            if o == 'Shl':
                return a << c
            if o == 'Shr':
                return a >> c
        if self.symbolic and (isinstance(a, Sym) or isinstance(c, Sym)) and isinstance(a, (Sym, Iv, int)) and isinstance(c, (Sym, Iv, int)):
            if o in ('Add', 'Sub', 'Mul', 'Div', 'Rem'):
                return Sym(('bin', o, a, c))
            if o in ('Lt', 'Le', 'Gt', 'Ge', 'Eq', 'Ne'):
                if o in ('Eq', 'Ne') and isinstance(a, Sym) and isinstance(c, Sym) and a == c:
                    return o == 'Eq'
                r = self.oracle(o, a, c) if self.oracle is not None else None
                if r is None:
                    raise Undecided('comparison %s of symbolic values %r, %r' % (o, a, c))
                return Cmp(o, oa, ob, bool(r))
        if o in ('Eq', 'Ne') and isinstance(a, Sym) and isinstance(c, Sym):
            return (a == c) if o == 'Eq' else (a != c)
        raise Unsupported('binop %s on %r, %r' % (o, a, c))

    def refine(self, st, cmpv, val):
        """Refine the operands of a float comparison assumed `val`; returns False when the branch is infeasible."""
        o = cmpv.op
        a = self.op(st, cmpv.a) if cmpv.a is not None else None
        b = self.op(st, cmpv.b) if cmpv.b is not None else None
        if not (isinstance(a, Iv) and isinstance(b, Iv)):
            return True
        if not val:
            o = {'Lt': 'Ge', 'Le': 'Gt', 'Gt': 'Le', 'Ge': 'Lt', 'Eq': 'Ne', 'Ne': 'Eq'}[o]
            if a.nan or b.nan:
                return True      # a NaN makes every ordered comparison false: no refinement
        if o in ('Lt', 'Le'):
            na = Iv(a.lo, min(a.hi, b.hi), False)
            nb = Iv(max(b.lo, a.lo), b.hi, False)
        elif o in ('Gt', 'Ge'):
            na = Iv(max(a.lo, b.lo), a.hi, False)
            nb = Iv(b.lo, min(b.hi, a.hi), False)
        elif o == 'Eq':
            lo, hi = max(a.lo, b.lo), min(a.hi, b.hi)
            na = nb = Iv(lo, hi, False)
        else:
            return True
        if na.empty() or nb.empty():
            return False
        if o in ('Lt', 'Gt') and na.is_point() and nb.is_point() and na.lo == nb.lo:
            return False
        al = st['#alias']
        for opd, nv in ((cmpv.a, na), (cmpv.b, nb)):
            if opd is None or opd['k'] not in ('copy', 'move') or opd['place']['proj']:
                continue
            l = opd['place']['local']
            root = al.get(l, l)
            for x in [root, l] + [k for k, v in al.items() if v == root]:
                if isinstance(st.get(x), Iv):
                    st[x] = nv
        return True

    # ---------------------------------------------------------------- calls
    def exec_call(self, b, st, t, bb):
        name = cname(callee_name(t))
        args = [self.op(st, a) for a in t['args']]
        h = self.handlers.get(name) or self.handlers.get(callee_name(t))
        if h is None:
            h = BUILTINS.get(name)
            if h is not None and self.symbolic and name.split('::')[0] in ('f64', 'f32') and any(isinstance(x, Sym) for x in args):
                h = lambda I, st_, a, t_, b_: Sym(('call', name) + tuple(a))     # a float method on a symbolic value: its own symbol
        if h is not None:
            r = h(self, st, args, t, b)
            if isinstance(r, Fork):
                outs = []
                for v in r.values:
                    st2 = dict(st)
                    st2['#alias'] = dict(st['#alias'])
                    if not t['dest']['proj']:
                        self._kill_alias(st2, t['dest']['local'])
                    self.write_place(st2, t['dest'], v)
                    outs.append(st2)
                return outs
            if not t['dest']['proj']:
                self._kill_alias(st, t['dest']['local'])
            self.write_place(st, t['dest'], r)
            return None
        c = t['callee']
        target = c.get('resolved') if c.get('resolved') in self.prog.bodies else (c.get('path') if c.get('path') in self.prog.bodies else None)
        if target is None and self.symbolic:
            vals = []
            for a in args:
                while isinstance(a, tuple) and a and a[0] in ('ref', 'refval', 'mref'):
                    a = self.deref(a, st)
                vals.append(a if isinstance(a, (Sym, Iv, int, str)) else Sym(('val', repr(a)[:80])))
            ops = {'Add::add': 'Add', 'Sub::sub': 'Sub', 'Mul::mul': 'Mul', 'Div::div': 'Div'}
            if name in ops and len(vals) == 2 and all(isinstance(x, (Sym, Iv)) for x in vals):
                r = self.binop(ops[name], vals[0], vals[1])          # the operator traits on (references to) floats
            elif name == 'Neg::neg' and len(vals) == 1 and isinstance(vals[0], (Sym, Iv)):
                r = iv_neg(vals[0]) if isinstance(vals[0], Iv) else Sym(('neg', vals[0]))
            else:
                r = Sym(('call', name) + tuple(vals))
            if not t['dest']['proj']:
                self._kill_alias(st, t['dest']['local'])
            self.write_place(st, t['dest'], r)
            return None
        if target is None:
            raise Unsupported('call to %s at %s' % (name, b.where(bb)))
        if self.prog.bodies[target].kind == 'Closure' and len(args) == 2 and isinstance(args[1], tuple) and len(args[1]) == self.prog.bodies[target].arg_count - 1:
            args = [args[0]] + list(args[1])
        # pass references: shared -> snapshot, mutable -> cell
        cargs = []
        cells_back = []
        for i, a in enumerate(args):
            if isinstance(a, tuple) and a and a[0] == 'ref':
                cargs.append(('refval', self.get_path(st[a[1]], a[2], st), ()))
                cells_back.append((i, a))
            elif isinstance(a, tuple) and a and a[0] == 'mref':
                cargs.append(('refval', self.get_path(st['#cells'][a[1]], a[2], st), ()))
                cells_back.append((i, a))
            else:
                cargs.append(a)
        # mutable borrows: detect by callee parameter type
        callee = self.prog.bodies[target]
        mut_params = [i for i in range(len(args)) if callee.local_ty(i + 1).startswith('&mut ')]
        sub = Interp(self.prog, self.handlers, self.fuel, self.max_paths)
        sub.symbolic, sub.oracle = self.symbolic, self.oracle
        sub.steps = self.steps
        sub.depth = self.depth
        if mut_params:
            outs = sub.run_with_cells(target, cargs, mut_params)
        else:
            outs = [(o, None) for o in sub.run(target, cargs)]
        self.steps = sub.steps
        if len(outs) == 1 and not outs[0][0].forked:
            o, back = outs[0]
            if back:
                for i, v in back.items():
                    self._write_ref(st, args[i], v)
            if not t['dest']['proj']:
                self._kill_alias(st, t['dest']['local'])
            self.write_place(st, t['dest'], o.ret)
            return None
        res = []
        for o, back in outs:
            st2 = dict(st)
            st2['#alias'] = dict(st['#alias'])
            if o.cmp_forked:
                st2['#cmpfork'] = True
            if back:
                for i, v in back.items():
                    self._write_ref(st2, args[i], v)
            if not t['dest']['proj']:
                self._kill_alias(st2, t['dest']['local'])
            self.write_place(st2, t['dest'], o.ret)
            res.append(st2)
        return res

    def _write_ref(self, st, r, v):
        if r[0] == 'ref':
            st[r[1]] = self.set_path(st[r[1]], list(r[2]), v, st)
            self._kill_alias(st, r[1])
        elif r[0] == 'mref':
            cells = dict(st['#cells'])
            cells[r[1]] = self.set_path(cells[r[1]], list(r[2]), v, st)
            st['#cells'] = cells

    def _materialise_refs(self, v, st, depth=0):
        """a shared reference into this frame that is returned (`&self.field` out of a closure) becomes a reference to a
        snapshot of the value: the frame is gone after the return"""
        if isinstance(v, tuple) and v and v[0] == 'ref' and len(v) == 3 and depth < 4:
            try:
                return ('refval', self.deref(v, st), ())
            except (Unsupported, Undecided, KeyError):
                return v
        if isinstance(v, tuple) and v and v[0] == 'enum' and depth < 4:
            return ('enum', v[1], tuple(self._materialise_refs(x, st, depth + 1) for x in v[2]))
        return v

    def run_with_cells(self, path, args, mut_params):
        cells = {}
        args = list(args)
        for i in mut_params:
            a = args[i]
            if isinstance(a, tuple) and a and a[0] == 'refval':
                cells[i] = self.get_path(a[1], a[2], {})
            else:
                cells[i] = a
            args[i] = ('mref', i, ())
        outs = self.run(path, args, cells)
        return [(o, {i: o.cells[i] for i in mut_params}) for o in outs]

    def _run_from(self, b, st0):
        # run() body factored for an explicit initial state
        self.depth += 1
        results = []
        work = [(0, st0, False)]
        while work:
            bb, st, forked = work.pop()
            if len(results) + len(work) > self.max_paths:
                raise Undecided('path explosion')
            while True:
                self.steps += 1
                if self.steps > self.fuel:
                    raise Undecided('fuel exhausted')
                blk = b.blocks[bb]
                for stt in blk['stmts']:
                    self.exec_stmt(b, st, stt)
                t = blk['term']
                k = t['k']
                if k == 'goto' or k == 'drop':
                    bb = t['target']
                    continue
                if k == 'return':
                    rv = st.get(0, ())
                    if isinstance(rv, Cmp):
                        rv = Cmp(rv.op, None, None, rv.res)     # operands are locals of this frame
                    rv = self._materialise_refs(rv, st)
                    w = getattr(self, 'watch', None)
                    if w and self.depth == 0 and b.path == w[0] and w[1] in st:
                        # the value a local of the entry body holds when it returns (the candidate table of a solver, for the rule layer)
                        try:
                            self.watched = self._materialise_refs(st[w[1]], st)
                        except (Unsupported, Undecided):
                            self.watched = None
                    results.append(Outcome(rv, st['#cells'], None, forked, bool(st.get('#cmpfork'))))
                    break
                if k == 'unreachable':
                    break
                if k == 'assert':
                    c = self.op(st, t['cond'])
                    if isinstance(c, Cmp):
                        c = c.res
                    if c is TOP or c is None:
                        raise Undecided('assert may fail (%s) at %s' % (t['msg'], b.where(bb)))
                    if bool(c) != t['expected']:
                        raise Undecided('assert fails (%s) at %s' % (t['msg'], b.where(bb)))
                    bb = t['target']
                    continue
                if k == 'switch':
                    d = self.op(st, t['discr'])
                    if isinstance(d, Cmp):
                        tf = [x[1] for x in t['targets'] if int(x[0]) == 0]
                        tgt_false = tf[0] if tf else t['otherwise']
                        tgt_true = t['otherwise'] if tf else [x[1] for x in t['targets'] if int(x[0]) == 1][0]
                        if d.res is True:
                            bb = tgt_true
                            continue
                        if d.res is False:
                            bb = tgt_false
                            continue
                        for val, tgt in ((True, tgt_true), (False, tgt_false)):
                            st2 = dict(st)
                            st2['#alias'] = dict(st['#alias'])
                            st2['#cmpfork'] = True
                            if self.refine(st2, d, val):
                                work.append((tgt, st2, True))
                        break
                    if d is TOP:
                        st = dict(st)
                        st['#cmpfork'] = True
                        for x in t['targets']:
                            work.append((x[1], dict(st), True))
                        work.append((t['otherwise'], dict(st), True))
                        break
                    if isinstance(d, bool):
                        d = int(d)
                    if not isinstance(d, int):
                        raise Unsupported('switch on %r at %s' % (d, b.where(bb)))
                    tg = [x[1] for x in t['targets'] if int(x[0]) == d]
                    bb = tg[0] if tg else t['otherwise']
                    continue
                if k == 'call':
                    outs = self.exec_call(b, st, t, bb)
                    if outs is None:
                        bb = t['target']
                        if bb < 0:
                            break
                        continue
                    for st2 in outs:
                        if t['target'] >= 0:
                            work.append((t['target'], st2, True))
                    break
                raise Unsupported('terminator ' + k)
        self.depth -= 1
        return results


class Fork:
    def __init__(self, values):
        self.values = list(values)


# -------------------------------------------------------------------- builtin transfer functions
def _f(x):
    if isinstance(x, tuple) and x and x[0] in ('ref', 'refval', 'mref'):
        raise Unsupported('float handler got reference')
    return x


def _deref_arg(I, st, a):
    if isinstance(a, tuple) and a and a[0] in ('ref', 'refval', 'mref'):
        return I.deref(a, st)
    return a


def h_abs(I, st, a, t, b):
    return iv_abs(_f(a[0]))


def h_mul_add(I, st, a, t, b):
    # x.mul_add(y, z) = x * y + z (one rounding instead of two; the intervals are widened by rounding slack anyway)
    return iv_add(iv_mul(_f(a[0]), _f(a[1])), _f(a[2]))


def h_is_infinite(I, st, a, t, b):
    x = a[0]
    if x.lo == x.hi and math.isinf(x.lo) and not x.nan:
        return True
    if math.isfinite(x.lo) and math.isfinite(x.hi):
        return False
    return Fork([True, False])


def h_is_finite(I, st, a, t, b):
    x = a[0]
    if math.isfinite(x.lo) and math.isfinite(x.hi) and not x.nan:
        return True
    if x.lo == x.hi and math.isinf(x.lo) and not x.nan:
        return False
    return Fork([True, False])


def h_is_nan(I, st, a, t, b):
    x = a[0]
    if not x.nan:
        return False
    return Fork([True, False])


def h_rem_euclid(I, st, a, t, b):
    return iv_rem_euclid(a[0], a[1])


def h_signum(I, st, a, t, b):
    x = a[0]
    # IEEE: signum(+0.0) = 1.0, signum(-0.0) = -1.0
    if x.lo > 0 or (x.lo == 0 and math.copysign(1.0, x.lo) > 0):
        return Iv(1.0, 1.0, x.nan)
    if x.hi < 0 or (x.hi == 0 and math.copysign(1.0, x.hi) < 0):
        return Iv(-1.0, -1.0, x.nan)
    return Iv(-1.0, 1.0, x.nan)


def h_to_radians(I, st, a, t, b):
    return iv_mul(a[0], Iv(math.pi / 180.0))


def h_to_degrees(I, st, a, t, b):
    return iv_mul(a[0], Iv(180.0 / math.pi))


def h_min(I, st, a, t, b):
    return Iv(min(a[0].lo, a[1].lo), min(a[0].hi, a[1].hi), a[0].nan and a[1].nan)


def h_max(I, st, a, t, b):
    return Iv(max(a[0].lo, a[1].lo), max(a[0].hi, a[1].hi), a[0].nan and a[1].nan)


def h_into_iter(I, st, a, t, b):
    v = a[0]
    if isinstance(v, dict) and v.get('#adt', '').endswith('Range'):
        return {'#iter': 'range', 'cur': v['start'], 'end': v['end']}
    if isinstance(v, dict) and '#iter' in v:
        return v
    if isinstance(v, tuple) and v and v[0] in ('ref', 'refval', 'mref'):
        tgt = I.deref(v, st)
        if isinstance(tgt, (tuple, list)):
            return {'#iter': 'seq', 'items': tuple(('refval', x, ()) for x in tgt), 'pos': 0}
        raise Unsupported('into_iter on ref of %r' % (tgt,))
    if isinstance(v, (tuple, list)):
        return {'#iter': 'seq', 'items': tuple(v), 'pos': 0}
    raise Unsupported('into_iter on %r' % (v,))


def _sym_array_len(t, b):
    """length N when the receiver of the call is (a reference to) an array [T; N] by the type of the argument local"""
    import re as _re
    o = t['args'][0]
    if o.get('k') in ('copy', 'move'):
        ty = b.local_ty(o['place']['local'])
        m = _re.search(r'\[[^\[\];]+; (\d+)\]$', ty.strip())
        if m:
            return int(m.group(1))
    m = _re.search(r'\[[^\[\];]+; (\d+)(?:_usize)?\]', t['callee'].get('args') or '')
    return int(m.group(1)) if m else None


def h_split_at_mut(I, st, a, t, b):
    """slice::split_at_mut / split_at: the two narrowed views of the same sequence"""
    r, k = a[0], a[1]
    if isinstance(r, tuple) and r and r[0] in ('ref', 'mref') and isinstance(k, int) and not isinstance(k, bool):
        tgt = I.deref(r, st)
        if isinstance(tgt, (tuple, list)) and 0 <= k <= len(tgt):
            return ({'#subslice': (r, 0, k)}, {'#subslice': (r, k, len(tgt))})
    raise Unsupported('split_at of %r at %r' % (r, k))


def h_iter(I, st, a, t, b):
    if isinstance(a[0], dict) and '#subslice' in a[0]:
        base, lo, hi = a[0]['#subslice']
        whole = I.deref(base, st)
        return {'#iter': 'seq', 'items': tuple(('refval', x, ()) for x in whole[lo:hi]), 'pos': 0}
    tgt = _deref_arg(I, st, a[0])
    while isinstance(tgt, tuple) and tgt and tgt[0] in ('ref', 'refval', 'mref'):
        tgt = I.deref(tgt, st)
    if isinstance(tgt, (tuple, list)):
        return {'#iter': 'seq', 'items': tuple(('refval', x, ()) for x in tgt), 'pos': 0}
    if I.symbolic and isinstance(tgt, Sym):
        n = _sym_array_len(t, b)
        if n is not None:
            return {'#iter': 'seq', 'items': tuple(('refval', Sym(('idx', tgt, k)), ()) for k in range(n)), 'pos': 0}
    raise Unsupported('iter on %r' % (tgt,))


def _iter_items(it):
    if isinstance(it, dict) and it.get('#adt', '').endswith('Range'):
        it = {'#iter': 'range', 'cur': it['start'], 'end': it['end']}
    if isinstance(it, (tuple, list)):
        return list(it)
    k = it['#iter']
    if k == 'range':
        if not (isinstance(it['cur'], int) and isinstance(it['end'], int)):
            raise Undecided('range with symbolic bounds')
        return list(range(it['cur'], it['end']))
    if k == 'seq':
        return list(it['items'][it['pos']:])
    raise Unsupported('iter kind ' + k)


def h_rev(I, st, a, t, b):
    return {'#iter': 'seq', 'items': tuple(reversed(_iter_items(a[0]))), 'pos': 0}


def h_enumerate(I, st, a, t, b):
    return {'#iter': 'seq', 'items': tuple((i, x) for i, x in enumerate(_iter_items(a[0]))), 'pos': 0}


def h_next(I, st, a, t, b):
    r = a[0]
    it = I.deref(r, st)
    if not (isinstance(it, dict) and '#iter' in it):
        raise Unsupported('next on %r' % (it,))
    if it['#iter'] == 'range':
        if not (isinstance(it['cur'], int) and isinstance(it['end'], int)):
            raise Undecided('range with symbolic bounds')
        if it['cur'] < it['end']:
            nv = dict(it)
            nv['cur'] = it['cur'] + 1
            I._write_ref(st, r, nv)
            return SOME(it['cur'])
        return NONE
    if it['pos'] < len(it['items']):
        nv = dict(it)
        nv['pos'] = it['pos'] + 1
        I._write_ref(st, r, nv)
        return SOME(it['items'][it['pos']])
    return NONE


def h_len(I, st, a, t, b):
    tgt = _deref_arg(I, st, a[0])
    if isinstance(tgt, (tuple, list)):
        return len(tgt)
    if isinstance(tgt, (set, frozenset)):
        return len(tgt)
    return TOP


def h_call_closure(I, st, a, t, b):
    f = a[0]
    fv = _deref_arg(I, st, f)
    while isinstance(fv, tuple) and fv and fv[0] in ('ref', 'refval', 'mref'):
        fv = I.deref(fv, st)
    if isinstance(fv, Sym) and isinstance(fv.tag, tuple) and fv.tag[0] == 'fn':
        # a function item called through Fn::call (`show(item)` with show = deg): the handler of that function, or its body
        path = fv.tag[1]
        h = I.handlers.get(cname(path)) or I.handlers.get(path) or BUILTINS.get(cname(path))
        if h is not None:
            return h(I, st, list(a[1]), t, b)
        if path in I.prog.bodies:
            sub = Interp(I.prog, I.handlers, I.fuel, I.max_paths)
            sub.symbolic, sub.oracle = I.symbolic, I.oracle
            sub.steps = I.steps
            sub.depth = I.depth + 1
            outs = sub.run(path, list(a[1]))
            I.steps = sub.steps
            return outs[0].ret if len(outs) == 1 else Fork([o.ret for o in outs])
        raise Unsupported('call of function item %s' % path)
    if not (isinstance(fv, dict) and '#closure' in fv):
        raise Unsupported('call of non-closure %r' % (fv,))
    args = [('refval', fv, ())] + list(a[1])
    sub = Interp(I.prog, I.handlers, I.fuel, I.max_paths)
    sub.symbolic, sub.oracle = I.symbolic, I.oracle
    sub.steps = I.steps
    sub.depth = I.depth + 1
    outs = sub.run(fv['#closure'], args)
    I.steps = sub.steps
    if len(outs) == 1:
        return outs[0].ret
    return Fork([o.ret for o in outs])


def h_ord_max(I, st, a, t, b):
    x, y = _deref_arg(I, st, a[0]), _deref_arg(I, st, a[1])
    if isinstance(x, int) and isinstance(y, int):
        return max(x, y)
    if isinstance(x, Iv) and isinstance(y, Iv):
        return h_max(I, st, [x, y], t, b)
    raise Unsupported('max of %r, %r' % (x, y))


def h_ord_min(I, st, a, t, b):
    x, y = _deref_arg(I, st, a[0]), _deref_arg(I, st, a[1])
    if isinstance(x, int) and isinstance(y, int):
        return min(x, y)
    if isinstance(x, Iv) and isinstance(y, Iv):
        return h_min(I, st, [x, y], t, b)
    raise Unsupported('min of %r, %r' % (x, y))


def h_deref_identity(I, st, a, t, b):
    return a[0]


def h_clone(I, st, a, t, b):
    return _deref_arg(I, st, a[0])


BUILTINS = {
    'f64::abs': h_abs, 'f32::abs': h_abs, 'f64::mul_add': h_mul_add, 'f32::mul_add': h_mul_add,
    'f64::is_infinite': h_is_infinite, 'f64::is_finite': h_is_finite, 'f64::is_nan': h_is_nan,
    'f64::rem_euclid': h_rem_euclid, 'f64::signum': h_signum,
    'f64::to_radians': h_to_radians, 'f64::to_degrees': h_to_degrees,
    'f64::min': h_min, 'f64::max': h_max,
    'IntoIterator::into_iter': h_into_iter, 'slice::iter': h_iter, 'slice::split_at_mut': h_split_at_mut, 'slice::split_at': h_split_at_mut,
    'Iterator::rev': h_rev, 'Iterator::enumerate': h_enumerate, 'Iterator::next': h_next,
    'Vec::len': h_len, 'slice::len': h_len, 'HashSet::len': h_len,
    'Clone::clone': h_clone, 'Ord::max': h_ord_max, 'Ord::min': h_ord_min,
    'Fn::call': h_call_closure, 'FnMut::call_mut': h_call_closure, 'FnOnce::call_once': h_call_closure,
    'Deref::deref': h_deref_identity, 'DerefMut::deref_mut': h_deref_identity, 'AsRef::as_ref': h_deref_identity,
}


# -------------------------------------------------------------------- Option / bool / iterator combinators
def _call_f(I, st, f, args, multi=False):
    """value of calling closure (or fn item) f with args; Undecided when it forks (multi=True: the list of all outcomes)"""
    fv = _deref_arg(I, st, f)
    while isinstance(fv, tuple) and fv and fv[0] in ('ref', 'refval', 'mref'):
        fv = I.deref(fv, st)
    sub = Interp(I.prog, I.handlers, I.fuel, I.max_paths)
    sub.symbolic, sub.oracle = I.symbolic, I.oracle
    sub.steps = I.steps
    sub.depth = I.depth + 1
    if hasattr(I, 'gen_checks'):
        sub.gen_checks = I.gen_checks
    if isinstance(fv, dict) and '#closure' in fv:
        # captured shared references point into the frame that created the closure: hand the callee snapshots of the values
        fv = dict(fv)
        fv['#caps'] = tuple(_snapshot_ref(I, st, c) for c in fv['#caps'])
        cb = I.prog.bodies.get(fv['#closure'])
        by_ref = cb is None or cb.local_ty(1).lstrip().startswith('&')      # Fn / FnMut bodies take &env, FnOnce bodies the env itself
        call_args = [('refval', fv, ()) if by_ref else fv]
        mut_idx = []
        for i, x in enumerate(args):
            if isinstance(x, tuple) and x and x[0] in ('ref', 'mref') and len(x) == 3:
                # a reference into this frame handed to the closure: a mutable one is written through, a shared one is read
                if cb is not None and i + 2 <= cb.arg_count and cb.local_ty(i + 2).startswith('&mut'):
                    mut_idx.append(i + 1)
                call_args.append(('refval', I.deref(x, st), ()))
            else:
                call_args.append(x)
        if mut_idx:
            res = sub.run_with_cells(fv['#closure'], call_args, mut_idx)
            I.steps = sub.steps
            if len(res) != 1:
                raise Undecided('closure forks inside a combinator')
            o, back = res[0]
            for k, v in back.items():
                I._write_ref(st, args[k - 1], v)
            return [o.ret] if multi else o.ret
        outs = sub.run(fv['#closure'], call_args)
    elif isinstance(fv, Sym) and isinstance(fv.tag, tuple) and fv.tag[0] == 'fn' and fv.tag[1] in I.prog.bodies:
        outs = sub.run(fv.tag[1], list(args))
    else:
        raise Unsupported('call of %r' % (fv,))
    I.steps = sub.steps
    if multi:
        return [o.ret for o in outs]
    if len(outs) != 1:
        raise Undecided('closure forks inside a combinator')
    return outs[0].ret


def _snapshot_ref(I, st, c, depth=0):
    if isinstance(c, tuple) and c and c[0] == 'ref' and len(c) == 3 and depth < 4:
        try:
            v = I.deref(c, st)
        except KeyError:
            return c
        if isinstance(v, dict) and '#closure' in v:
            v = dict(v)
            v['#caps'] = tuple(_snapshot_ref(I, st, x, depth + 1) for x in v['#caps'])
        return ('refval', v, ())
    return c


def _truth(v):
    if isinstance(v, Cmp):
        v = v.res
    if v in (True, 1):
        return True
    if v in (False, 0):
        return False
    raise Undecided('condition inside a combinator is not decided')


def _opt(I, st, a):
    v = _deref_arg(I, st, a)
    if not (isinstance(v, tuple) and v and v[0] == 'enum'):
        raise Unsupported('Option combinator on %r' % (v,))
    return v


def h_then_some(I, st, a, t, b):
    c = a[0]
    if isinstance(c, Cmp):
        c = c.res
    if c in (True, 1):
        return SOME(a[1])
    if c in (False, 0):
        return NONE
    return Fork([SOME(a[1]), NONE])


def h_then(I, st, a, t, b):
    return SOME(_call_f(I, st, a[1], [])) if _truth(a[0]) else NONE


def h_opt_or_else(I, st, a, t, b):
    o = _opt(I, st, a[0])
    return o if o[1] == 1 else _call_f(I, st, a[1], [])


def h_opt_or(I, st, a, t, b):
    o = _opt(I, st, a[0])
    return o if o[1] == 1 else a[1]


def h_opt_as_ref(I, st, a, t, b):
    o = _opt(I, st, a[0])
    return o if o[1] == 0 else SOME(('refval', o[2][0], ()))


def h_opt_filter(I, st, a, t, b):
    o = _opt(I, st, a[0])
    if o[1] == 0:
        return NONE
    return o if _truth(_call_f(I, st, a[1], [('refval', o[2][0], ())])) else NONE


def h_opt_map(I, st, a, t, b):
    o = _opt(I, st, a[0])
    return NONE if o[1] == 0 else SOME(_call_f(I, st, a[1], [o[2][0]]))


def h_opt_map_or(I, st, a, t, b):
    o = _opt(I, st, a[0])
    return a[1] if o[1] == 0 else _call_f(I, st, a[2], [o[2][0]])


def h_opt_map_or_else(I, st, a, t, b):
    o = _opt(I, st, a[0])
    return _call_f(I, st, a[1], []) if o[1] == 0 else _call_f(I, st, a[2], [o[2][0]])


def h_opt_unwrap_or(I, st, a, t, b):
    o = _opt(I, st, a[0])
    return a[1] if o[1] == 0 else o[2][0]


def h_opt_unwrap_or_else(I, st, a, t, b):
    o = _opt(I, st, a[0])
    return _call_f(I, st, a[1], []) if o[1] == 0 else o[2][0]


def h_opt_is_some(I, st, a, t, b):
    return _opt(I, st, a[0])[1] == 1


def h_opt_is_none(I, st, a, t, b):
    return _opt(I, st, a[0])[1] == 0


def h_opt_copied(I, st, a, t, b):
    o = _opt(I, st, a[0])
    return o if o[1] == 0 else SOME(_deref_arg(I, st, o[2][0]))


def _items_of(I, st, x):
    v = _deref_arg(I, st, x) if not (isinstance(x, dict)) else x
    if isinstance(v, dict) and ('#iter' in v or v.get('#adt', '').endswith('Range')):
        return _iter_items(v)
    if isinstance(v, (tuple, list)):
        return list(v)
    raise Unsupported('items of %r' % (v,))


def _range_from(I, st, x):
    v = x
    if isinstance(v, tuple) and v and v[0] in ('ref', 'refval', 'mref'):
        v = I.deref(v, st)
    if isinstance(v, dict) and v.get('#adt', '').endswith('RangeFrom') and isinstance(v.get('start'), int):
        return v['start']
    return None


def h_zip(I, st, a, t, b):
    # an unbounded counter zipped with a finite sequence counts its items
    s0, s1 = _range_from(I, st, a[0]), _range_from(I, st, a[1])
    if s0 is not None and s1 is None:
        other = h_zip(I, st, [(), a[1]], t, b)['items']
        return {'#iter': 'seq', 'items': tuple((s0 + k, y) for k, (_, y) in enumerate(other)), 'pos': 0}
    if s1 is not None and s0 is None:
        xs = _items_of(I, st, a[0])
        return {'#iter': 'seq', 'items': tuple((x, s1 + k) for k, x in enumerate(xs)), 'pos': 0}
    xs, ys = (_items_of(I, st, a[0]) if a[0] != () else None), None
    y = a[1]
    if isinstance(y, tuple) and y and y[0] in ('ref', 'refval', 'mref'):
        tgt = I.deref(y, st)
        ys = [('refval', e, ()) for e in tgt] if isinstance(tgt, (tuple, list)) else _items_of(I, st, tgt)
    else:
        ys = _items_of(I, st, y)
    if xs is None:
        xs = [None] * len(ys)
    return {'#iter': 'seq', 'items': tuple(zip(xs, ys)), 'pos': 0}


def h_iter_map(I, st, a, t, b):
    return {'#iter': 'seq', 'items': tuple(_call_f(I, st, a[1], [x]) for x in _items_of(I, st, a[0])), 'pos': 0}


def h_iter_filter(I, st, a, t, b):
    return {'#iter': 'seq', 'items': tuple(x for x in _items_of(I, st, a[0]) if _truth(_call_f(I, st, a[1], [('refval', x, ())]))), 'pos': 0}


def h_iter_filter_map(I, st, a, t, b):
    out = []
    for x in _items_of(I, st, a[0]):
        r = _call_f(I, st, a[1], [x])
        if isinstance(r, tuple) and r and r[0] == 'enum' and r[1] == 1:
            out.append(r[2][0])
        elif not (isinstance(r, tuple) and r and r[0] == 'enum'):
            raise Unsupported('filter_map closure returned %r' % (r,))
    return {'#iter': 'seq', 'items': tuple(out), 'pos': 0}


def h_extend(I, st, a, t, b):
    cur = _deref_arg(I, st, a[0])
    if not isinstance(cur, (tuple, list)):
        raise Unsupported('extend of %r' % (cur,))
    I._write_ref(st, a[0], tuple(cur) + tuple(_items_of(I, st, a[1])))
    return ()


def h_vec_new(I, st, a, t, b):
    return ()


def h_vec_push(I, st, a, t, b):
    cur = _deref_arg(I, st, a[0])
    if not isinstance(cur, (tuple, list)):
        raise Unsupported('push onto %r' % (cur,))
    I._write_ref(st, a[0], tuple(cur) + (a[1],))
    return ()


def h_vec_index(I, st, a, t, b):
    seq = _deref_arg(I, st, a[0])
    while isinstance(seq, tuple) and seq and seq[0] in ('ref', 'refval', 'mref'):
        seq = I.deref(seq, st)
    k = a[1]
    if isinstance(seq, (tuple, list)) and not (seq and seq[0] == 'enum') and isinstance(k, int) and not isinstance(k, bool):
        if 0 <= k < len(seq):
            return ('refval', seq[k], ())
        raise Undecided('index %d out of bounds (len %d)' % (k, len(seq)))
    if I.symbolic and isinstance(seq, Sym):
        return ('refval', Sym(('idx', seq, k if isinstance(k, (int, Sym)) else repr(k))), ())
    return h_index_range(I, st, a, t, b)


def _seq_of(I, st, x):
    v = _deref_arg(I, st, x)
    while isinstance(v, tuple) and v and v[0] in ('ref', 'refval', 'mref'):
        v = I.deref(v, st)
    if isinstance(v, (tuple, list)) and not (v and v[0] == 'enum'):
        return tuple(v)
    raise Unsupported('sequence expected, got %r' % (v,))


def h_is_empty(I, st, a, t, b):
    return len(_seq_of(I, st, a[0])) == 0


def h_seq_last(I, st, a, t, b):
    s = _seq_of(I, st, a[0])
    return SOME(('refval', s[-1], ())) if s else NONE


def h_seq_first(I, st, a, t, b):
    s = _seq_of(I, st, a[0])
    return SOME(('refval', s[0], ())) if s else NONE


def h_seq_get(I, st, a, t, b):
    s = _seq_of(I, st, a[0])
    k = a[1]
    if isinstance(k, int) and not isinstance(k, bool):
        return SOME(('refval', s[k], ())) if 0 <= k < len(s) else NONE
    raise Unsupported('get(%r)' % (k,))


def h_iter_once(I, st, a, t, b):
    return {'#iter': 'seq', 'items': (a[0],), 'pos': 0}


def h_iter_chain(I, st, a, t, b):
    return {'#iter': 'seq', 'items': tuple(_items_of(I, st, a[0])) + tuple(_items_of(I, st, a[1])), 'pos': 0}


def h_reverse(I, st, a, t, b):
    cur = _seq_of(I, st, a[0])
    I._write_ref(st, a[0], tuple(reversed(cur)))
    return ()


def h_vec_append(I, st, a, t, b):
    x, y = _seq_of(I, st, a[0]), _seq_of(I, st, a[1])
    I._write_ref(st, a[0], tuple(x) + tuple(y))
    I._write_ref(st, a[1], ())
    return ()


def h_mem_swap(I, st, a, t, b):
    x, y = I.deref(a[0], st), I.deref(a[1], st)
    I._write_ref(st, a[0], y)
    I._write_ref(st, a[1], x)
    return ()


def h_str_eq(I, st, a, t, b):
    x, y = a[0], a[1]
    for _ in range(3):
        if isinstance(x, tuple) and x and x[0] in ('ref', 'refval', 'mref'):
            x = I.deref(x, st)
        if isinstance(y, tuple) and y and y[0] in ('ref', 'refval', 'mref'):
            y = I.deref(y, st)
    if isinstance(x, str) and isinstance(y, str):
        return x == y
    if isinstance(x, Sym) and isinstance(y, Sym):
        return x == y
    raise Unsupported('eq of %r, %r' % (x, y))


def h_successors(I, st, a, t, b):
    cur = _deref_arg(I, st, a[0])
    out = []
    while isinstance(cur, tuple) and cur and cur[0] == 'enum' and cur[1] == 1:
        v = cur[2][0]
        out.append(v)
        if len(out) > 64:
            raise Undecided('successors() does not end')
        cur = _call_f(I, st, a[1], [('refval', v, ())])
    if not (isinstance(cur, tuple) and cur and cur[0] == 'enum'):
        raise Unsupported('successors() over %r' % (cur,))
    return {'#iter': 'seq', 'items': tuple(out), 'pos': 0}


def h_ok_or_else(I, st, a, t, b):
    v = _opt(I, st, a[0])
    if v[1] == 1:
        return ('enum', 0, (v[2][0],))
    return ('enum', 1, (_call_f(I, st, a[1], []),))


def h_ok_or(I, st, a, t, b):
    v = _opt(I, st, a[0])
    return ('enum', 0, (v[2][0],)) if v[1] == 1 else ('enum', 1, (a[1],))


def h_try_branch(I, st, a, t, b):
    """`x?` on an Option / Result value: ControlFlow::Continue(payload) = variant 0, ControlFlow::Break(residual) = variant 1"""
    v = _deref_arg(I, st, a[0])
    if not (isinstance(v, tuple) and v and v[0] == 'enum'):
        raise Unsupported('`?` on %r' % (v,))
    ty = (t['callee'].get('args') or '') + ' ' + b.local_ty(t['args'][0]['place']['local'] if t['args'][0].get('k') in ('copy', 'move') else 0)
    is_opt = 'Option<' in ty and 'Result<' not in ty.split('Option<')[0]
    if is_opt:
        return ('enum', 0, (v[2][0],)) if v[1] == 1 else ('enum', 1, (('enum', 0, ()),))
    return ('enum', 0, (v[2][0],)) if v[1] == 0 else ('enum', 1, (('enum', 1, tuple(v[2])),))


def h_from_residual(I, st, a, t, b):
    return _deref_arg(I, st, a[0])


def h_split_last(I, st, a, t, b):
    s_ = _seq_of(I, st, a[0])
    if not s_:
        return NONE
    return SOME((('refval', s_[-1], ()), ('refval', tuple(s_[:-1]), ())))


def h_split_first(I, st, a, t, b):
    s_ = _seq_of(I, st, a[0])
    if not s_:
        return NONE
    return SOME((('refval', s_[0], ()), ('refval', tuple(s_[1:]), ())))


def h_iter_find_map(I, st, a, t, b):
    for x in _items_of(I, st, a[0]):
        r = _call_f(I, st, a[1], [x])
        if isinstance(r, tuple) and r and r[0] == 'enum':
            if r[1] == 1:
                return r
        else:
            raise Unsupported('find_map closure returned %r' % (r,))
    return NONE


def h_result_ok(I, st, a, t, b):
    v = _deref_arg(I, st, a[0])
    if isinstance(v, tuple) and v and v[0] == 'enum':
        return SOME(v[2][0]) if v[1] == 0 else NONE
    raise Unsupported('ok() of %r' % (v,))


def h_retain(I, st, a, t, b):
    cur = _seq_of(I, st, a[0])
    kept = tuple(x for x in cur if _truth(_call_f(I, st, a[1], [('refval', x, ())])))
    I._write_ref(st, a[0], kept)
    return ()


def h_saturating_sub(I, st, a, t, b):
    x, y = a[0], a[1]
    if isinstance(x, int) and isinstance(y, int):
        return max(x - y, 0)
    raise Unsupported('saturating_sub of %r, %r' % (x, y))


def h_to_vec(I, st, a, t, b):
    return tuple(_seq_of(I, st, a[0]))


def h_iter_take(I, st, a, t, b):
    n = a[1]
    if not isinstance(n, int):
        raise Undecided('take(%r)' % (n,))
    return {'#iter': 'seq', 'items': tuple(_items_of(I, st, a[0]))[:n], 'pos': 0}


def h_iter_skip(I, st, a, t, b):
    n = a[1]
    if not isinstance(n, int):
        raise Undecided('skip(%r)' % (n,))
    return {'#iter': 'seq', 'items': tuple(_items_of(I, st, a[0]))[n:], 'pos': 0}


def h_windows(I, st, a, t, b):
    s = _seq_of(I, st, a[0])
    n = a[1]
    if not (isinstance(n, int) and n > 0):
        raise Unsupported('windows(%r)' % (n,))
    return {'#iter': 'seq', 'items': tuple(('refval', tuple(s[i:i + n]), ()) for i in range(0, len(s) - n + 1)), 'pos': 0}


def h_opt_unwrap(I, st, a, t, b):
    v = _deref_arg(I, st, a[0])
    if isinstance(v, tuple) and v and v[0] == 'enum':
        if v[1] == 1 and len(v[2]) == 1:
            return v[2][0]
        raise Undecided('unwrap of None')
    raise Unsupported('unwrap of %r' % (v,))


def h_range_inclusive(I, st, a, t, b):
    lo, hi = a[0], a[1]
    if isinstance(lo, int) and isinstance(hi, int):
        return {'#iter': 'range', 'cur': lo, 'end': hi + 1}
    raise Undecided('inclusive range with symbolic bounds')


ORD_LESS, ORD_EQUAL, ORD_GREATER = ('enum', 255, ()), ('enum', 0, ()), ('enum', 1, ())       # discriminants of std::cmp::Ordering (-1 as u8, 0, 1)


def h_partial_cmp(I, st, a, t, b):
    x, y = _deref_arg(I, st, a[0]), _deref_arg(I, st, a[1])
    while isinstance(x, tuple) and x and x[0] in ('ref', 'refval', 'mref'):
        x = I.deref(x, st)
    while isinstance(y, tuple) and y and y[0] in ('ref', 'refval', 'mref'):
        y = I.deref(y, st)
    if isinstance(x, int) and isinstance(y, int):
        return SOME(ORD_LESS if x < y else ORD_GREATER if x > y else ORD_EQUAL)
    if not (isinstance(x, Iv) and isinstance(y, Iv)):
        raise Unsupported('partial_cmp of %r, %r' % (x, y))
    outs = []
    if x.lo < y.hi:
        outs.append(SOME(ORD_LESS))
    if x.hi > y.lo:
        outs.append(SOME(ORD_GREATER))
    if x.lo <= y.hi and y.lo <= x.hi:
        outs.append(SOME(ORD_EQUAL))
    if x.nan or y.nan:
        outs.append(NONE)
    if x.is_point() and y.is_point() and not (x.nan or y.nan):
        outs = [SOME(ORD_LESS if x.lo < y.lo else ORD_GREATER if x.lo > y.lo else ORD_EQUAL)]
    return outs[0] if len(outs) == 1 else Fork(outs)


def h_iter_mut(I, st, a, t, b):
    """slice::iter_mut / Vec::iter_mut: one reference per element, written through (`for x in v.iter_mut() { *x = .. }`)"""
    r = a[0]
    if isinstance(r, dict) and '#subslice' in r:
        base, lo, hi = r['#subslice']
        return {'#iter': 'seq', 'items': tuple((base[0], base[1], tuple(base[2]) + ({'k': 'cindex', 'off': i},)) for i in range(lo, hi)), 'pos': 0}
    if not (isinstance(r, tuple) and r and r[0] in ('ref', 'mref')):
        raise Unsupported('iter_mut on %r' % (r,))
    tgt = I.deref(r, st)
    if not isinstance(tgt, (tuple, list)):
        raise Unsupported('iter_mut over %r' % (tgt,))
    return {'#iter': 'seq', 'items': tuple((r[0], r[1], tuple(r[2]) + ({'k': 'cindex', 'off': i},)) for i in range(len(tgt))), 'pos': 0}


def h_index_mut(I, st, a, t, b):
    """`&mut v[a..b]`: the reference to v narrowed to the range (only iter_mut() is modelled on it); `&mut v[k]`: the element"""
    r = a[0]
    if isinstance(r, tuple) and r and r[0] in ('ref', 'mref'):
        tgt = I.deref(r, st)
        k = a[1]
        if isinstance(tgt, (tuple, list)) and isinstance(k, int) and not isinstance(k, bool):
            if 0 <= k < len(tgt):
                return (r[0], r[1], tuple(r[2]) + ({'k': 'cindex', 'off': k},))
            raise Undecided('index %d out of bounds' % k)
        if isinstance(tgt, (tuple, list)) and isinstance(k, dict) and '#adt' in k:
            kind = k['#adt'].split('::')[-1]
            lo = k.get('start', 0) if kind in ('Range', 'RangeFrom') else 0
            hi = k.get('end', len(tgt)) if kind in ('Range', 'RangeTo') else len(tgt)
            if kind == 'RangeToInclusive':
                hi = k['end'] + 1
            if isinstance(lo, int) and isinstance(hi, int) and 0 <= lo <= hi <= len(tgt):
                return {'#subslice': (r, lo, hi)}
    raise Unsupported('index_mut of %r by %r' % (r, a[1]))


def h_index_range(I, st, a, t, b):
    """v[..n] / v[a..b] / v[a..] on a sequence of known length"""
    seq = _deref_arg(I, st, a[0])
    while isinstance(seq, tuple) and seq and seq[0] in ('ref', 'refval', 'mref'):
        seq = I.deref(seq, st)
    r = a[1]
    if isinstance(seq, (tuple, list)) and not (seq and seq[0] in ('enum',)) and isinstance(r, dict) and '#adt' in r:
        kind = r['#adt'].split('::')[-1]
        lo = r.get('start', 0) if kind in ('Range', 'RangeFrom') else 0
        hi = r.get('end', len(seq)) if kind in ('Range', 'RangeTo') else len(seq)
        if kind == 'RangeToInclusive':
            hi = r['end'] + 1
        if isinstance(lo, int) and isinstance(hi, int) and 0 <= lo <= hi <= len(seq):
            return ('refval', tuple(seq[lo:hi]), ())
    raise Unsupported('index %r by %r' % (type(seq).__name__, r))


def h_iter_all(I, st, a, t, b):
    for x in _items_of(I, st, a[0]):
        if not _truth(_call_f(I, st, a[1], [x])):
            return False
    return True


def h_iter_any(I, st, a, t, b):
    for x in _items_of(I, st, a[0]):
        if _truth(_call_f(I, st, a[1], [x])):
            return True
    return False


def h_iter_find(I, st, a, t, b):
    for x in _items_of(I, st, a[0]):
        if _truth(_call_f(I, st, a[1], [('refval', x, ())])):
            return SOME(x)
    return NONE


def h_iter_collect(I, st, a, t, b):
    return tuple(_items_of(I, st, a[0]))


def h_iter_copied(I, st, a, t, b):
    return {'#iter': 'seq', 'items': tuple(_deref_arg(I, st, x) for x in _items_of(I, st, a[0])), 'pos': 0}


def h_array_map(I, st, a, t, b):
    # a mapped function may fork (a draw split into sub-ranges): every combination, as for array::from_fn
    return _product_of_alternatives([_call_f(I, st, a[1], [x], multi=True) for x in _items_of(I, st, a[0])], 'array::map function')


def _product_of_alternatives(per, what):
    import itertools as _it
    n = 1
    for x in per:
        n *= len(x)
    if n > 64:
        # too many combinations: one slot at a time runs through its alternatives while every other slot holds the join of
        # its own (an over-approximation of the product: every combination is covered by at least one of these arrays)
        def join(vs):
            if all(isinstance(v, Iv) for v in vs):
                return Iv(min(v.lo for v in vs), max(v.hi for v in vs), any(v.nan for v in vs))
            if all(v == vs[0] for v in vs):
                return vs[0]
            raise Undecided('%s forks too often' % what)
        hull = [join(x) for x in per]
        alts = []
        for i, x in enumerate(per):
            if len(x) > 1:
                for v in x:
                    alts.append(tuple(hull[:i] + [v] + hull[i + 1:]))
        return Fork(alts)
    alts = [tuple(c) for c in _it.product(*per)]
    return alts[0] if len(alts) == 1 else Fork(alts)


def h_array_from_fn(I, st, a, t, b):
    import re as _re
    m = _re.search(r'; (\d+)\]', b.local_ty(t['dest']['local']))
    if not m:
        raise Unsupported('array::from_fn of unknown length')
    return _product_of_alternatives([_call_f(I, st, a[0], [i], multi=True) for i in range(int(m.group(1)))], 'array::from_fn generator')


BUILTINS.update({
    'bool::then_some': h_then_some, 'bool::then': h_then,
    'Option::or_else': h_opt_or_else, 'Option::or': h_opt_or, 'Option::as_ref': h_opt_as_ref, 'Option::as_deref': h_opt_as_ref,
    'Option::filter': h_opt_filter, 'Option::map': h_opt_map, 'Option::map_or': h_opt_map_or, 'Option::map_or_else': h_opt_map_or_else,
    'Option::unwrap_or': h_opt_unwrap_or, 'Option::unwrap_or_else': h_opt_unwrap_or_else, 'Option::is_some': h_opt_is_some,
    'Option::is_none': h_opt_is_none, 'Option::copied': h_opt_copied, 'Option::cloned': h_opt_copied,
    'Iterator::zip': h_zip, 'Iterator::map': h_iter_map, 'Iterator::all': h_iter_all, 'Iterator::any': h_iter_any,
    'Iterator::find': h_iter_find, 'Iterator::collect': h_iter_collect, 'Iterator::copied': h_iter_copied, 'Iterator::cloned': h_iter_copied,
    'array::map': h_array_map, 'array::from_fn': h_array_from_fn, 'RangeInclusive::new': h_range_inclusive, 'PartialOrd::partial_cmp': h_partial_cmp,
    'Vec::is_empty': h_is_empty, 'slice::is_empty': h_is_empty, 'slice::last': h_seq_last, 'slice::first': h_seq_first, 'slice::get': h_seq_get,
    'iter::once': h_iter_once, 'sources::once': h_iter_once, 'once::once': h_iter_once, 'Iterator::chain': h_iter_chain, 'slice::windows': h_windows, 'Option::unwrap': h_opt_unwrap,
    'IndexMut::index_mut': h_index_mut,
    'Option::ok_or_else': h_ok_or_else, 'Option::ok_or': h_ok_or, 'Try::branch': h_try_branch, 'FromResidual::from_residual': h_from_residual, 'slice::split_last': h_split_last, 'slice::split_first': h_split_first, 'Iterator::find_map': h_iter_find_map, 'Result::ok': h_result_ok, 'Vec::retain': h_retain, 'usize::saturating_sub': h_saturating_sub, 'Option::expect': h_opt_unwrap, 'slice::to_vec': h_to_vec, 'Iterator::take': h_iter_take, 'Iterator::skip': h_iter_skip, 'slice::reverse': h_reverse, 'Vec::append': h_vec_append, 'mem::swap': h_mem_swap,
    'PartialEq::eq': h_str_eq, 'str::eq': h_str_eq, 'iter::successors': h_successors, 'successors::successors': h_successors, 'sources::successors': h_successors,
    'Index::index': h_vec_index, 'Vec::new': h_vec_new, 'Vec::with_capacity': h_vec_new, 'Vec::push': h_vec_push, 'slice::iter_mut': h_iter_mut, 'Vec::iter_mut': h_iter_mut, 'Iterator::filter': h_iter_filter, 'Iterator::filter_map': h_iter_filter_map, 'Extend::extend': h_extend, 'Vec::extend': h_extend,
})
