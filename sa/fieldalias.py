"""Private struct fields are named in many rules.  Renaming a private field is a behaviour-preserving edit, so the
names the rules use are those of the confirmed tree (sa/field_ref.json: struct -> ordered [name, type, private]); on
load, a field of such a struct whose name is not in the reference is matched to the reference field that disappeared -
by type when that is unambiguous, else by position - and the facts are rewritten to the reference name.  Public fields
are part of the API and are never aliased.  A field that matches nothing (a new field) keeps its name."""
import json, os

REF = json.load(open(os.path.join(os.path.dirname(os.path.abspath(__file__)), 'field_ref.json')))


def alias_table(adts):
    """{adt path: {actual name: reference name}} for the ADT list of a fact file."""
    out = {}
    for a in adts:
        ref = REF.get(a['path'])
        if ref is None or a.get('kind') != 'Struct' or not a['variants']:
            continue
        cur = a['variants'][0]['fields']
        cur_names = [f['name'] for f in cur]
        gone = [(i, r) for i, r in enumerate(ref) if r[2] and r[0] not in cur_names]         # private reference fields no longer present
        new = [(i, f) for i, f in enumerate(cur) if 'Public' not in f['vis'] and f['name'] not in [r[0] for r in ref]]
        m = {}
        # by type, when one vanished field and one new field share a type nobody else (among them) has
        for i, f in list(new):
            cands = [(j, r) for j, r in gone if r[1] == f['ty']]
            same_new = [g for _, g in new if g['ty'] == f['ty']]
            if len(cands) == 1 and len(same_new) == 1:
                m[f['name']] = cands[0][1][0]
        gone = [(j, r) for j, r in gone if r[0] not in m.values()]
        new = [(i, f) for i, f in new if f['name'] not in m]
        # by position (same index, same type), for renamed fields among several of one type
        if len(cur) == len(ref):
            for i, f in new:
                for j, r in gone:
                    if i == j and r[1] == f['ty']:
                        m[f['name']] = r[0]
        if m:
            out[a['path']] = m
    return out


def apply(facts):
    """Rewrite the fact tree in place; returns the alias table (for the evidence)."""
    table = alias_table(facts.get('adts', []))
    if not table:
        return {}
    for a in facts.get('adts', []):
        m = table.get(a['path'])
        if m:
            for f in a['variants'][0]['fields']:
                f['name'] = m.get(f['name'], f['name'])

    def walk(x):
        if isinstance(x, dict):
            if x.get('k') == 'field' and x.get('adt') in table:
                x['name'] = table[x['adt']].get(x['name'], x['name'])
            if isinstance(x.get('fields'), list) and x.get('adt') in table:
                # the field list of an aggregate (struct literal) of that type
                x['fields'] = [table[x['adt']].get(n, n) if isinstance(n, str) else n for n in x['fields']]
            for v in x.values():
                if isinstance(v, (dict, list)):
                    walk(v)
        elif isinstance(x, list):
            for v in x:
                if isinstance(v, (dict, list)):
                    walk(v)
    walk(facts.get('bodies', []))
    return table
