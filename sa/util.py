"""Shared helpers for the rule layer: wrapper discovery, loop sources, call classification, closure inlining."""
import re

from . import mir
from .mir import callee_name, callee_tail, path_tail, strip

KIN_TRAIT = 'kinematic_traits::Kinematics'
KIN_METHODS = ['inverse', 'inverse_5dof', 'inverse_continuing_5dof', 'inverse_continuing', 'forward',
               'forward_with_joint_poses', 'kinematic_singularity', 'constraints']
INVERSE_METHODS = ['inverse', 'inverse_5dof', 'inverse_continuing_5dof', 'inverse_continuing']
OPW = 'kinematics_impl::OPWKinematics'


def kin_fields(prog):
    """{adt path: field name} for every struct with a field of type Arc<dyn Kinematics>."""
    out = {}
    for p, a in prog.adts.items():
        for v in a['variants']:
            for f in v['fields']:
                ty = f['ty'].replace(' ', '')
                if 'Arc<' in ty and 'dynkinematic_traits::Kinematics' in ty or ('Arc<(dyn' in ty and 'Kinematics' in ty):
                    out[p] = f['name']
    return out


def kin_impls(prog):
    """Types implementing the Kinematics trait (from the fact base)."""
    return sorted({b.raw.get('impl_self') for b in prog.bodies.values()
                   if (b.raw.get('impl_trait') or '').endswith('kinematic_traits::Kinematics')})


def virtual_calls(body, trait_tail='Kinematics'):
    out = []
    for bi, t in body.calls():
        c = t['callee']
        if c.get('kind') == 'virtual' and (c.get('trait') or '').endswith(trait_tail):
            out.append((bi, t, c['resolved'].split('::')[-1]))
    return out


def is_self_field(t, field):
    """term is (self).field possibly through refs/deref/Arc::deref"""
    t = strip(t)
    while isinstance(t, tuple) and ((t[0] == 'call' and mir.cname(t[1]) in ('Deref::deref', 'AsRef::as_ref', 'Borrow::borrow')) or t[0] == 'cast'):
        t = strip(t[2]) if t[0] == 'call' else strip(t[1])
    return isinstance(t, tuple) and t[0] == 'fld' and t[2] == field and is_param(strip(t[1]), 1)


def is_param(t, idx=None):
    t = strip(t)
    return isinstance(t, tuple) and t[0] in ('param',) and (idx is None or t[1] == idx)


def param_index(t):
    t = strip(t)
    if isinstance(t, tuple) and t[0] == 'param':
        return t[1]
    return None


def loop_source(t):
    """If t is the element variable of a `for`/`while let` loop return the iterator expression term, else None.
    Shape: fld(as(call(next, &mut iter), Some), 0) with iter = mutb(l, src)."""
    t = strip(t)
    if isinstance(t, tuple) and t[0] == 'fld' and isinstance(t[1], tuple) and t[1][0] == 'as' and t[1][2] == 'Some':
        c = t[1][1]
        if isinstance(c, tuple) and c[0] == 'call' and path_tail(c[1], 'next'):
            it = strip(c[2])
            if isinstance(it, tuple) and it[0] == 'mutb':
                it = it[2]
            return strip(it)
    return None


ADAPTORS_TRANSPARENT = ('into_iter', 'iter', 'iter_mut')


def iter_chain(src):
    """Peel iterator adaptors: returns (base term, [adaptor names outermost last]).  Unsize casts and the Vec -> slice view
    (`v.iter()` on a Vec goes through Deref: the same elements in order) are looked through; a base reached through such a
    view keeps its borrow markers (callers identify the local through them)."""
    ad = []
    t = strip(src)
    while isinstance(t, tuple) and t[0] == 'call':
        name = mir.cname(t[1]).split('::')[-1]
        if name in ('into_iter', 'iter', 'iter_mut', 'enumerate', 'rev', 'skip', 'take', 'step_by', 'zip', 'chain',
                    'filter', 'map', 'cloned', 'copied', 'windows', 'par_iter', 'into_par_iter', 'skip_while', 'take_while'):
            ad.append(name)
            t = strip(t[2])
            while isinstance(t, tuple) and (t[0] == 'cast' or (t[0] == 'call' and len(t) == 3 and mir.cname(t[1]) in _SLICE_VIEWS)):
                if t[0] == 'cast':
                    t = strip(t[1])
                    continue
                inner = strip(t[2])
                if isinstance(inner, tuple) and (inner[0] == 'cast' or (inner[0] == 'call' and (
                        mir.cname(inner[1]) in _SLICE_VIEWS or mir.cname(inner[1]).split('::')[-1] in ('into_iter', 'iter', 'iter_mut', 'enumerate', 'rev', 'filter', 'map', 'cloned', 'copied')))):
                    t = inner
                else:
                    t = t[2]
                    break
        else:
            break
    ad.reverse()
    return t, ad


_SLICE_VIEWS = ('Deref::deref', 'DerefMut::deref_mut', 'Vec::as_slice', 'Vec::as_mut_slice', 'AsRef::as_ref', 'Borrow::borrow')


def range_of(src):
    """If src (after into_iter) is Range{start,end} return (start_term, end_term)."""
    base, ad = iter_chain(src)
    if isinstance(base, tuple) and base[0] == 'agg' and base[1].endswith('Range') and len(base) == 4:
        return base[2], base[3], ad
    return None


def const_val(t):
    t = strip(t)
    if isinstance(t, tuple) and t[0] == 'const':
        return t[2]
    if isinstance(t, tuple) and t[0] == 'cast':
        return const_val(t[1])
    return None


def closure_bodies(prog, parent_path):
    return [prog.bodies[p] for p in prog.closures_of.get(parent_path, [])]


def closure_of_term(prog, t):
    """If t is a closure aggregate return (body, captured operand terms)."""
    t = strip(t)
    if isinstance(t, tuple) and t[0] == 'agg' and t[1].startswith('closure:'):
        p = t[1][len('closure:'):]
        return prog.bodies.get(p), t[2:]
    return None, ()


def where(body, bi, idx=-1):
    return body.where(bi, idx)


def fn_name(body):
    return body.path


def find_one(ctx, **kw):
    r = ctx.prog.find(**kw)
    ctx.require(len(r) == 1, 'expected exactly one body for %r, found %d' % (kw, len(r)))
    ctx.fn(r[0])
    return r[0]


def local_by_name(body, name):
    return [l for l, n in body.names.items() if n == name]


def writes_to(body, pred):
    """Statements / call destinations whose lhs place satisfies pred(place) -> [(bb, idx, node, kind)]"""
    out = []
    for i, j, st in body.stmts():
        if pred(st['lhs']):
            out.append((i, j, st, 'st'))
    for i, t in body.calls():
        if pred(t['dest']):
            out.append((i, -1, t, 'call'))
    return out


def locals_of_type(body, pred):
    """user-visible or temporary locals whose type string satisfies pred"""
    return [d['i'] for d in body.raw['locals'] if pred(d['ty'])]


def table_locals(body):
    """(theta_local, sols_local) of an internal solver, by role: both are [[f64; N]; 8] arrays; theta has a single
    aggregate definition (the candidate table), sols is element-wise rewritten."""
    theta = sols = None
    for l in locals_of_type(body, lambda t: re.match(r'^\[\[f64; [56]\]; 8\]$', t) is not None):
        defs = body.defs().get(l, [])
        whole = [d for d in defs if d[4]]
        partial = [d for d in defs if not d[4]]
        if len(whole) == 1 and not partial and whole[0][0] == 'st' and whole[0][3]['rv']['k'] == 'agg' and l in body.names:
            theta = l
        elif partial and l in body.names:
            if theta is None and all(d[0] == 'st' and len(d[3]['lhs']['proj']) == 1 for d in partial) and unrolled_rows(body, l) is not None:
                theta = l             # the candidate table filled row by row in a loop over a literal array
            else:
                sols = l
    return theta, sols


def sig(body):
    """[return type, param types...] of a body"""
    return [body.local_ty(i) for i in range(0, body.arg_count + 1)]


def find_role(ctx, desc, pred, module=None, called_from=None):
    """Unique non-closure body selected by a predicate on (body, signature) - private helpers are found by what they are,
    not by what they are called.  called_from: restrict to crate-local callees of these bodies (transitively through closures)."""
    prog = ctx.prog
    cands = []
    allowed = None
    if called_from is not None:
        allowed = set()
        for cb in called_from:
            for p in prog.reachable_bodies([cb.path]):
                allowed.add(p)
    for pth, b in prog.bodies.items():
        if b.kind == 'Closure':
            continue
        if module is not None and not pth.startswith(module):
            continue
        if allowed is not None and pth not in allowed:
            continue
        try:
            if pred(b, sig(b)):
                cands.append(b)
        except Exception:
            continue
    ctx.require(len(cands) == 1, '%s (found %d: %s)' % (desc, len(cands), [c.path for c in cands][:4]))
    ctx.fn(cands[0])
    return cands[0]


def subsequence_filter(prog, b, source_param, pred_ok):
    """Recognise `keep the elements of <parameter source_param> for which P holds, in order` in body b, written either as
    a loop with a guarded push or as iter().filter(closure)[.cloned()].collect().
    pred_ok(body_of_pred, pred_term, elem_term) -> polarity (True: kept when P true, False: kept when P false) or None.
    Returns (ok, description)."""
    from . import opw
    # forbidden operations anywhere in the body
    for ci, ct in b.calls():
        n = mir.cname(callee_name(ct))
        m = n.split('::')[-1]
        owner = n.split('::')[0]
        if (m in (opw.VEC_REMOVERS - {'retain'}) or m in opw.VEC_REORDER) and owner in ('Vec', 'slice') or m.startswith('par_') or \
                (m in (opw.ITER_DROPPERS - {'filter'}) and owner in ('Iterator', 'ParallelIterator')):
            return False, 'order-changing / element-dropping operation `%s` at %s' % (n, b.where(ci))
    pushes = [(bi, t) for bi, t in b.calls() if mir.cname(callee_name(t)) == 'Vec::push']
    filters = [(bi, t) for bi, t in b.calls() if mir.cname(callee_name(t)) == 'Iterator::filter']
    retains = [(bi, t) for bi, t in b.calls() if mir.cname(callee_name(t)) == 'Vec::retain']
    if len(retains) == 1 and not pushes and not filters:
        # in place: `v.retain(|x| P(x))` on the input vector itself, which is then returned
        bi, t = retains[0]
        recv = strip(b.op_term(t['args'][0], (bi, None)))
        if not is_param(recv, source_param):
            return False, 'retain does not run on the input vector: ' + mir.show(recv, maxdepth=3)
        cb, caps = closure_of_term(prog, b.op_term(t['args'][1], (bi, None)))
        if cb is None:
            return False, 'retain predicate is not a closure'
        rv = [strip(x[0]) for x in cb.return_values()]
        if len(rv) != 1:
            return False, 'retain closure has several return values'
        r = rv[0]
        neg = False
        while isinstance(r, tuple) and r[0] == 'un' and r[1] == 'Not':
            neg = not neg
            r = strip(r[2])
        if not (isinstance(r, tuple) and r[0] == 'call'):
            return False, 'retain closure does not return the predicate'
        pol = pred_ok(cb, r, ('param', 2, cb.name_of(2)))
        if pol is None:
            ELEM = ('const', 'marker', 'element', None)
            pol = pred_ok(b, strip(subst_closure(cb, r, list(caps), [ELEM])), ELEM)
        if pol is None:
            return False, 'retain closure does not apply the expected predicate to its element: ' + mir.show(r, maxdepth=4)
        if (not neg) != pol:
            return False, 'retain keeps the elements on the wrong edge of the predicate'
        others = [mir.cname(callee_name(ct)) for ci, ct in b.calls() if ci != bi and ct['args'] and is_param(strip(b.op_term(ct['args'][0], (ci, None))), source_param)
                  and mir.cname(callee_name(ct)).split('::')[0] in ('Vec', 'slice')]
        if others:
            return False, 'the input vector is also changed by %s' % others
        rvs = [strip(x[0]) for x in b.return_values()]
        if not (len(rvs) == 1 and is_param(rvs[0], source_param)):
            return False, 'the retained vector is not what is returned'
        return True, 'retain on the input vector'
    if len(pushes) == 1 and not filters and not retains:
        bi, t = pushes[0]
        elem = strip(b.op_term(t['args'][1], (bi, None)))
        e0 = elem
        while isinstance(e0, tuple) and e0[0] == 'call' and mir.cname(e0[1]) == 'Clone::clone':
            e0 = strip(e0[2])
        src = loop_source(e0)
        if src is None:
            return False, 'pushed value is not the loop element: ' + mir.show(elem, maxdepth=4)
        base, ad = iter_chain(src)
        if not is_param(base, source_param) or any(a not in ('into_iter', 'iter', 'cloned', 'copied') for a in ad):
            return False, 'does not iterate its input sequentially (source %s, adaptors %s)' % (mir.show(base, maxdepth=3), ad)
        found = None
        for g, key, sw in b.guard_terms(bi):
            g = strip(g)
            if isinstance(g, tuple) and g[0] == 'call':
                pol = pred_ok(b, g, e0)
                if pol is not None:
                    found = (opw.truth(key) is pol)
        if found is not True:
            return False, 'push is not on the keeping edge of the predicate for the pushed element'
        dest_vec = strip(b.op_term(t['args'][0], (bi, None)))
        rv = [strip(x[0]) for x in b.return_values()]
        if not all(r == dest_vec for r in rv):
            return False, 'returned value is not the vector receiving the pushes'
        return True, 'loop with guarded push'
    if len(filters) == 1 and not pushes and not retains:
        bi, t = filters[0]
        base, ad = iter_chain(b.op_term(t['args'][0], (bi, None)))
        if not is_param(base, source_param) or any(a not in ('into_iter', 'iter') for a in ad):
            return False, 'filter does not run over the whole input in order (source %s, adaptors %s)' % (mir.show(base, maxdepth=3), ad)
        cb, caps = closure_of_term(prog, b.op_term(t['args'][1], (bi, None)))
        if cb is None:
            return False, 'filter predicate is not a closure'
        rv = [strip(x[0]) for x in cb.return_values()]
        if len(rv) != 1:
            return False, 'filter closure has several return values'
        r = rv[0]
        neg = False
        while isinstance(r, tuple) and r[0] == 'un' and r[1] == 'Not':
            neg = not neg
            r = strip(r[2])
        if not (isinstance(r, tuple) and r[0] == 'call'):
            return False, 'filter closure does not return the predicate'
        pol = pred_ok(cb, r, ('param', 2, cb.name_of(2)))
        if pol is None:
            # values the closure captured (a `let robot = self.kinematics.as_ref();` hoisted out of it) are written back in
            ELEM = ('const', 'marker', 'element', None)
            pol = pred_ok(b, strip(subst_closure(cb, r, list(caps), [ELEM])), ELEM)
        if pol is None:
            return False, 'filter closure does not apply the expected predicate to its element: ' + mir.show(r, maxdepth=4)
        if (not neg) != pol:
            return False, 'filter keeps the elements on the wrong edge of the predicate'
        # returned value = collect of (cloned/copied of) the filter
        rvs = [strip(x[0]) for x in b.return_values()]
        okr = len(rvs) == 1
        if okr:
            x = rvs[0]
            okr = isinstance(x, tuple) and x[0] == 'call' and mir.cname(x[1]).split('::')[-1] == 'collect'
            if okr:
                rbase, rad = iter_chain(x[2])
                okr = is_param(rbase, source_param) and rad.count('filter') == 1 and all(n in ('cloned', 'copied', 'filter', 'into_iter', 'iter') for n in rad)
        if not okr:
            return False, 'result is not collect() of the filtered sequence'
        return True, 'iterator filter + collect'
    return False, 'neither a single guarded push, a single iterator filter nor a single retain (pushes=%d, filters=%d, retains=%d)' % (len(pushes), len(filters), len(retains))


def edge_value(g, key):
    """(term, n) when the switch edge (g, key) says `term == n` for an integer constant n: `term == n` on its true edge,
    `term != n` on its false edge, or arm n of a `match term { n => .. }`; None otherwise."""
    from . import opw
    g0 = strip(g)
    if isinstance(g0, tuple) and g0[0] == 'bin' and g0[1] in ('Eq', 'Ne'):
        tv = opw.truth(key)
        if tv in (True, False) and (g0[1] == 'Eq') == tv and isinstance(const_val(g0[3]), int) and not isinstance(const_val(g0[3]), bool):
            return strip(g0[2]), const_val(g0[3])
        return None
    if isinstance(g0, tuple) and g0[0] in ('fld', 'var', 'param', 'cast', 'idx', 'deref') and isinstance(key, int) and not isinstance(key, bool):
        t = g0
        while isinstance(t, tuple) and t[0] == 'cast':
            t = strip(t[1])
        return t, key
    return None


def differs_guard(g, truth):
    """(a, b) when the edge taken with `truth` means a != b: `a != b` on its true edge or `a == b` on its false edge
    (operator form); None otherwise.  equals_guard is the converse."""
    g = strip(g)
    if isinstance(g, tuple) and g[0] == 'bin' and g[1] in ('Eq', 'Ne') and truth in (True, False):
        if (g[1] == 'Ne') == truth:
            return g[2], g[3]
    return None


def equals_guard(g, truth):
    return differs_guard(g, (not truth) if truth in (True, False) else truth)


def as_bound(g, truth):
    """Canonical form of a comparison known to hold/fail on an edge: ('le'|'lt', a, b) meaning a <= b / a < b, or None."""
    g = strip(g)
    if not (isinstance(g, tuple) and g[0] == 'bin' and g[1] in ('Le', 'Lt', 'Ge', 'Gt') and truth in (True, False)):
        return None
    op, a, b = g[1], g[2], g[3]
    if not truth:
        op = {'Le': 'Gt', 'Lt': 'Ge', 'Ge': 'Lt', 'Gt': 'Le'}[op]
    if op == 'Le':
        return ('le', a, b)
    if op == 'Lt':
        return ('lt', a, b)
    if op == 'Ge':
        return ('le', b, a)
    return ('lt', b, a)


def true_conditions(body):
    """For a bool function: one set of canonical bounds (as_bound) per return path that can yield `true`:
    the dominating comparison edges plus, when the returned value is itself a comparison, that comparison."""
    from . import opw
    out = []
    for t, d, rb in body.return_values():
        t = strip(t)
        v = const_val(t)
        if v in (0, False):
            continue
        conds = []
        for g, k, sw in body.guard_terms(d[1]):
            bd = as_bound(g, opw.truth(k))
            if bd is not None:
                conds.append(bd)
        if v in (1, True):
            out.append(conds)
        else:
            bd = as_bound(t, True)
            if bd is None:
                out.append(None)          # some other expression: unknown
            else:
                out.append(conds + [bd])
    return out


def nonempty_of(t):
    """t is a boolean term meaning `v is not empty` (!v.is_empty(), v.len() > 0, v.len() != 0, v.len() >= 1, 0 < v.len()) -> term of v, else None"""
    t = strip(t)
    if not isinstance(t, tuple):
        return None

    def len_of(x):
        x = strip(x)
        if isinstance(x, tuple) and x[0] == 'call' and mir.cname(x[1]).split('::')[-1] == 'len':
            return strip(x[2])
        return None
    if t[0] == 'un' and t[1] == 'Not':
        x = strip(t[2])
        if isinstance(x, tuple) and x[0] == 'call' and mir.cname(x[1]).split('::')[-1] == 'is_empty':
            return strip(x[2])
        return None
    if t[0] == 'bin':
        op, a, b = t[1], t[2], t[3]
        la, lb = len_of(a), len_of(b)
        ca, cb = const_val(a), const_val(b)
        if la is not None and ((op in ('Gt', 'Ne') and cb == 0) or (op == 'Ge' and cb == 1)):
            return la
        if lb is not None and ((op in ('Lt', 'Ne') and ca == 0) or (op == 'Le' and ca == 1)):
            return lb
    return None


def emptiness_guard(g, truth):
    """A branch condition g known to be `truth` on an edge, read as a statement about a sequence v:
    -> (term of v, True) when the edge implies v is empty, (v, False) when it implies v is not empty, else None."""
    g = strip(g)
    if truth not in (True, False) or not isinstance(g, tuple):
        return None
    if g[0] == 'call' and mir.cname(g[1]).split('::')[-1] == 'is_empty':
        return strip(g[2]), truth
    if g[0] == 'un' and g[1] == 'Not':
        r = emptiness_guard(g[2], not truth)
        return r
    v = nonempty_of(g)
    if v is not None:
        return v, (not truth)
    if g[0] == 'bin' and g[1] == 'Eq':
        for a, b in ((g[2], g[3]), (g[3], g[2])):
            a = strip(a)
            if isinstance(a, tuple) and a[0] == 'call' and mir.cname(a[1]).split('::')[-1] == 'len' and const_val(b) == 0:
                return strip(a[2]), truth
    return None


def _fnum(t):
    """numeric value of a constant float expression (PI, -PI, 2.0 * PI ...)"""
    t = strip(t)
    v = const_val(t)
    if isinstance(v, (int, float)) and not isinstance(v, bool):
        return float(v)
    if isinstance(t, tuple) and t[0] == 'un' and t[1] == 'Neg':
        x = _fnum(t[2])
        return None if x is None else -x
    if isinstance(t, tuple) and t[0] == 'bin' and t[1] in ('Mul', 'Add', 'Sub'):
        a, b = _fnum(t[2]), _fnum(t[3])
        if a is None or b is None:
            return None
        return {'Mul': a * b, 'Add': a + b, 'Sub': a - b}[t[1]]
    return None


def reduced_to_pi(body, var, at_block):
    """Control-flow proof that the f64 variable `var` (a term: ('var', ..) / ('mparam', ..)) lies in [-PI, PI] at block
    `at_block` and differs from its initial value by whole turns only:
      bounded   - the block is dominated by edges on which `var <= c1` (c1 <= PI) and `c2 <= var` (c2 >= -PI) hold
                  (typically the exit edges of `while var > PI` and `while var < -PI`);
      congruent - every re-definition of the variable is `var +/- 2*PI`.
    -> (bounded, congruent)"""
    import math
    from . import opw
    var = strip(var)
    lo = hi = False
    for g, k, sw in body.guard_terms(at_block):
        bd = as_bound(g, opw.truth(k))
        if bd is None:
            continue
        a, b = strip(bd[1]), strip(bd[2])
        if a == var and _fnum(b) is not None and _fnum(b) <= math.pi + 1e-12:
            hi = True
        if b == var and _fnum(a) is not None and _fnum(a) >= -math.pi - 1e-12:
            lo = True
    local = var[2] if var[0] == 'var' else var[1]
    congruent = True
    n = 0
    for d in body.defs().get(local, []):
        if d[0] != 'st':
            if d[0] == 'arg':
                continue
            congruent = False
            continue
        t = strip(body._def_term(d))
        if isinstance(t, tuple) and t[0] == 'bin' and t[1] in ('Add', 'Sub') and strip(t[2]) == var:
            c = _fnum(t[3])
            n += 1
            if c is None or abs(abs(c) - 2 * math.pi) > 1e-12:
                congruent = False
        elif var[0] == 'var' and not contains(t, lambda x: x == var):
            continue          # the initial value
        else:
            congruent = False
    return (lo and hi), (congruent and n >= 1)


def contains(t, pred):
    return mir.contains(t, pred)


def reduction_helper(prog, path):
    """A crate-local fn(f64) -> f64 whose result is its argument reduced to [-PI, PI] by whole turns (proved from its control
    flow with reduced_to_pi) -> True / False; None when `path` is not such a function at all."""
    b = prog.bodies.get(path)
    if b is None or b.kind == 'Closure' or b.arg_count != 1 or b.local_ty(1) != 'f64' or b.local_ty(0) != 'f64':
        return None
    rvs = b.return_values()
    if not rvs:
        return False
    for t, d, rb in rvs:
        t = strip(t)
        if not (isinstance(t, tuple) and t[0] in ('mparam', 'var')):
            return False
        bounded, congruent = reduced_to_pi(b, t, d[1])
        if not (bounded and congruent):
            return False
    return True


def pi_constants(ctx, rule, bodies, key_prefix='constants'):
    """Every floating constant of the given bodies (and their closures) that lies within 1e-3 (relative) of pi/2, pi or 2*pi
    must be that value to the last bit of an f64 computation (|c - k*pi| <= 4 ulp): a truncated literal such as 6.2831 or 3.14159
    shifts every result by an amount that grows with the number of turns."""
    import math
    prog = ctx.prog
    targets = {'pi/2': math.pi / 2, 'pi': math.pi, '2*pi': 2 * math.pi, 'pi/180': math.pi / 180, '180/pi': 180 / math.pi}
    seen = 0
    todo = []
    for b in bodies:
        todo.append(b)
        todo += closure_bodies(prog, b.path)
    for b in todo:
        vals = set()
        for blk in b.blocks:
            ops = []
            for st in blk['stmts']:
                rv = st['rv']
                for k in ('op', 'a', 'b'):
                    if isinstance(rv.get(k), dict):
                        ops.append(rv[k])
                ops += [o for o in rv.get('ops', []) if isinstance(o, dict)]
            t = blk['term']
            ops += [a for a in t.get('args', []) if isinstance(a, dict)]
            if isinstance(t.get('discr'), dict):
                ops.append(t['discr'])
            for o in ops:
                if o.get('k') == 'const' and 'f' in o:
                    try:
                        vals.add((float(o['f']), o.get('name') or ''))
                    except ValueError:
                        pass
        for v, name in sorted(vals):
            for tn, tv in targets.items():
                if abs(abs(v) - tv) <= 1e-3 * tv:
                    seen += 1
                    exact = abs(abs(v) - tv) <= 4 * math.ulp(tv)
                    ctx.check(exact, rule, '%s/%s/%s' % (key_prefix, b.path.split('::')[-1], name.split('::')[-1] or tn), b.where(0), b.path,
                              'the constant %r%s is close to %s = %r but not equal to it: results drift by %.1e per use' % (v, ' (%s)' % name if name else '', tn, tv, abs(abs(v) - tv)),
                              found=repr(v), expected=repr(tv), detail='%s exact' % tn)
    return seen


def stores_between(b, call_bi, call_term, local, use_bi):
    """source positions of statements that store into `local` (whole or element) on some path from the call in block call_bi to
    block use_bi that does not pass through the call again: the value the call saw is then not the value used later"""
    bad = []
    if not b.reaches(call_bi, use_bi):
        return bad
    nxt = call_term.get('target')
    for i, j, st in b.stmts():
        if st['lhs']['local'] != local or i == call_bi:
            continue
        if nxt is not None and b.reaches(nxt, i, avoid=(call_bi,)) and b.reaches(i, use_bi, avoid=(call_bi,)):
            bad.append(b.where(i, j))
    return sorted(set(bad))


# ---------------------------------------------------------------- length of a Vec local along the paths after a test of it
_GROW_BY_ONE = ('Vec::push',)
_LEN_CALLS = ('Vec::len', 'slice::len')


def _ref_root(b, operand):
    """local L when the operand is (a temp holding) `&L` / `&mut L` / `move L`, else None."""
    if operand.get('k') not in ('copy', 'move'):
        return None
    pl = operand['place']
    if pl['proj']:
        return pl['local'] if pl['proj'] == [{'k': 'deref'}] else None
    loc = pl['local']
    for d in b.defs().get(loc, []):
        if d[0] == 'st' and d[3]['rv'].get('k') == 'ref':
            p = d[3]['rv']['place']
            if not p['proj']:
                return p['local']
            if p['proj'] == [{'k': 'deref'}]:
                return _ref_root(b, {'k': 'copy', 'place': {'local': p['local'], 'proj': []}})
        if d[0] == 'st' and d[3]['rv'].get('k') == 'use' and d[3]['rv']['op'].get('k') in ('copy', 'move') and not d[3]['rv']['op']['place']['proj'] \
                and len(b.defs().get(loc, [])) == 1:
            return _ref_root(b, d[3]['rv']['op'])
    return loc


def len_switches(b, vec):
    """[(switch block, {key: target})] for switches on `vec.len()` (a match on the length) and for tests `vec.len() == n` /
    `!= n` (given as {n: target-when-equal, 'otherwise': target-when-different})."""
    out = []
    for sw, blk in enumerate(b.blocks):
        t = blk['term']
        if t['k'] != 'switch':
            continue
        g = strip(b.switch_atom(sw))
        if isinstance(g, tuple) and g[0] == 'call' and mir.cname(g[1]) in _LEN_CALLS and _is_len_call_on(b, sw, vec):
            edges = {int(v): tg for v, tg in t['targets']}
            edges['otherwise'] = t.get('otherwise')
            out.append((sw, edges))
        elif isinstance(g, tuple) and g[0] == 'bin' and g[1] in ('Eq', 'Ne') and isinstance(const_val(g[3]), int) and \
                isinstance(strip(g[2]), tuple) and strip(g[2])[0] == 'call' and mir.cname(strip(g[2])[1]) in _LEN_CALLS and _len_feeds(b, sw, vec):
            tv = {}
            for key, tg in b.switch_edges(sw):
                tv[key] = tg
            t_true = tv.get(1, tv.get('otherwise')) if 1 in tv or 0 in tv else None
            t_false = tv.get(0)
            if t_true is None or t_false is None:
                continue
            n = const_val(g[3])
            out.append((sw, {n: t_true, 'otherwise': t_false} if g[1] == 'Eq' else {n: t_false, 'otherwise': t_true}))
    return out


def _len_call_blocks(b, vec):
    return [bi for bi, t in b.calls() if mir.cname(callee_name(t)) in _LEN_CALLS and t['args'] and _ref_root(b, t['args'][0]) == vec]


def _is_len_call_on(b, sw, vec):
    op = b.blocks[sw]['term']['discr']
    if op.get('k') not in ('copy', 'move') or op['place']['proj']:
        return False
    loc = op['place']['local']
    return any(b.blocks[bi]['term'].get('dest', {}).get('local') == loc for bi in _len_call_blocks(b, vec))


def _len_feeds(b, sw, vec):
    """the comparison switched on in sw reads a len() call on vec"""
    op = b.blocks[sw]['term']['discr']
    if op.get('k') not in ('copy', 'move') or op['place']['proj']:
        return False
    dests = {b.blocks[bi]['term']['dest']['local'] for bi in _len_call_blocks(b, vec)}
    for d in b.defs().get(op['place']['local'], []):
        if d[0] == 'st' and d[3]['rv'].get('k') == 'bin':
            for side in ('a', 'b'):
                o = d[3]['rv'][side]
                for _ in range(4):
                    if not (o.get('k') in ('copy', 'move') and not o['place']['proj']):
                        break
                    if o['place']['local'] in dests:
                        return True
                    # `let found = v.len();` - the measured length kept in a variable: plain copies are followed
                    ds = [x for x in b.defs().get(o['place']['local'], [])]
                    if len(ds) == 1 and ds[0][0] == 'st' and ds[0][3]['rv'].get('k') == 'use':
                        o = ds[0][3]['rv']['op']
                    else:
                        break
    return False


def lengths_reaching(b, vec, site):
    """The set of possible lengths of Vec local `vec` on entry to block `site`, when every path to it passes one test of
    vec.len() (the last such test before the site is taken): for each edge of that test the length it establishes, plus one
    for every push on the way; None when some path carries an unknown length (the `otherwise` edge of the test reaches the
    site, the vector is changed by anything but push, or a loop changes it)."""
    cands = [(sw, e) for sw, e in len_switches(b, vec) if sw != site and b.dominates(sw, site)]
    if not cands:
        return None
    cands.sort(key=lambda x: sum(1 for o in cands if b.dominates(o[0], x[0])))
    sw, edges = cands[-1]
    # the length was measured when the switch ran: nothing may change the vector between the len() call and the switch
    out = set()
    seen = {}
    later = {s2: e2 for s2, e2 in len_switches(b, vec) if s2 != sw}
    grow_blocks = [gb for gb, gt in b.calls() if gt['args'] and _ref_root(b, gt['args'][0]) == vec and mir.cname(callee_name(gt)) not in _LEN_CALLS
                   and mir.cname(callee_name(gt)) not in ('Vec::is_empty', 'Vec::iter', 'slice::iter', 'Deref::deref', 'Vec::as_slice', 'Index::index')]
    work = [(tg, key) for key, tg in edges.items() if tg is not None]
    while work:
        blk, ln = work.pop()
        if blk == site:
            if ln == 'otherwise':
                return None
            out.add(ln)
            continue
        if not b.reaches(blk, site):
            continue
        if blk in seen:
            if seen[blk] != ln:
                return None
            continue
        seen[blk] = ln
        t = b.blocks[blk]['term']
        if ln == 'otherwise' and blk in later and not any(b.reaches(lb, gb) and b.reaches(gb, blk) for lb in _len_call_blocks(b, vec) for gb in grow_blocks
                                                           if b.reaches(lb, blk)):
            # a further test of the same length (`len != 5 && len != 6`): its edges name the length where the first did not
            for key, tg in later[blk].items():
                if tg is not None:
                    work.append((tg, key))
            continue
        if t['k'] == 'call' and t['args'] and _ref_root(b, t['args'][0]) == vec:
            n = mir.cname(callee_name(t))
            if n in _GROW_BY_ONE:
                ln = ln + 1 if isinstance(ln, int) else ln
            elif n not in _LEN_CALLS and n not in ('Vec::is_empty', 'Vec::iter', 'slice::iter', 'Deref::deref', 'Vec::as_slice', 'Index::index'):
                # resize(n, ..) sets the length, anything else is unknown
                if n == 'Vec::resize' and isinstance(const_val(strip(b.op_term(t['args'][1], (blk, None)))), int):
                    ln = const_val(strip(b.op_term(t['args'][1], (blk, None))))
                elif n in ('TryInto::try_into', 'TryFrom::try_from', 'IntoIterator::into_iter'):
                    pass
                else:
                    return None
        for nx in b.succ(blk):
            if not b.blocks[nx].get('cleanup'):
                work.append((nx, ln))
    return out


# ---------------------------------------------------------------- inlining of straight-line local calls in terms
def upvar_index(cb):
    """{captured name: position} of a closure body, from the field projections on its environment parameter."""
    idx = {}

    def walk(x):
        if isinstance(x, dict):
            if x.get('local') == 1 and isinstance(x.get('proj'), list):
                for e in x['proj']:
                    if e.get('k') == 'field':
                        idx.setdefault(e['name'], e['i'])
                        break
            for v in x.values():
                if isinstance(v, (dict, list)):
                    walk(v)
        elif isinstance(x, list):
            for v in x:
                walk(v)
    walk(cb.raw.get('blocks', []))
    return idx


def subst_closure(cb, t, caps, args):
    """closure return term with its parameters replaced by the call's arguments and its captures by the captured values"""
    up = upvar_index(cb)

    def f(x):
        if not isinstance(x, tuple):
            return x
        if x[0] == 'param' and x[1] >= 2 and x[1] - 2 < len(args):
            return args[x[1] - 2]
        if x[0] == 'fld' and is_param(x[1], 1) and x[2] in up and up[x[2]] < len(caps):
            return caps[up[x[2]]]
        return (x[0],) + tuple(f(y) if isinstance(y, tuple) else y for y in x[1:])
    return f(t)


def subst_params(t, args):
    def f(x):
        if not isinstance(x, tuple):
            return x
        if x[0] in ('param', 'mparam') and x[1] - 1 < len(args):
            return args[x[1] - 1]
        return (x[0],) + tuple(f(y) if isinstance(y, tuple) else y for y in x[1:])
    return f(t)




def inline_calls(prog, t, depth=2, stop=None):
    """Replace calls of crate-local functions and closures that have a single return value by that value, parameters and
    captures substituted (so that `close(a1, a2, b1, b2)` reads as the comparison it computes)."""
    def f(x, d):
        if not isinstance(x, tuple):
            return x
        x = (x[0],) + tuple(f(y, d) if isinstance(y, tuple) else y for y in x[1:])
        if x[0] == 'call' and x[1] in prog.bodies and d > 0 and not (stop is not None and stop(x[1])):
            cb = prog.bodies[x[1]]
            rv = cb.return_values()
            if len(rv) == 1:
                if cb.kind == 'Closure':
                    env = strip(x[2]) if len(x) > 2 else None
                    args = strip(x[3]) if len(x) > 3 else None
                    if isinstance(env, tuple) and env[0] == 'agg' and isinstance(args, tuple) and args[0] == 'agg':
                        return f(subst_closure(cb, rv[0][0], env[2:], args[2:]), d - 1)
                else:
                    return f(subst_params(rv[0][0], x[2:]), d - 1)
        return x
    return f(t, depth)


# ---------------------------------------------------------------- values chosen by a branch: resolve per case
def branch_conditions(b, t, depth=6):
    """The switch conditions (stripped terms) that choose between several definitions of locals occurring in term t."""
    conds = []

    def f(x, d):
        if not isinstance(x, tuple) or d <= 0:
            return
        if x[0] == 'var' and x[1] == b.path:
            whole = [dd for dd in b.defs().get(x[2], []) if dd[4]]
            if len(whole) > 1:
                for dd in whole:
                    for g, k, sw in b.guard_terms(dd[1]):
                        g = strip(g)
                        if g not in conds and not all(any(strip(g2) == g and k2 == k for g2, k2, s2 in b.guard_terms(o[1])) for o in whole):
                            conds.append(g)
                    f(b._def_term(dd), d - 1)
            return
        for y in x[1:]:
            if isinstance(y, tuple):
                f(y, d)
    f(t, depth)
    return conds


def resolve_case(b, t, assume, depth=8):
    """Term t with every local that has several definitions replaced by the definition consistent with `assume`
    ({condition term: truth value}); tuple fields of aggregates are projected.  Locals that stay ambiguous are left."""
    from . import opw

    def f(x, d):
        if not isinstance(x, tuple) or d <= 0:
            return x
        if x[0] == 'var' and x[1] == b.path:
            whole = [dd for dd in b.defs().get(x[2], []) if dd[4]]
            if len(whole) > 1:
                ok = []
                for dd in whole:
                    contradicted = False
                    for g, k, sw in b.guard_terms(dd[1]):
                        g = strip(g)
                        if g in assume and opw.truth(k) in (True, False) and opw.truth(k) != assume[g]:
                            contradicted = True
                    if not contradicted:
                        ok.append(dd)
                if len(ok) == 1:
                    return f(b._def_term(ok[0]), d - 1)
            return x
        y = (x[0],) + tuple(f(z, d) if isinstance(z, tuple) else z for z in x[1:])
        if y[0] == 'fld' and isinstance(strip(y[1]), tuple) and strip(y[1])[0] == 'agg' and str(y[2]).isdigit() and int(y[2]) < len(strip(y[1])) - 2 \
                and strip(y[1])[1] not in ('array', 'vec'):
            return f(strip(y[1])[2 + int(y[2])], d - 1)
        return y
    return f(t, depth)


def peval(prog, t, rounds=4):
    """Partial evaluation of a value term: calls of crate-local functions and closures with a single return value are written
    out (arguments and captures substituted), `array::from_fn(f)[k]` becomes f(k), `array.map(f)[k]` becomes f(array[k]),
    constant indices into array aggregates and numbered fields of tuple aggregates are projected.  The result denotes the same
    value; what cannot be evaluated is left as it is."""
    def call_closure(cl, args):
        cb, caps = closure_of_term(prog, cl)
        if cb is None:
            return None
        rv = cb.return_values()
        if len(rv) != 1:
            return None
        return subst_closure(cb, rv[0][0], list(caps), list(args))

    def simp(x, d):
        if not isinstance(x, tuple):
            return x
        x = (x[0],) + tuple(simp(y, d) if isinstance(y, tuple) else y for y in x[1:])
        if x[0] == 'idx' and len(x) == 3:
            base = strip(x[1])
            k = const_val(x[2])
            if isinstance(k, int) and not isinstance(k, bool) and isinstance(base, tuple):
                if base[0] == 'agg' and base[1] in ('array', 'vec') and k < len(base) - 2:
                    return base[2 + k]
                if base[0] == 'call' and len(base) == 3 and mir.cname(base[1]) == 'array::from_fn' and d > 0:
                    r = call_closure(base[2], [('const', 'usize', k, None)])
                    if r is not None:
                        return simp(r, d - 1)
                if base[0] == 'call' and len(base) == 4 and mir.cname(base[1]) == 'array::map' and d > 0:
                    r = call_closure(base[3], [('idx', base[2], x[2])])
                    if r is not None:
                        return simp(r, d - 1)
        if x[0] == 'fld' and len(x) == 3 and str(x[2]).isdigit():
            base = strip(x[1])
            if isinstance(base, tuple) and base[0] == 'agg' and base[1] not in ('array', 'vec') and not str(base[1]).startswith('closure:') and int(x[2]) < len(base) - 2:
                return base[2 + int(x[2])]
        if x[0] == 'call' and x[1] in prog.bodies and d > 0:
            cb = prog.bodies[x[1]]
            rv = cb.return_values()
            if len(rv) == 1:
                if cb.kind == 'Closure':
                    env = strip(x[2]) if len(x) > 2 else None
                    args = strip(x[3]) if len(x) > 3 else None
                    if isinstance(env, tuple) and env[0] == 'agg' and isinstance(args, tuple) and args[0] == 'agg':
                        return simp(subst_closure(cb, rv[0][0], env[2:], args[2:]), d - 1)
                else:
                    return simp(subst_params(rv[0][0], x[2:]), d - 1)
        return x
    return simp(t, rounds)


def len_const(b, t):
    """the integer a range bound denotes: a constant, or `x.len()` of a local / parameter whose type is a fixed-size array"""
    import re as _re
    t = strip(t)
    c = const_val(t)
    if isinstance(c, int) and not isinstance(c, bool):
        return c
    if isinstance(t, tuple) and t[0] == 'call' and len(t) == 3 and mir.cname(t[1]).split('::')[-1] == 'len':
        v = t[2]
        while isinstance(v, tuple) and v[0] in ('ref', 'deref', 'cast'):
            v = v[1]
        loc = None
        if isinstance(v, tuple) and v[0] in ('param', 'mparam', 'mutb'):
            loc = v[1]
        elif isinstance(v, tuple) and v[0] == 'var':
            loc = v[2]
        if loc is not None:
            m = _re.search(r'\[[^\[\]]*; (\d+)\]\s*$', b.local_ty(loc).strip())
            if m:
                return int(m.group(1))
    return None


def value_cases(b, i, j, st):
    """[(value term, block whose guards apply)] of a store: the stored term itself, or - when it is a local assigned on
    several paths (`x = if c { 6 } else { 5 }`) - each of its definitions with the block it is made in."""
    t = strip(b.rv_term(st['rv'], (i, j)))
    if isinstance(t, tuple) and t[0] == 'var' and t[1] == b.path:
        whole = [d for d in b.defs().get(t[2], []) if d[4]]
        if len(whole) > 1:
            return [(strip(b._def_term(d)), d[1]) for d in whole]
    return [(t, i)]


def case_values(b, t, depth=4):
    """the values a term can stand for, one per definition of every local in it that is assigned on several paths (the
    top-level alternatives only: `match e { A => v1, B => v2 }` gives [v1, v2])"""
    t = strip(t)
    if isinstance(t, tuple) and t[0] == 'var' and t[1] == b.path and depth > 0:
        whole = [d for d in b.defs().get(t[2], []) if d[4]]
        if len(whole) > 1:
            out = []
            for d in whole:
                out.extend(case_values(b, b._def_term(d), depth - 1))
            return out
    return [t]


def unrolled_rows(b, local, nrows=8, ncols=None):
    """The rows of a table that is not written as one literal but filled row by row in a loop over another literal array
    (`for (i, branch) in arm.iter().enumerate() { t[i] = *branch; t[i + arm.len()] = [..branch[k]..] }`): the loop is
    unrolled over the elements of the source array and the index and value terms are evaluated per element.  None unless
    every row is assigned exactly once, by whole-row stores whose index is `i` or `i + <constant or length>`."""
    rows = {}
    for d in b.defs().get(local, []):
        if d[4]:
            continue                      # the initialiser (`[[NAN; 6]; 8]`)
        if d[0] != 'st':
            return None
        lhs = d[3]['lhs']
        if len(lhs['proj']) != 1 or lhs['proj'][0]['k'] != 'index':
            return None
        at = (d[1], d[2])
        it = strip(b.term_local(lhs['proj'][0]['local'], at))
        val = b.rv_term(d[3]['rv'], at)
        # the (index, element) pair of the enumerate loop
        pairs = mir.subterms(it, lambda x: x[0] == 'fld' and x[2] == '0' and isinstance(strip(x[1]), tuple) and strip(x[1])[0] == 'fld' and
                             strip(x[1])[2] == '0' and loop_source(strip(x[1])) is not None)
        if not pairs:
            return None
        pair = strip(pairs[0][1])
        base, ad = iter_chain(loop_source(pair))
        base = strip(base)
        while isinstance(base, tuple) and base[0] in ('ref', 'deref', 'cast'):
            base = strip(base[1])
        if 'enumerate' not in ad or not (isinstance(base, tuple) and base[0] == 'agg' and base[1] == 'array'):
            return None
        src_rows = [strip(r) for r in base[2:]]
        n = len(src_rows)

        def inst(t, k):
            def f(x):
                if not isinstance(x, tuple):
                    return x
                if x[0] == 'fld' and strip(x[1]) == pair and x[2] == '0':
                    return ('const', 'usize', k, None)
                if x[0] == 'fld' and strip(x[1]) == pair and x[2] == '1':
                    return ('ref', src_rows[k])
                if x[0] == 'call' and mir.cname(x[1]).split('::')[-1] == 'len' and len(x) == 3:
                    a = strip(x[2])
                    while isinstance(a, tuple) and a[0] in ('ref', 'deref', 'cast'):
                        a = strip(a[1])
                    if a == base:
                        return ('const', 'usize', n, None)
                return (x[0],) + tuple(f(y) if isinstance(y, tuple) else y for y in x[1:])
            return f(t)

        def intval(t):
            t = strip(t)
            c = const_val(t)
            if isinstance(c, int) and not isinstance(c, bool):
                return c
            if isinstance(t, tuple) and t[0] == 'bin' and t[1] in ('Add', 'AddWithOverflow', 'AddUnchecked'):
                a, c2 = intval(t[2]), intval(t[3])
                return a + c2 if a is not None and c2 is not None else None
            if isinstance(t, tuple) and t[0] == 'fld' and t[2] == '0':
                return intval(t[1])
            if isinstance(t, tuple) and t[0] == 'agg' and t[1] == 'tuple' and len(t) >= 3:
                return intval(t[2])
            return None
        for k in range(n):
            idx = intval(inst(it, k))
            if idx is None or idx in rows or not (0 <= idx < nrows):
                return None
            v = strip(inst(val, k))
            while isinstance(v, tuple) and v[0] in ('deref', 'ref'):
                v = strip(v[1])
            if not (isinstance(v, tuple) and v[0] == 'agg' and v[1] == 'array'):
                return None
            rows[idx] = v
    if sorted(rows) != list(range(nrows)):
        return None
    return [rows[k] for k in range(nrows)]
